"""C03 — what is stored in a trajectory store is what is read back.

Shared machinery: `Flow` - what an expression at a statement denotes, every
local replaced by the definition(s) that reach the use (straight-line kill,
if/else merge, branches that leave, loop back edges), the value variable of
`for k, v in M.items()` by `M[k]`, tuple unpacking by component, loop keys
written `name@line`; resolved helper calls and property reads are expanded
on demand.  `iteration_paths` - every way through one pass of a loop body
(constant flags tracked) with the conditions taken, ending in abort / next /
leave.  `Dispatch` - case analysis by partial evaluation (R3).

R1  species-axis agreement (T-AGREE): the sequence whose position supplies the
    index on the species axis is the same *source* at dimension creation, in
    the writer and in the reader (the file's own species list, or the enum
    everywhere).  Dimension creation is read from every `createDimension`
    with a size in `_create_dimensions`, a nested helper or a module-level
    helper of any module that it calls (instantiated at each call site;
    inlined helper = direct form): the size and the sequence whose members
    label the coordinate variable (through the handle returned by
    createVariable or `.variables[name]`, by enumerate / zip(range) /
    range(len(S)) + `S[i]` loop or one slice assignment) must be the same
    sequence, count-wise, after resolving locals (`members = values if values
    is not None else list(enum_type)`; the guard-clause spelling `if values
    is None: values = list(enum_type)` is read as that conditional,
    DefaultsFlow).  Which arm of such a choice lays the axis out is decided
    by value flow (value_presence): a test of a helper parameter by the
    argument of the call, any other test where it stands; a parameter of
    `_create_dimensions` is what every caller hands over (through callers'
    parameters, an omitted argument = the default); only a literal None is
    unset; a value at some calls and None at others is undecided.
    Positions in writer / reader: `enumerate(S)`, `range(len(S))`, `zip(range,
    S)`, `S.index(x)`, in the function itself, its closures and the methods
    its dispatch table hands over to; a parameter is traced through callers
    (also `table[key](…)` calls) and properties; an untraceable source is
    undecided, never a violation.  A whole row moved at once counts too:
    `var[index, :] = V` positions by the comprehension that builds V
    (`[val[tm] for tm in S]` -> S) or else by V itself (`list(val.values())`:
    the mapping's own order, not the axis'), `zip(S, var[index])` labels a row
    read with S; which axis a slice runs along is read from the dimension
    combinations whose arm holds the statement.  An object that wraps the
    sequence counts for the sequence it was constructed over (Holder: a
    repository class whose constructor keeps one sequence handed to it, in an
    attribute stored once and never written or changed again, optionally with
    a per-instance position table {member: position} built in the constructor
    over that same sequence): `for i, x in X.pairs(…)` over a generator /
    returned comprehension of (position, member) pairs - either order - of
    members of the sequence, `X.position(x)` (every return a table look-up or
    `S.index(x)`) and iteration of X are read as enumerate(S) / S.index(x) /
    `for x in S`; S is the constructor argument where X is built, also
    through an attribute computed once at construction from the owner's other
    attributes (`self.axis = K(self.species)` read as `nc_file.axis`, which
    cannot go stale: neither attribute is stored anywhere else).  A table
    over another order, a shifted position or a shared class-level table is
    not a Holder (undecided; the last is C03-O2).  R1b the same for the
    thrust-mode axis.  R1c the index variables are used in the subscript in
    dimension order - through chained subscripts and locals that hold one
    record (`cell = var[index]` … `cell[si, ti]`) - and a position is the
    position variable itself, not an expression of it (`si + 1`).
    R1e every member of the axis gets its turn: a `for` loop of the writer or
    the reader that positions members on an axis (the enumerations of R1 /
    R1b, `S.index(x)` loops included) is never left early for a reason that
    depends on the pass - no `break` of that loop and no `return` anywhere in
    its body (nested loops and compound statements included); a pass may only
    go on to the next member (`continue`, an `if` around the store) or raise.
    Leaving drops every later member of the value (`if sp not in val: return`
    where `continue` was meant).  The loop inside a Holder's pair generator
    is such a loop too (`break` / `return` there ends the writer's walk).  A
    leave under a condition that mentions
    nothing bound in the loop is a guard of the whole loop and not judged.
    Floor: 2 loops.
    Scopes of R1 / R1b / R1c / R1e / R6: the writer / reader, the methods its
    dispatch table hands over to, and every resolved helper (method or
    module-level function of any module) the NetCDF variable is handed to, in
    turn; the helper's parameters that receive the variable and the record
    index are found from the call, the axes of a row transfer in a helper
    from the arms that hold its call.
    R1d (value flow) the species list handed to the writer / reader is the
    `.species` of the very file object that owns the variable: both
    arguments are resolved with Flow (hoisted, items()-iterated, passed
    through a property such as `species_list` or a store-wide `species`
    property; a Holder by the list it was constructed over) and their owners
    compared.  Flow reads a literal tuple / list by a constant position as
    the element (a location record returned by a helper) and drops an
    alternative that subscripts or reads an attribute of the constant None
    (a "not found" result: using it raises, no value flows).
R2  absent <-> skipped agreement.  Writer: walked with the value None and
    `field.required` fixed (tests decided by these facts followed, others
    explored both ways): required -> every way raises; optional -> every way
    returns before anything is written into the variable - a way that rebinds
    the value (to a default, an empty array) and writes is the mistake
    "unset stored as <that>".  A test of the value that is not understood is
    undecided; callers that only pass set values discharge the obligation.
    Only None counts as unset: walked with a value that is set, no way ends
    before a write under a test of the value's truthiness or its equality
    with a constant (`if not val`: 0, 0.0, an empty mapping).
    Reader: for the arms where the writer can leave a cell unwritten, the
    conditions that decide what is handed back are collected (guards of
    `return None` incl. guard clauses spelled the other way round and
    conditional expressions; the `if` of the comprehension, or the guards of
    the element stores of the loop, that builds the outermost mapping
    returned) and resolved with Flow: one of them must test a never-written
    marker (fill value / emptiness / mask) at the level of the species
    entries; a helper counts for what it returns (a fill value memoised on
    the store is not the variable's own), a test of a container built in the
    arm (`if modes:`) for the markers tested where it is filled, a pipeline of
    comprehensions for the `if`s of all its stages.  R2b the marker must not
    be met by a storable value; a length marker tests emptiness only
    (`len(v) > 1` drops one-point arrays).
R3  case-table exhaustiveness: the legal dimension combinations are derived
    from Dimensions.__init__.  Each of the four dispatching functions (empty,
    convert_in, writer, reader) is partially evaluated for every truth
    assignment of its `Dimension.X in ….dimensions` tests, whatever the idiom
    (`match` on a tuple or a flag, if/elif/else, nested ifs, guard clauses
    with early return, flags in locals, `and`/`or`/`not`/`==`, dict keyed by
    the flag tuple - when the dict holds nested functions, lambdas or methods
    of the class, the arm is the body of the one selected); the *arm* of an
    assignment is what runs for it and not for all.  Every legal combination
    has an arm that does something (not nothing, not an unconditional raise);
    no other combination passes silently.  Positive control: five embedded
    spellings.
R4  digest completeness: every FieldMetadata field enters digest_info;
    FieldSet.digest covers the name and all fields in sorted order; the
    variable attributes written at creation are the ones read back by
    from_netcdf_group.
R5  hash gate.  For each function that opens an existing file: on every way
    from the entry to a `return` of a value (the NcFiles description; forward
    dataflow over the CFG, exceptional edges included, so a refusal that a
    handler swallows does not count) every stored digest has been compared
    with the registry's digest for the same name, and a mismatch has raised
    or met `force_fieldset_matches`.  "Compared" is decided by value flow, not
    by shape: a *check loop* is a `for` whose passes are the file's (name,
    hash) pairs - zip / enumerate + index / range(len) / dict(zip).items() /
    a precomputed list of registry digests, over the whole `fieldset_names`
    and `fieldset_hashes` attributes (single string wrapped, getattr, reading
    helper, NamedTuple field) - in which every way through one pass
    (iteration_paths) that does not raise has established `registry digest of
    this pair's name == this pair's hash` or the force flag (conditions judged
    with and/or/not, flag locals, parameters bound at the call); a pass that
    ends the loop early needs the force flag.  Also accepted: refusal deferred
    through a flag / list the passes record into and a later test consults;
    `any()/all()/next()`/filtered comprehension over all pairs as the test, or
    a loop over that collection (a generator helper counts as the
    comprehension it stands for); the gate, or the predicate, in a resolved
    helper of any module (parameters bound to the caller's resolved
    arguments; every normal exit of the helper must have passed the gate).
    Violations name the construct: a pass that goes on silently (warn only,
    inverted flag, wrong hash / wrong name / digest compared with itself or
    truncated, skip of unknown names, extra conjunct), a sliced pair list, an
    early end of the loop, a return that bypasses the gate (conditional gate,
    swallowed refusal, helper that returns early), no comparison at all.  A
    digest comparison in a form that is not analysed is undecided.
R6  the writer writes, and the reader reads, at the record index it is given.
    By value flow, for the call of the writer in `_write_data` and of the
    reader in `_load_trajectory`: variable, field definition, name argument
    and (writer) `getattr(source, name)` go by one key, group and definitions
    by one field set; the key is the key of an iteration over the group's
    variables or the field set's fields, the field-set name of an iteration
    over the store's field sets (for statement or comprehension, `for k in
    M` / `.items()` / `.values()` + `.name`); every non-aborting way through
    one pass of either loop reaches the call (iteration_paths) - a way that
    passes a field over under a condition on its definition (dimension,
    metadata) is a violation, under "value is unset" allowed for the writer,
    under another condition on the item undecided; leaving the loop (`break`,
    `return` in the writer) under an item-dependent condition is a violation;
    sliced / filtered sources are violations.  Reader: the value read is kept
    under its field's name (element store or dict comprehension handed to the
    container) and assigned to the trajectory attribute of that name by a
    loop over that container in which the assignment is unconditional; a
    mapping that receives that container whole (`D.update(K)`, `D |= K`)
    after the field loop, in every pass of the field-set loop and whatever
    the item, stands for it (anything else about the merge: undecided).
R7  lost accumulation: a container initialised empty before a loop and used
    after it is not rebound inside the loop (positive control).
R8  every value accepted into a field is the container's own copy in the
    field's data type: each return of `_cast` (alternatives by Flow) is
    `….astype(self.field_type)` / `np.array(…, dtype=self.field_type)` /
    `.item()` of such, never copy=False; every return of convert_in is None
    or *built from* `self._cast(…)` - followed through locals, containers
    filled in loops, comprehensions, constructors, conditional expressions
    and resolved helper methods.  The incoming object (or a view / shallow
    copy of it) reaching a return is the violation; anything else that cannot
    be followed is undecided.
R9  writer domain within dimension domain: the species list that sizes and
    labels the species axis of a new file (as found by R1's dimension
    analysis) is traced back through parameters, callers, properties and
    helpers to the places where species enter it (`acc.update/add/|=` under
    loops, comprehensions, also over a filtered comprehension held in a
    local).  The conditions on the *field* under which a field contributes
    (enclosing ifs, earlier `continue` guards, comprehension ifs; by
    category: has-species-dimension, value-is-set, a metadata attribute such
    as `required`, the field's name, another dimension) must be among the
    conditions under which the writer writes a field, read from
    `_write_data`'s field loops and the unset-value protocol of
    `_write_to_nc_var` (R2's evaluation; today: value is set).  Anything
    narrower - including leaving the loop right after the first contribution
    - leaves a written species without a slot.  Sliced / filtered loop sources
    and other early exits are undecided.  Floor: 2 collections (new store,
    associated file); positive control.
R10 stored type = declared type, creation side.  (a) every `createVariable`
    in `_create_nc_file` (and the helpers it calls) whose name is the key of
    an iteration over a field set's fields: each value its type argument can
    have (Flow; conditional expressions split; a helper that picks the type
    opened) is `<that field>.field_type` or the entry kept under `<that
    field>.field_type` in a table (`T[K]`, `T.get(K)`); a fixed type, a
    look-up under a fixed type or another field's type is the violation.
    (b) every `createVLType` reachable from there: the key it is registered
    under (`T[K] = …`, dict display / comprehension, setdefault) and the
    scalar type it is made of are the same value (np.dtype() peeled), or the
    base is `TABLE[K]` / `TABLE.get(K)` of a module-level dict display that
    nothing stores into, and then every row of TABLE maps a numpy scalar
    type to the type code numpy and netCDF4 read as that same type ('i8',
    '<f4', 'int64', np.int64; platform-dependent names undecided) - a row
    such as `np.int64: 'i4'` narrows every per-point int64 field.  Literal
    entries of a type table (`{str: str}`) map a type to itself.  Floors: 1
    field variable, 1 createVLType.
Before the rules run, parameter aliases are removed from the functions of
store.py / field_sets.py (unalias_parameters: `var, index = cell_var,
cell_index` with neither side rebound - what is left of `var, index =
cell.var, cell.index` once the engine has dissolved the parameter object).
"""

from __future__ import annotations

import ast
import itertools

from ..astutil import first_stmt, last_stmt  # noqa: F401
from ..astutil import (ancestors, call_name, calls_in, conjuncts, enclosing_iterations, guards_of, is_within,
                       iterated_mapping, kwarg, local_defs, map_iteration, norm, single_def_value, stmt_of, stores_to,
                       tuple_def_component, walk_no_nested)
from ..cfg import CFG
from ..loader import ClassInfo, dotted_name, parent
from ..resolve import callers_of, expr_class, resolve_call, resolve_class_call

STORE = 'trajectories/store.py'
FS = 'storage/field_sets.py'
DIMS = 'storage/dimensions.py'


# ------------------------------------------------------------ value flow --
def _block_of(par, child):
    for f in ('body', 'orelse', 'finalbody'):
        blk = getattr(par, f, None)
        if isinstance(blk, list) and any(x is child for x in blk):
            return blk
    for h in getattr(par, 'handlers', []) or []:
        if any(x is child for x in h.body):
            return h.body
    return None


def _ends(body) -> bool:
    """every path through the block leaves it by return/raise/continue/break (syntactic, conservative)"""
    l = last_stmt(body)
    if isinstance(l, (ast.Return, ast.Raise, ast.Continue, ast.Break)):
        return True
    if isinstance(l, ast.If):
        return bool(l.orelse) and _ends(l.body) and _ends(l.orelse)
    if isinstance(l, (ast.With, ast.AsyncWith)):
        return _ends(l.body)
    return False


def _rebuild(n, mapping):
    """copy of expression n in which the nodes listed in mapping (by id) are replaced; positions are kept"""
    if id(n) in mapping:
        return mapping[id(n)]
    if isinstance(n, list):
        return [_rebuild(x, mapping) for x in n]
    if not isinstance(n, ast.AST):
        return n
    new = type(n)()
    for f in n._fields:
        if hasattr(n, f):
            setattr(new, f, _rebuild(getattr(n, f), mapping))
    for a in ('lineno', 'col_offset', 'end_lineno', 'end_col_offset'):
        if hasattr(n, a):
            setattr(new, a, getattr(n, a))
    return new


def _project_literals(e):
    """e with every `(a, b, c)[i]` / `[a, b, c][i]` (literal sequence, constant index, no star) replaced by the
    element: what a record returned as a tuple and read back by position denotes"""
    for _ in range(6):
        m = {}
        for x in ast.walk(e):
            if isinstance(x, ast.Subscript) and isinstance(x.value, (ast.Tuple, ast.List)) \
                    and isinstance(x.slice, ast.Constant) and type(x.slice.value) is int \
                    and not any(isinstance(y, ast.Starred) for y in x.value.elts) \
                    and -len(x.value.elts) <= x.slice.value < len(x.value.elts):
                m[id(x)] = x.value.elts[x.slice.value]
        if not m:
            return e
        e = _rebuild(e, m)
    return e


def _derefs_none(e) -> bool:
    """e subscripts or reads an attribute of the constant None: evaluating it raises"""
    return any(isinstance(x, (ast.Subscript, ast.Attribute)) and isinstance(x.value, ast.Constant)
               and x.value.value is None for x in ast.walk(e))


def untag(s: str) -> str:
    import re
    return re.sub(r'@\d+(\.\d+)?', '', s)


def same_site(a: ast.AST, b: ast.AST) -> bool:
    """a (possibly a rebuilt copy) is the source construct b"""
    return type(a) is type(b) and getattr(a, 'lineno', -1) == getattr(b, 'lineno', -2) and \
        getattr(a, 'col_offset', -1) == getattr(b, 'col_offset', -2) and \
        getattr(a, 'end_col_offset', -1) == getattr(b, 'end_col_offset', -2)


class Flow:
    """What an expression at a statement of one function denotes, written over the function's parameters, `self`,
    free names and loop keys: every local is replaced by the definition(s) that reach the use (structural reaching
    definitions: straight-line kill, if/else merge, branches that leave, loop back edges), the value variable of a
    mapping iteration `for k, v in M.items()` by `M[k]`, tuple unpacking by its component.  Loop variables are
    written `name@line` so that two loops over the same spelling stay apart.  Several reaching definitions give
    several alternatives (`alts`); more than `CAP` sets `overflow`."""
    CAP = 24

    def __init__(self, prog, fi):
        self.prog, self.fi, self.fn = prog, fi, fi.node
        self.overflow = False

    # -- definitions made by one statement -------------------------------
    def _target_def(self, t, value, st, name):
        if isinstance(t, ast.Name):
            return ('val', st, value) if t.id == name else None
        if isinstance(t, (ast.Tuple, ast.List)):
            for i, e in enumerate(t.elts):
                if isinstance(e, ast.Name) and e.id == name:
                    if any(isinstance(x, ast.Starred) for x in t.elts):
                        return ('opaque', st)
                    return ('comp', st, value, i)
                if isinstance(e, (ast.Tuple, ast.List, ast.Starred)) and name in names_of_target(e):
                    return ('opaque', st)
        return None

    def _iter_def(self, owner, target, it, name):
        if name in names_of_target(target):
            return ('iter', owner, target, it, name)
        return None

    def _simple_defs(self, s, name):
        """definitions of name made by the statement's own head (not by nested blocks)"""
        out = []
        if isinstance(s, (ast.FunctionDef, ast.AsyncFunctionDef, ast.ClassDef)):
            return [('opaque', s)] if s.name == name else []
        if isinstance(s, ast.Assign):
            for t in s.targets:
                d = self._target_def(t, s.value, s, name)
                if d:
                    out.append(d)
        elif isinstance(s, ast.AnnAssign):
            if s.value is not None and isinstance(s.target, ast.Name) and s.target.id == name:
                out.append(('val', s, s.value))
        elif isinstance(s, ast.AugAssign):
            if isinstance(s.target, ast.Name) and s.target.id == name:
                out.append(('opaque', s))
        elif isinstance(s, (ast.For, ast.AsyncFor)):
            d = self._iter_def(s, s.target, s.iter, name)
            if d:
                out.append(d)
        elif isinstance(s, (ast.With, ast.AsyncWith)):
            for it in s.items:
                if it.optional_vars is not None and name in names_of_target(it.optional_vars):
                    out.append(('opaque', s))
        elif isinstance(s, (ast.Import, ast.ImportFrom)):
            if any((a.asname or a.name.split('.')[0]) == name for a in s.names):
                out.append(('opaque', s))
        heads = [s] if not isinstance(s, (ast.If, ast.For, ast.AsyncFor, ast.While, ast.With, ast.AsyncWith, ast.Try,
                                          ast.Match, ast.FunctionDef, ast.AsyncFunctionDef, ast.ClassDef)) else \
            [getattr(s, f) for f in ('test', 'iter', 'subject') if hasattr(s, f)]
        for h in heads:
            for x in walk_no_nested(h):
                if isinstance(x, ast.NamedExpr) and x.target.id == name:
                    out.append(('val', s, x.value))
        return out

    def _all_defs(self, stmts, name):
        out = []
        for s in stmts:
            for x in walk_no_nested(s):
                if isinstance(x, ast.stmt):
                    out += self._simple_defs(x, name)
                elif isinstance(x, ast.match_case):
                    if any(isinstance(p, (ast.MatchAs, ast.MatchStar)) and p.name == name for p in ast.walk(x.pattern)):
                        out.append(('opaque', x.pattern))
        return out

    def _stmt_defs(self, s, name):
        """(definitions of name that can be in force right after s, s always defines it)"""
        if isinstance(s, ast.If):
            b, bd, bt = self._block_defs(s.body, name)
            o, od, ot = self._block_defs(s.orelse, name)
            head = self._simple_defs(s, name)
            return head + ([] if bt else b) + ([] if ot else o), (bd or bt) and (od or ot) and not (bt and ot)
        if isinstance(s, (ast.With, ast.AsyncWith)):
            head = self._simple_defs(s, name)
            b, bd, bt = self._block_defs(s.body, name)
            return b + head, bd or bool(head)
        if isinstance(s, (ast.For, ast.AsyncFor, ast.While, ast.Try, ast.Match)):
            return self._all_defs([s], name), False
        d = self._simple_defs(s, name)
        return d, bool(d)

    def _block_defs(self, blk, name):
        """(definitions in force at the end of the block, definitely defined, the block never falls through)"""
        defs = []
        for s in reversed(blk):
            d, de = self._stmt_defs(s, name)
            defs += d
            if de:
                return defs, True, _ends(blk)
        return defs, False, _ends(blk)

    def reaching(self, name, at):
        """definitions of local `name` that can reach statement `at`"""
        out, seen = [], set()

        def add(ds):
            for d in ds:
                k = (d[0], id(d[1]), d[3] if d[0] == 'comp' else 0)
                if k not in seen:
                    seen.add(k)
                    out.append(d)
        child = at
        for a in ancestors(at):
            blk = _block_of(a, child)
            if blk is None and isinstance(a, ast.match_case) and any(x is child for x in a.body):
                blk = a.body
            if blk is not None:
                idx = next(i for i, x in enumerate(blk) if x is child)
                for s in reversed(blk[:idx]):
                    d, de = self._stmt_defs(s, name)
                    add(d)
                    if de:
                        return out
            if isinstance(a, (ast.For, ast.AsyncFor)) and blk is a.body:
                d = self._iter_def(a, a.target, a.iter, name)
                if d:
                    add([d])
                    return out
                add(self._all_defs(a.body, name))
            elif isinstance(a, ast.While) and blk is a.body:
                add(self._all_defs(a.body, name))
            elif isinstance(a, (ast.With, ast.AsyncWith)):
                d = [x for x in self._simple_defs(a, name) if x[0] == 'opaque']
                if d:
                    add(d)
                    return out
            elif isinstance(a, ast.match_case):
                if any(isinstance(p, (ast.MatchAs, ast.MatchStar)) and p.name == name for p in ast.walk(a.pattern)):
                    add([('opaque', a.pattern)])
                    return out
            if isinstance(a, (ast.FunctionDef, ast.AsyncFunctionDef, ast.Lambda)):
                args = a.args
                ps = [x.arg for x in args.posonlyargs + args.args + args.kwonlyargs] + \
                    [x.arg for x in (args.vararg, args.kwarg) if x is not None]
                add([('param', a) if name in ps else ('free', a)])
                return out
            child = a
        add([('free', None)])
        return out

    # -- expressions -------------------------------------------------------
    @staticmethod
    def _bound_inside(e):
        """names bound by comprehensions / lambdas inside e"""
        b = set()
        for x in ast.walk(e):
            if isinstance(x, ast.comprehension):
                b |= names_of_target(x.target)
            elif isinstance(x, ast.Lambda):
                b |= {a.arg for a in x.args.args + x.args.kwonlyargs}
        return b

    def _def_alts(self, d, name, depth):
        if d[0] == 'val':
            if _is_fresh_container(d[2]):
                # a container built here and filled later: the object, not its initial (empty) value
                return [ast.Name(id=f'{name}@{d[1].lineno}', ctx=ast.Load())]
            return self.alts(d[2], d[1], depth + 1)
        if d[0] == 'comp':
            out = []
            for v in self.alts(d[2], d[1], depth + 1):
                if isinstance(v, ast.Constant):
                    continue        # unpacking a constant raises: no value flows from there
                if isinstance(v, (ast.Tuple, ast.List)) and len(v.elts) > d[3] \
                        and not any(isinstance(x, ast.Starred) for x in v.elts):
                    out.append(v.elts[d[3]])
                else:
                    out.append(ast.Subscript(value=v, slice=ast.Constant(value=d[3]), ctx=ast.Load()))
            return out
        if d[0] == 'iter':
            _, owner, target, it, nm = d
            line = getattr(owner, 'lineno', 0)
            mi = map_iteration(target, it)
            if mi is not None and mi[2] == nm:
                key = ast.Name(id=f'{mi[1] or "?"}@{line}', ctx=ast.Load())
                at = owner if isinstance(owner, ast.stmt) else stmt_of(owner)
                return [ast.Subscript(value=mx, slice=key, ctx=ast.Load())
                        for mx in self.alts(iterated_mapping(it)[0], at, depth + 1)]
            return [ast.Name(id=f'{nm}@{line}', ctx=ast.Load())]
        if d[0] in ('param', 'free'):
            return [ast.Name(id=name, ctx=ast.Load())]
        return [ast.Name(id=f'{name}@{getattr(d[1], "lineno", 0)}', ctx=ast.Load())]

    def alts(self, e, at, depth=0):
        """alternatives of expression e evaluated at statement `at` (for the iterable of a loop: the loop statement,
        whose own targets are not in force there)"""
        if e is None:
            return []
        if depth > 7:
            return [e]
        bound = self._bound_inside(e)
        slots = []
        for x in ast.walk(e):
            if isinstance(x, ast.Name) and isinstance(x.ctx, ast.Load) and x.id not in bound and '@' not in x.id:
                cb = self._comp_binding(x)
                ds = [cb] if cb is not None else self.reaching(x.id, at)
                if len(ds) == 1 and ds[0][0] in ('param', 'free'):
                    continue
                ch, seen = [], set()
                for d in ds:
                    for v in self._def_alts(d, x.id, depth):
                        k = ast.dump(v)
                        if k not in seen:
                            seen.add(k)
                            ch.append(v)
                slots.append((x, ch))
        if not slots:
            return [e]
        n = 1
        for _, ch in slots:
            n *= max(1, len(ch))
        if n > self.CAP:
            self.overflow = True
            slots = [(x, ch[:1]) for x, ch in slots]
        out = []
        for combo in itertools.product(*[ch for _, ch in slots]):
            out.append(_project_literals(_rebuild(e, {id(x): v for (x, _), v in zip(slots, combo)})))
        # a definition `x = None` whose use is `x[i]` / `x.attr` raises there: no value flows from it (the same
        # reasoning as for unpacking a constant); kept when nothing else is left, so that the caller says undecided
        live = [v for v in out if not _derefs_none(v)]
        return live or out

    @staticmethod
    def _comp_binding(x):
        """the clause of an enclosing comprehension that binds name node x (None: not bound by one)"""
        child = x
        p = getattr(x, '_parent', None)
        while p is not None and not isinstance(p, ast.stmt):
            if isinstance(p, (ast.ListComp, ast.SetComp, ast.DictComp, ast.GeneratorExp)):
                gens = p.generators
                # x inside the iterable of clause i sees the targets of clauses < i only
                upto = len(gens)
                for i, g in enumerate(gens):
                    if child is g and any(y is x for y in ast.walk(g.iter)):
                        upto = i
                for g in reversed(gens[:upto]):
                    if x.id in names_of_target(g.target):
                        return ('iter', p, g.target, g.iter, x.id)
            child = p
            p = getattr(p, '_parent', None)
        return None

    # -- calls of repository helpers and properties -------------------------
    def expand(self, e, depth=0):
        """alternatives of what a resolved helper call / property read returns, in the caller's terms; None if e is
        not such a construct"""
        if depth > 3:
            return None
        callee, binds = None, {}
        if isinstance(e, ast.Call):
            callee = resolve_call(self.prog, self.fi, e)
            if callee is None or callee.node is self.fn:
                return None
            ps = callee.params
            off = 0
            if ps[:1] in (['self'], ['cls']) and isinstance(e.func, ast.Attribute) and \
                    not any('staticmethod' in d for d in callee.decorators()):
                binds[ps[0]] = e.func.value
                off = 1
            if any(isinstance(a, ast.Starred) for a in e.args) or any(k.arg is None for k in e.keywords):
                return None
            for p, a in zip(ps[off:], e.args):
                binds[p] = a
            for k in e.keywords:
                binds[k.arg] = k.value
            for p in ps:
                if p not in binds:
                    dflt = _default_of(callee, p)
                    if dflt is not None:
                        binds[p] = dflt
        elif isinstance(e, ast.Attribute):
            callee = property_of(self.prog, self.fi, e)
            if callee is None:
                return None
            binds[callee.params[0]] = e.value
        else:
            return None
        f2 = Flow(self.prog, callee)
        out = []
        for r in walk_no_nested(callee.node):
            if isinstance(r, ast.Return):
                if r.value is None:
                    out.append(ast.Constant(value=None))
                    continue
                for v in f2.alts(r.value, r):
                    m = {id(x): binds[x.id] for x in ast.walk(v)
                         if isinstance(x, ast.Name) and x.id in binds and x.id not in Flow._bound_inside(v)}
                    out.append(_rebuild(v, m))
        self.overflow = self.overflow or f2.overflow
        return out or None


def record_field(prog, fi, e):
    """A for `Rec(…, f=A, …).f` / `Rec(A, …).f` where Rec is a class of the repository whose constructor is made from
    its annotated fields (NamedTuple, dataclass: no __init__ of its own); None for anything else"""
    if not (isinstance(e, ast.Attribute) and isinstance(e.value, ast.Call)):
        return None
    c = e.value
    if any(isinstance(a, ast.Starred) for a in c.args) or any(k.arg is None for k in c.keywords):
        return None
    cls_ = resolve_class_call(prog, fi, c) if prog is not None else None
    if cls_ is None or cls_.find_method('__init__') is not None or cls_.find_method('__new__') is not None:
        return None
    fields = list(cls_.all_fields())
    if e.attr not in fields:
        return None
    v = kwarg(c, e.attr)
    if v is not None:
        return v
    i = fields.index(e.attr)
    return c.args[i] if i < len(c.args) else None


def project_records(prog, fi, e):
    """e with every `Rec(…).field` replaced by the constructor argument of that field"""
    for _ in range(4):
        m = {}
        for x in ast.walk(e):
            v = record_field(prog, fi, x)
            if v is not None:
                m[id(x)] = v
        if not m:
            return e
        e = _rebuild(e, m)
    return e


def property_of(prog, fi, e):
    """the property method read by attribute expression e: through the class of the receiver when that resolves,
    else the only property of that name in the program"""
    if not isinstance(e, ast.Attribute):
        return None
    owner = expr_class(prog, fi, e.value)
    if owner is not None:
        meth = owner.find_method(e.attr)
        return meth if meth is not None and any('property' in d for d in meth.decorators()) else None
    cands = [f for f in prog.all_functions() if f.name == e.attr and '.' in f.qualname
             and '<locals>' not in f.qualname and any('property' in d for d in f.decorators())]
    if len(cands) == 1 and not any(e.attr in c.all_fields() for c in prog.all_classes()):
        return cands[0]
    return None


def names_of_target(t) -> set:
    return {x.id for x in ast.walk(t) if isinstance(x, ast.Name)}


def _is_fresh_container(v) -> bool:
    if isinstance(v, (ast.List, ast.Set, ast.Dict)):
        return True
    return isinstance(v, ast.Call) and call_name(v) in ('set', 'list', 'dict', 'defaultdict', 'collections.defaultdict',
                                                        'OrderedDict', 'collections.OrderedDict') and not v.args


# ------------------------------------------------------ sequence holders --
_MUTATING = {'append', 'extend', 'insert', 'remove', 'pop', 'clear', 'sort', 'reverse', 'update', 'setdefault',
             'popitem', 'add', 'discard', '__setitem__', '__delitem__'}


def _self_attr(e):
    """A for `self.A`"""
    return e.attr if isinstance(e, ast.Attribute) and isinstance(e.value, ast.Name) and e.value.id == 'self' else None


def _attr_writes(tree, attr):
    """every construct under `tree` that gives an attribute called `attr` (of any object) a value or changes the
    object it holds in place: [(kind, node)], kind 'plain' (`X.attr = V`, node = the statement), 'fill'
    (`X.attr[k] = v`, node = the statement) or 'other' (augmented / tuple / loop / with targets, del, mutating
    method calls)"""
    out = []
    for n in ast.walk(tree):
        if isinstance(n, ast.Attribute) and n.attr == attr:
            par = getattr(n, '_parent', None)
            if isinstance(n.ctx, ast.Store):
                if isinstance(par, ast.Assign) and any(t is n for t in par.targets):
                    out.append(('plain', par))
                elif isinstance(par, ast.AnnAssign) and par.target is n:
                    if par.value is not None:
                        out.append(('plain', par))
                else:
                    out.append(('other', n))
            elif isinstance(n.ctx, ast.Del):
                out.append(('other', n))
            elif isinstance(par, ast.Subscript) and par.value is n and isinstance(par.ctx, (ast.Store, ast.Del)):
                pp = getattr(par, '_parent', None)
                if isinstance(par.ctx, ast.Store) and isinstance(pp, ast.Assign) and len(pp.targets) == 1 \
                        and pp.targets[0] is par:
                    out.append(('fill', pp))
                else:
                    out.append(('other', par))
            elif isinstance(par, ast.Attribute) and par.value is n and par.attr in _MUTATING \
                    and isinstance(getattr(par, '_parent', None), ast.Call) and par._parent.func is par:
                out.append(('other', par))
    return out


def _methods_of(cls):
    """name -> FunctionInfo of the methods written in the class body (the loader does not fill `methods` for a
    class nested in a class: those are found in the module's function table by their node)"""
    if cls.methods:
        return cls.methods
    by_node = {id(f.node): f for f in cls.module.functions.values()}
    out = {}
    for s_ in cls.node.body:
        if isinstance(s_, (ast.FunctionDef, ast.AsyncFunctionDef)) and id(s_) in by_node:
            out.setdefault(s_.name, by_node[id(s_)])
    return out


class Holder:
    """What a repository class that wraps ONE sequence handed to its constructor gives out about it.  `param`: the
    constructor parameter; `seq_attrs`: attributes that hold the sequence's members in its order for the life of
    the object (stored once, at the top level of the constructor, never written or changed again by anything in
    the module); `tables`: attributes that hold the position table of the sequence ({member: position}), built
    per instance in the constructor by a comprehension / dict(zip(S, range(len(S)))) or by an unconditional
    `self.T[m] = i` in a loop that pairs positions and members, and never written again; `pos_methods`: methods
    m(self, x) every return of which is the position of x (table look-up, `S.index(x)`); `pair_gens`: methods
    that produce (position, member) pairs of members of the sequence - generators all of whose yields are such
    pairs inside one loop over the sequence, or a returned comprehension - name -> (place of the position in the
    pair, the loop or None, the method); `iterates`: iterating the object walks the members in order."""

    def __init__(self, cls, param):
        self.cls, self.param = cls, param
        self.seq_attrs, self.tables = set(), set()
        self.pos_methods, self.pair_gens, self.iterates = set(), {}, False


def _ctor_of(cls):
    """(constructor parameters, the method whose body runs at construction or None, written by hand?)"""
    init = _methods_of(cls).get('__init__')
    if init is not None:
        a = init.node.args
        if a.vararg or a.kwarg or init.params[:1] != ['self']:
            return None
        return init.params[1:], init, True
    if any('dataclass' in ast.unparse(d) for d in cls.node.decorator_list):
        ps = []
        for s in cls.node.body:
            if isinstance(s, ast.AnnAssign) and isinstance(s.target, ast.Name) and 'ClassVar' not in ast.unparse(s.annotation):
                v = s.value
                if isinstance(v, ast.Call) and call_name(v).endswith('field') and \
                        isinstance(kwarg(v, 'init'), ast.Constant) and kwarg(v, 'init').value is False:
                    continue
                ps.append(s.target.id)
        return ps, _methods_of(cls).get('__post_init__'), False
    return None


def holder_of(prog, cls):
    """the Holder summary of class cls, or None when cls is not (recognisably) a holder of exactly one sequence"""
    if cls is None:
        return None
    if hasattr(cls.node, '_c03_holder'):
        return cls.node._c03_holder
    cls.node._c03_holder = None
    ct = _ctor_of(cls)
    if ct is None or cls.bases or len(cls.mro()) > 1:
        return None
    params, body, by_hand = ct
    tree = cls.module.tree
    level = cls.class_assignments()
    top = list(body.node.body) if body is not None else []

    def in_ctor_top(st):
        return any(st is s for s in top)

    def writes(attr):
        return [(k, n) for k, n in _attr_writes(tree, attr) if not _of_other_class(n, attr, cls)]

    found = []
    for p in params:
        h = Holder(cls, p)
        if by_hand and any(isinstance(x, ast.Name) and x.id == p and isinstance(x.ctx, (ast.Store, ast.Del))
                           for x in ast.walk(body.node)):
            continue

        def seq_of(e, meth, depth=0):
            e = _strip_seq(e)
            if depth > 4 or e is None:
                return False
            a = _self_attr(e)
            if a is not None:
                return a in h.seq_attrs
            if isinstance(e, ast.Name):
                if by_hand and meth is body and e.id == p:
                    return True
                if meth is not None and e.id not in meth.params:
                    v = single_def_value(meth.node, e.id)
                    return v is not None and seq_of(v, meth, depth + 1)
            return False

        def pairing(target, it, holder_node, meth):
            """(position variable or None, member variable) when `for target in it` walks the members of the sequence"""
            if isinstance(target, ast.Name) and seq_of(it, meth):
                return None, target.id
            for ivar, evar, src, node in _enumerates(holder_node):
                if (node is it or same_site(node, it)) and evar and seq_of(src, meth):
                    return ivar, evar
            return None

        def table_expr(v, meth):
            if isinstance(v, ast.DictComp) and len(v.generators) == 1 and not v.generators[0].ifs:
                g = v.generators[0]
                pr = pairing(g.target, g.iter, v, meth)
                return pr is not None and pr[0] is not None and isinstance(v.key, ast.Name) and v.key.id == pr[1] \
                    and isinstance(v.value, ast.Name) and v.value.id == pr[0]
            dz = _dict_of_zip(v)
            if dz is not None and seq_of(dz[0], meth):
                r = dz[1]
                if isinstance(r, ast.Call) and call_name(r) in ('itertools.count', 'count') and not r.args:
                    return True
                return isinstance(r, ast.Call) and call_name(r) == 'range' and len(r.args) == 1 and \
                    isinstance(r.args[0], ast.Call) and call_name(r.args[0]) == 'len' and len(r.args[0].args) == 1 \
                    and seq_of(r.args[0].args[0], meth)
            return False

        def fill_is_table(st, meth):
            """`self.T[m] = i` directly in the body of a top-level constructor loop that pairs i with member m"""
            lp = getattr(st, '_parent', None)
            if not (isinstance(lp, ast.For) and in_ctor_top(lp) and any(st is s for s in lp.body) and not lp.orelse):
                return False
            pr = pairing(lp.target, lp.iter, lp, meth)
            t = st.targets[0]
            return pr is not None and pr[0] is not None and isinstance(t.slice, ast.Name) and t.slice.id == pr[1] \
                and isinstance(st.value, ast.Name) and st.value.id == pr[0] and not early_leaves(lp) \
                and not any(isinstance(x, (ast.Continue, ast.Break, ast.Return)) for x in ast.walk(lp))

        attrs = {n.attr for n in ast.walk(cls.node) if isinstance(n, ast.Attribute) and _self_attr(n)}
        if not by_hand:
            h_ws = writes(p)
            if not h_ws:
                h.seq_attrs.add(p)
        for _ in range(3):
            for a in sorted(attrs - h.seq_attrs - h.tables):
                ws = writes(a)
                plain = [n for k, n in ws if k == 'plain']
                fills = [n for k, n in ws if k == 'fill']
                if any(k == 'other' for k, n in ws) or len(plain) != 1 or not in_ctor_top(plain[0]) \
                        or _self_attr(plain[0].targets[0] if isinstance(plain[0], ast.Assign) else plain[0].target) != a \
                        or (isinstance(plain[0], ast.Assign) and len(plain[0].targets) != 1):
                    continue
                v = plain[0].value
                if not fills and seq_of(v, body):
                    h.seq_attrs.add(a)
                elif not fills and table_expr(v, body):
                    h.tables.add(a)
                elif len(fills) == 1 and isinstance(v, ast.Dict) and not v.keys or \
                        len(fills) == 1 and isinstance(v, ast.Call) and call_name(v) == 'dict' and not v.args and not v.keywords:
                    if fill_is_table(fills[0], body) and plain[0].lineno < fills[0].lineno:
                        h.tables.add(a)

        def pos_expr(e, member, meth, depth=0):
            if depth > 3:
                return False
            if isinstance(e, ast.Subscript) and _self_attr(e.value) in h.tables:
                return isinstance(e.slice, ast.Name) and e.slice.id == member
            if isinstance(e, ast.Call) and isinstance(e.func, ast.Attribute) and e.func.attr == 'index' \
                    and len(e.args) == 1 and not e.keywords:
                return isinstance(e.args[0], ast.Name) and e.args[0].id == member and seq_of(e.func.value, meth)
            if isinstance(e, ast.Name) and e.id not in meth.params:
                v = single_def_value(meth.node, e.id)
                return v is not None and pos_expr(v, member, meth, depth + 1)
            return False

        def pair_of(elt, ivar, evar, meth):
            """which element of the 2-tuple `elt` is the position of member evar (0 / 1), or None"""
            if not (isinstance(elt, ast.Tuple) and len(elt.elts) == 2):
                return None
            for k in (0, 1):
                pe, me = elt.elts[k], elt.elts[1 - k]
                if isinstance(me, ast.Name) and me.id == evar and (
                        (isinstance(pe, ast.Name) and ivar is not None and pe.id == ivar) or pos_expr(pe, evar, meth)):
                    return k
            return None

        for name, meth in _methods_of(cls).items():
            if meth.params[:1] != ['self'] or meth.node.decorator_list:
                continue
            nodes = list(walk_no_nested(meth.node))
            yields = [n for n in nodes if isinstance(n, ast.Yield)]
            yfrom = [n for n in nodes if isinstance(n, ast.YieldFrom)]
            rets = [n for n in nodes if isinstance(n, ast.Return)]
            stored = {x.id for x in nodes if isinstance(x, ast.Name) and isinstance(x.ctx, ast.Store)}
            if name == '__iter__':
                if not yields and not yfrom and len(rets) == 1 and rets[0].value is not None:
                    v = rets[0].value
                    if isinstance(v, ast.Call) and call_name(v) == 'iter' and len(v.args) == 1:
                        v = v.args[0]
                    if seq_of(v, meth) or (isinstance(v, ast.GeneratorExp) and len(v.generators) == 1
                                           and not v.generators[0].ifs and isinstance(v.elt, ast.Name)
                                           and norm(v.elt) == norm(v.generators[0].target)
                                           and seq_of(v.generators[0].iter, meth)):
                        h.iterates = True
                elif not yields and len(yfrom) == 1 and not rets and seq_of(yfrom[0].value, meth) \
                        and len([s for s in meth.node.body if not (isinstance(s, ast.Expr) and isinstance(s.value, ast.Constant))]) == 1:
                    h.iterates = True
                elif len(yields) == 1 and not yfrom and not rets:
                    lp = getattr(getattr(yields[0], '_parent', None), '_parent', None)
                    if isinstance(lp, ast.For) and any(lp is s for s in meth.node.body) and len(lp.body) == 1 \
                            and not lp.orelse and isinstance(lp.target, ast.Name) and seq_of(lp.iter, meth) \
                            and isinstance(yields[0].value, ast.Name) and yields[0].value.id == lp.target.id:
                        h.iterates = True
                continue
            if name.startswith('__'):
                continue
            if yields and not yfrom and not any(r.value is not None for r in rets):
                loops = [s for s in meth.node.body if isinstance(s, ast.For)]
                lp = next((l for l in loops if all(is_within(y, l) for y in yields)), None)
                if lp is None or lp.orelse:
                    continue
                pr = pairing(lp.target, lp.iter, lp, meth)
                if pr is None:
                    continue
                # the member variable is the loop's own: not bound again inside the body
                if sum(1 for x in ast.walk(lp) if isinstance(x, ast.Name) and isinstance(x.ctx, ast.Store) and x.id == pr[1]) != 1:
                    continue
                ks = {pair_of(y.value, pr[0], pr[1], meth) for y in yields}
                if len(ks) == 1 and None not in ks:
                    h.pair_gens[name] = (ks.pop(), lp, meth)
                continue
            if not yields and not yfrom and len(rets) == 1 and rets[0].value is not None:
                v = rets[0].value
                while isinstance(v, ast.Call) and call_name(v) in ('list', 'tuple', 'iter') and len(v.args) == 1 and not v.keywords:
                    v = v.args[0]
                if isinstance(v, (ast.ListComp, ast.GeneratorExp)) and len(v.generators) == 1:
                    g = v.generators[0]
                    pr = pairing(g.target, g.iter, v, meth)
                    k = pair_of(v.elt, pr[0], pr[1], meth) if pr is not None else None
                    if k is not None:
                        h.pair_gens[name] = (k, None, meth)
                    continue
            if len(meth.params) == 2 and not yields and not yfrom and rets and meth.params[1] not in stored \
                    and all(r.value is not None and pos_expr(r.value, meth.params[1], meth) for r in rets):
                h.pos_methods.add(name)
        if h.pos_methods or h.pair_gens or h.iterates:
            found.append(h)
    if len(found) == 1:
        cls.node._c03_holder = found[0]
    return cls.node._c03_holder


def _of_other_class(node, attr, cls_) -> bool:
    """the write `node` (from _attr_writes) goes to `self.<attr>` in a method of a class other than cls_"""
    for x in ast.walk(node):
        if isinstance(x, ast.Attribute) and x.attr == attr and not isinstance(x.ctx, ast.Load) or \
                isinstance(x, ast.Attribute) and x.attr == attr and isinstance(getattr(x, '_parent', None), (ast.Subscript, ast.Attribute)):
            if not _self_attr(x):
                return False
            k = next((a for a in ancestors(x) if isinstance(a, ast.ClassDef)), None)
            return k is not None and k is not cls_.node
    return False


def derived_attr(prog, fi, e):
    """For `O.A` where A is an attribute that the constructor (`__init__` / `__post_init__`) of O's class computes from
    the object's other attributes - stored there once, unconditionally, and nowhere else in the module; the
    attributes it is computed from are not stored anywhere outside that constructor either, so it cannot go stale -
    the stored expression written over O (`self.axis = K(self.species)` read as `nc_file.axis` ->
    `K(nc_file.species)`) and the class; else None."""
    if not isinstance(e, ast.Attribute) or prog is None:
        return None
    owner = expr_class(prog, fi, e.value)
    cands = [owner] if owner is not None else [
        c for c in prog.all_classes() if any(
            isinstance(n, ast.Attribute) and n.attr == e.attr and isinstance(n.ctx, ast.Store) and _self_attr(n)
            for mth in _methods_of(c).values() for n in ast.walk(mth.node))]
    if len(cands) != 1:
        return None
    cls_ = cands[0]
    if owner is None and sum(1 for c in prog.all_classes() if e.attr in c.annotated_fields()) > 1:
        return None
    ws = _attr_writes(cls_.module.tree, e.attr)
    if len(ws) != 1 or ws[0][0] != 'plain':
        return None
    st = ws[0][1]
    ms = _methods_of(cls_)
    ctor = next((ms[n] for n in ('__init__', '__post_init__') if n in ms and any(st is s for s in ms[n].node.body)), None)
    tgt = st.targets[0] if isinstance(st, ast.Assign) and len(st.targets) == 1 else getattr(st, 'target', None)
    if ctor is None or tgt is None or _self_attr(tgt) != e.attr or ctor.params[:1] != ['self']:
        return None
    v = st.value
    if any(isinstance(n, (ast.NamedExpr, ast.Await, ast.Yield, ast.YieldFrom)) for n in ast.walk(v)):
        return None
    mapping = {}
    stored_in_ctor = {x.id for x in ast.walk(ctor.node) if isinstance(x, ast.Name) and isinstance(x.ctx, (ast.Store, ast.Del))}
    comp_bound = {x.id for c in ast.walk(v) if isinstance(c, ast.comprehension) for x in ast.walk(c.target)
                  if isinstance(x, ast.Name)} | {a_.arg for l_ in ast.walk(v) if isinstance(l_, ast.Lambda)
                                                 for a_ in ast.walk(l_.args) if isinstance(a_, ast.arg)}
    if 'self' in comp_bound:
        return None
    reads = set()
    for n in ast.walk(v):
        if isinstance(n, ast.Name) and n.id == 'self':
            par = getattr(n, '_parent', None)
            if not (isinstance(par, ast.Attribute) and par.value is n):
                return None
            reads.add(par.attr)
            mapping[id(n)] = e.value
        elif isinstance(n, ast.Name) and n.id in comp_bound:
            continue
        elif isinstance(n, ast.Name) and n.id in ctor.params:
            # a constructor parameter that the constructor also keeps as it is: `self.Q = p`
            keep = [s for s in ctor.node.body if isinstance(s, ast.Assign) and len(s.targets) == 1
                    and _self_attr(s.targets[0]) and isinstance(s.value, ast.Name) and s.value.id == n.id]
            if n.id in stored_in_ctor or len(keep) != 1:
                return None
            q = _self_attr(keep[0].targets[0])
            reads.add(q)
            mapping[id(n)] = ast.copy_location(ast.Attribute(value=e.value, attr=q, ctx=ast.Load()), n)
        elif isinstance(n, ast.Name) and n.id in stored_in_ctor:
            return None
    for q in reads:
        for kind, node in _attr_writes(cls_.module.tree, q):
            if not is_within(node, ctor.node) and not _of_other_class(node, q, cls_):
                return None
    return _rebuild(v, mapping), cls_


def seq_behind(prog, fi, e, depth=0):
    """The sequence behind an expression that denotes a sequence holder (Holder), as an expression: `K(S)` -> S;
    `O.A` with A computed at construction as K(self.Q) -> `O.Q`; a local bound once to such.  e itself (stripped of
    list() / `or []`) when it is not a holder construction."""
    if prog is None or depth > 4:
        return e
    x = _strip_seq(e)
    mod = fi.module
    if isinstance(x, ast.Name) and x.id not in fi.params:
        v = single_def_value(fi.node, x.id)
        if isinstance(v, (ast.Call, ast.Attribute)):
            r = seq_behind(prog, fi, v, depth + 1)
            return r if r is not v else e
        return e
    if isinstance(x, ast.Attribute):
        d = derived_attr(prog, fi, x)
        if d is None:
            return e
        x, mod = d[0], d[1].module
    if isinstance(x, ast.Call) and not any(isinstance(a_, ast.Starred) for a_ in x.args) \
            and not any(k.arg is None for k in x.keywords):
        cls_ = prog.resolve_class_expr(mod, x.func) or prog.resolve_class_expr(fi.module, x.func)
        h = holder_of(prog, cls_)
        if h is not None:
            params = _ctor_of(cls_)[0]
            a_ = kwarg(x, h.param)
            i = params.index(h.param)
            if a_ is None and i < len(x.args):
                a_ = x.args[i]
            if a_ is not None:
                return seq_behind(prog, fi, a_, depth + 1)
    return e


def holder_use(prog, fi, n):
    """(holder summary, receiver expression) when n is a call `X.m(…)` on an expression X whose class is a Holder"""
    if prog is None or fi is None or not (isinstance(n, ast.Call) and isinstance(n.func, ast.Attribute)):
        return None
    try:
        h = holder_of(prog, expr_class(prog, fi, n.func.value))
    except RecursionError:
        return None
    return (h, n.func.value) if h is not None else None


# ---------------------------------------------------------------- R1 -----
def classify_axis_source(prog, fi, e: ast.expr, depth=0) -> str:
    """'enum:<Name>' | 'file' | 'other:<text>'"""
    if depth > 5:
        return 'other:' + norm(e)
    if isinstance(e, (ast.Attribute, ast.Call)) or (isinstance(e, ast.Name) and e.id not in fi.params):
        sb = seq_behind(prog, fi, e)
        if sb is not e:
            return classify_axis_source(prog, fi, sb, depth + 1)
    if isinstance(e, ast.BoolOp) and isinstance(e.op, ast.Or):
        # nc_file.species or []
        return classify_axis_source(prog, fi, e.values[0], depth + 1)
    if isinstance(e, ast.IfExp):
        a = classify_axis_source(prog, fi, e.body, depth + 1)
        b = classify_axis_source(prog, fi, e.orelse, depth + 1)
        if a == b:
            return a
        # `values if values is not None else enum_type`
        t = norm(e.test)
        if t.endswith('is not None') and norm(e.body) in t:
            return f'opt({a}|{b})'
        return f'other:{norm(e)}'
    if isinstance(e, ast.Attribute) and e.attr == 'species':
        return 'file'
    if isinstance(e, ast.Attribute):
        pm = property_of(prog, fi, e)
        if pm is not None:
            cls_ = {classify_axis_source(prog, pm, r.value, depth + 1) for r in walk_no_nested(pm.node)
                    if isinstance(r, ast.Return) and r.value is not None}
            if len(cls_) == 1:
                return cls_.pop()
    if isinstance(e, ast.Name):
        r = prog.resolve_name(fi.module, e.id)
        if isinstance(r, ClassInfo) and any('Enum' in b for c in r.mro() for b in c.base_exprs):
            return f'enum:{r.name}'
        if e.id in fi.params:
            # the parameter that is recorded as the file's species list
            for c in calls_in(fi.node):
                rc = resolve_class_call(prog, fi, c)
                if rc is not None and rc.name == 'NcFiles':
                    v = kwarg(c, 'species')
                    if v is not None and norm(v) == e.id:
                        return 'file'
            cs = callers_of(prog, fi) + _table_callers(prog, fi)
            if not cs:
                return f'unknown:{e.id} (no call of {fi.name} found)'
            idx = fi.params.index(e.id)
            off = 1 if fi.params[:1] in (['self'], ['cls']) else 0
            classes = set()
            for caller, call in cs:
                arg = None
                if len(call.args) > idx - off and idx - off >= 0:
                    arg = call.args[idx - off]
                if kwarg(call, e.id) is not None:
                    arg = kwarg(call, e.id)
                if arg is None:
                    d = _default_of(fi, e.id)
                    classes.add('default:' + (norm(d) if d is not None else '?'))
                else:
                    classes.add(classify_axis_source(prog, caller, arg, depth + 1))
            if len(classes) == 1:
                return classes.pop()
            if classes:
                return 'mixed:' + '|'.join(sorted(classes))
        d = single_def_value(fi.node, e.id)
        if d is not None:
            return classify_axis_source(prog, fi, d, depth + 1)
    if isinstance(e, ast.Call) and call_name(e) in ('list', 'tuple') and e.args:
        return classify_axis_source(prog, fi, e.args[0], depth + 1)
    return 'other:' + norm(e)


def _table_callers(prog, fi):
    """calls `table[key](…)` where `table` is a dict display (held in a single-definition local) one of whose
    values names method fi: [(calling function, call)]"""
    out = []
    if fi.cls is None:
        return out
    for f in fi.module.functions.values():
        if f.cls is not fi.cls:
            continue
        for c in calls_in(f.node):
            if not isinstance(c.func, ast.Subscript):
                continue
            tbl = c.func.value
            if isinstance(tbl, ast.Name):
                tbl = single_def_value(f.node, tbl.id)
            if isinstance(tbl, ast.Dict) and any(
                    isinstance(v, ast.Attribute) and v.attr == fi.name and norm(v.value) in ('self', 'cls')
                    for v in tbl.values):
                out.append((f, c))
    return out


def _default_of(fi, name):
    a = fi.node.args
    pos = a.posonlyargs + a.args
    for arg, d in zip(pos[len(pos) - len(a.defaults):], a.defaults):
        if arg.arg == name:
            return d
    for arg, d in zip(a.kwonlyargs, a.kw_defaults):
        if arg.arg == name:
            return d
    return None


def _enumerates(fn_node, prog=None, fi=None):
    """(index variable / expression text, element variable, source expr, node) for every place where a position along a
    sequence S is paired with its member: `for i, x in enumerate(S)`, `for i in range(len(S))` (member `S[i]`),
    `for i, x in zip(range(len(S)), S)`, `S.index(x)` - in loops and comprehensions.  With a program: also what an
    object that wraps the sequence (Holder) hands out - `for i, x in X.pairs(…)` over a method that produces
    (position, member) pairs, `X.position(x)` - with X itself as the source (classify_axis_source reads the sequence
    X was constructed over)."""
    out = []
    for n in ast.walk(fn_node):
        tgt = it = None
        if isinstance(n, ast.For):
            tgt, it = n.target, n.iter
        elif isinstance(n, ast.comprehension):
            tgt, it = n.target, n.iter
        hu = holder_use(prog, fi, it) if it is not None else None
        if hu is not None and it.func.attr in hu[0].pair_gens and isinstance(tgt, ast.Tuple) and len(tgt.elts) == 2 \
                and all(isinstance(x, ast.Name) for x in tgt.elts):
            k, gen_loop, meth = hu[0].pair_gens[it.func.attr]
            fake = ast.copy_location(ast.Call(func=ast.Name(id='enumerate', ctx=ast.Load()), args=[it], keywords=[]), it)
            fake._c03_gen = (meth, gen_loop)
            out.append((tgt.elts[k].id, tgt.elts[1 - k].id, hu[1], fake))
            continue
        hu = holder_use(prog, fi, n) if isinstance(n, ast.Call) else None
        if hu is not None and n.func.attr in hu[0].pos_methods and len(n.args) == 1 and not n.keywords \
                and isinstance(n.args[0], ast.Name):
            fake = ast.copy_location(ast.Call(func=ast.Name(id='enumerate', ctx=ast.Load()), args=[hu[1]], keywords=[]), n)
            par = getattr(n, '_parent', None)
            ivar = norm(n)
            if isinstance(par, ast.Assign) and len(par.targets) == 1 and isinstance(par.targets[0], ast.Name):
                ivar = par.targets[0].id
            out.append((ivar, n.args[0].id, hu[1], fake))
            continue
        if it is not None and isinstance(it, ast.Call) and call_name(it) == 'enumerate' and it.args \
                and isinstance(tgt, ast.Tuple) and len(tgt.elts) == 2 \
                and all(isinstance(x, ast.Name) for x in tgt.elts):
            out.append((tgt.elts[0].id, tgt.elts[1].id, it.args[0], it))
        elif it is not None and isinstance(it, ast.Call) and call_name(it) == 'range' and len(it.args) == 1 \
                and isinstance(it.args[0], ast.Call) and call_name(it.args[0]) == 'len' and it.args[0].args \
                and isinstance(tgt, ast.Name):
            fake = ast.copy_location(ast.Call(func=ast.Name(id='enumerate', ctx=ast.Load()),
                                              args=[it.args[0].args[0]], keywords=[]), it)
            out.append((tgt.id, '', it.args[0].args[0], fake))
        elif it is not None and isinstance(it, ast.Call) and call_name(it) == 'zip' and len(it.args) == 2 \
                and isinstance(it.args[0], ast.Call) and call_name(it.args[0]) in ('range', 'itertools.count', 'count') \
                and isinstance(tgt, ast.Tuple) and len(tgt.elts) == 2 and all(isinstance(x, ast.Name) for x in tgt.elts):
            fake = ast.copy_location(ast.Call(func=ast.Name(id='enumerate', ctx=ast.Load()), args=[it.args[1]], keywords=[]), it)
            out.append((tgt.elts[0].id, tgt.elts[1].id, it.args[1], fake))
        if isinstance(n, ast.Call) and isinstance(n.func, ast.Attribute) and n.func.attr == 'index' and len(n.args) == 1 \
                and isinstance(n.args[0], ast.Name):
            fake = ast.copy_location(ast.Call(func=ast.Name(id='enumerate', ctx=ast.Load()), args=[n.func.value], keywords=[]), n)
            par = getattr(n, '_parent', None)
            ivar = norm(n)
            if isinstance(par, (ast.Assign, ast.AnnAssign)) and isinstance(getattr(par, 'targets', [getattr(par, 'target', None)])[0], ast.Name):
                ivar = getattr(par, 'targets', [getattr(par, 'target', None)])[0].id
            out.append((ivar, n.args[0].id, n.func.value, fake))
    return out


def _canon_test(t, tests=None):
    """(('set', text of what is tested), polarity); `tests` collects text -> the tested expression"""
    pol = True
    while isinstance(t, ast.UnaryOp) and isinstance(t.op, ast.Not):
        t, pol = t.operand, not pol
    if isinstance(t, ast.Compare) and len(t.ops) == 1 and isinstance(t.comparators[0], ast.Constant) \
            and t.comparators[0].value is None and isinstance(t.ops[0], (ast.Is, ast.IsNot, ast.Eq, ast.NotEq)):
        if tests is not None:
            tests[norm(t.left)] = t.left
        return ('set', norm(t.left)), pol == isinstance(t.ops[0], (ast.IsNot, ast.NotEq))
    if tests is not None:
        tests[norm(t)] = t
    return ('set', norm(t)), pol


def canon_seq(e, leaves, count_only=False, tests=None):
    """canonical form of a sequence-valued expression: list()/tuple() peeled (and, when only the number of members
    matters, sorted()/reversed()); `a if c else b`, `a or b` as ('if', test, a, b) with the test in positive form"""
    while isinstance(e, ast.Call) and len(e.args) >= 1 and \
            call_name(e) in (('list', 'tuple', 'sorted', 'reversed') if count_only else ('list', 'tuple')) \
            and (count_only or not e.keywords):
        e = e.args[0]
    if isinstance(e, ast.IfExp):
        k, pol = _canon_test(e.test, tests)
        x, y = canon_seq(e.body, leaves, count_only, tests), canon_seq(e.orelse, leaves, count_only, tests)
        return ('if', k, x, y) if pol else ('if', k, y, x)
    if isinstance(e, ast.BoolOp) and isinstance(e.op, ast.Or) and len(e.values) == 2:
        if tests is not None:
            tests[norm(e.values[0])] = e.values[0]
        return ('if', ('set', norm(e.values[0])), canon_seq(e.values[0], leaves, count_only, tests),
                canon_seq(e.values[1], leaves, count_only, tests))
    leaves[norm(e)] = e
    return ('seq', norm(e))


def canon_len(e, leaves):
    if isinstance(e, ast.Call) and call_name(e) == 'len' and len(e.args) == 1:
        return canon_seq(e.args[0], leaves, count_only=True)
    if isinstance(e, ast.IfExp):
        k, pol = _canon_test(e.test)
        x, y = canon_len(e.body, leaves), canon_len(e.orelse, leaves)
        return ('if', k, x, y) if pol else ('if', k, y, x)
    return ('num', norm(e))


def value_presence(prog, fi, e, at, depth=0, seen=None) -> str:
    """Whether expression e, evaluated at statement `at` of function fi, is a value or None: 'set' | 'unset' |
    'either' | 'unknown:<why>'.  Locals are replaced by the definitions that reach the use (Flow); a conditional
    expression counts for both arms, `a or b` for b; a parameter is what every call of the function hands over
    (through callers' parameters in turn; an omitted argument is the default); a name of the module that is a class
    or a function, a constant other than None, a display, a comprehension and the result of a constructor are set.
    Only the constant None is unset: an attribute or the result of another call is taken as a value, as it is where
    an argument is compared with a literal None."""
    seen = seen if seen is not None else set()
    if depth > 6:
        return 'unknown:nesting too deep'
    got = set()
    fl = Flow(prog, fi)
    for v in fl.alts(e, at):
        got.add(_presence_of(prog, fi, v, depth, seen))
    if fl.overflow:
        return 'unknown:too many definitions reach the test'
    unk = sorted(g for g in got if g.startswith('unknown:'))
    if unk:
        return unk[0]
    if not got:
        return 'unknown:no definition reaches the test'
    return got.pop() if len(got) == 1 else 'either'


def _presence_of(prog, fi, v, depth, seen) -> str:
    def join(parts):
        parts = set(parts)
        unk = sorted(g for g in parts if g.startswith('unknown:'))
        return unk[0] if unk else (parts.pop() if len(parts) == 1 else 'either')
    if isinstance(v, ast.Constant):
        return 'unset' if v.value is None else 'set'
    if isinstance(v, ast.IfExp):
        return join([_presence_of(prog, fi, v.body, depth, seen), _presence_of(prog, fi, v.orelse, depth, seen)])
    if isinstance(v, ast.BoolOp) and isinstance(v.op, ast.Or):
        last = _presence_of(prog, fi, v.values[-1], depth, seen)
        return 'set' if last == 'set' else join([last] + [_presence_of(prog, fi, x, depth, seen) for x in v.values[:-1]])
    if isinstance(v, ast.NamedExpr):
        return _presence_of(prog, fi, v.value, depth, seen)
    if isinstance(v, (ast.Compare, ast.UnaryOp, ast.BinOp)) or (isinstance(v, ast.BoolOp) and isinstance(v.op, ast.And)):
        return f'unknown:`{norm(v)[:40]}` is a computation, not a value handed over'
    if isinstance(v, ast.Name) and '@' not in v.id:
        if v.id in fi.params:
            if v.id in ('self', 'cls'):
                return 'set'
            if (fi.qualname, v.id) in seen:
                return 'set'        # a cycle of calls hands on what the other calls hand in
            seen.add((fi.qualname, v.id))
            cs = callers_of(prog, fi) + _table_callers(prog, fi)
            if not cs:
                return f'unknown:no call of {fi.name} found'
            parts = []
            for caller, call in cs:
                if any(isinstance(a, ast.Starred) for a in call.args) or any(k.arg is None for k in call.keywords):
                    return f'unknown:{fi.name} is called with unpacked arguments'
                arg = _arg_for_param(fi, call, v.id)
                if arg is None:
                    d = _default_of(fi, v.id)
                    if d is None:
                        return f'unknown:a call of {fi.name} does not say what `{v.id}` is'
                    parts.append(_presence_of(prog, fi, d, depth + 1, seen))
                else:
                    parts.append(value_presence(prog, caller, arg, stmt_of(call), depth + 1, seen))
            return join(parts)
        if '<locals>' in fi.qualname and v.id not in {x.id for x in ast.walk(fi.node)
                                                       if isinstance(x, ast.Name) and isinstance(x.ctx, ast.Store)}:
            r = prog.resolve_name(fi.module, v.id)
            if r is None:
                return f'unknown:`{v.id}` belongs to the enclosing function'
        return 'set'
    return 'set'


class DefaultsFlow(Flow):
    """Flow in which a local that is given a default under a test of itself before the use - `if x is None: x = D`
    (also `if not x:`, `if x == None:`; nothing else in the `if` binds x, no else branch, the branch falls through) -
    is written as the conditional expression `D if x0 is None else x0`, x0 being what x was on reaching the test, so
    that the guard-clause spelling is decided like `x if x is not None else D` instead of giving two alternatives."""

    def alts(self, e, at, depth=0):
        if e is None or depth > 7:
            return super().alts(e, at, depth)
        m, folded = {}, {}
        bound = self._bound_inside(e)
        for x in ast.walk(e):
            if not (isinstance(x, ast.Name) and isinstance(x.ctx, ast.Load)) or '@' in x.id or x.id in bound \
                    or self._comp_binding(x) is not None:
                continue
            ds = self.reaching(x.id, at)
            if len(ds) != 2:
                continue
            for dg, db in (ds, ds[::-1]):
                if dg[0] != 'val' or db[0] not in ('val', 'param'):
                    continue
                gi = parent(dg[1])
                if not isinstance(gi, ast.If) or gi.orelse or not any(y is dg[1] for y in gi.body) \
                        or len(self._all_defs([gi], x.id)) != 1 or _ends(gi.body):
                    continue
                t = gi.test
                while isinstance(t, ast.UnaryOp) and isinstance(t.op, ast.Not):
                    t = t.operand
                if isinstance(t, ast.Compare) and len(t.ops) == 1 and isinstance(t.comparators[0], ast.Constant) and \
                        t.comparators[0].value is None and isinstance(t.ops[0], (ast.Is, ast.IsNot, ast.Eq, ast.NotEq)):
                    t = t.left
                if not (isinstance(t, ast.Name) and t.id == x.id):
                    continue
                at_gi = self.reaching(x.id, gi)
                if len(at_gi) != 1 or at_gi[0][0] != db[0] or at_gi[0][1] is not db[1]:
                    continue
                tv, dv = self.alts(gi.test, gi, depth + 1), self.alts(dg[2], dg[1], depth + 1)
                bv = self.alts(db[2], db[1], depth + 1) if db[0] == 'val' else [ast.Name(id=x.id, ctx=ast.Load())]
                if len(tv) == len(dv) == len(bv) == 1:
                    # held under a tagged name while the other locals are resolved, so that what was resolved where
                    # the test stands is not resolved again where the use stands
                    key = f'{x.id}@{gi.lineno}.{len(folded)}'
                    folded[key] = ast.copy_location(ast.IfExp(test=tv[0], body=dv[0], orelse=bv[0]), x)
                    m[id(x)] = ast.copy_location(ast.Name(id=key, ctx=ast.Load()), x)
                break
        if not m:
            return super().alts(e, at, depth)
        out = []
        for v in super().alts(_rebuild(e, m), at, depth):
            out.append(_rebuild(v, {id(y): folded[y.id] for y in ast.walk(v) if isinstance(y, ast.Name) and y.id in folded}))
        return out


def dimension_layouts(ctx, prog, m, cd):
    """{axis name: (class of the sequence that lays the axis out, node)} for every fixed-size dimension created by
    `_create_dimensions` - directly or through a nested helper that is instantiated at each of its call sites.
    For each creating function: the size handed to createDimension and the sequence whose members label the
    coordinate variable (written through the handle returned by createVariable or through `.variables[name]`) are
    the same sequence (count-wise: list()/sorted() do not change a count)."""
    out = {}
    fns = [cd] + [f for q, f in m.functions.items() if q.startswith(cd.qualname + '.<locals>.')]
    # a module-level helper (of any module) that _create_dimensions calls and that creates a dimension stands where
    # the nested helper stood: instantiated at each call
    for cc in calls_in(cd.node):
        g = resolve_call(prog, cd, cc)
        if g is not None and g.cls is None and not any(g == x for x in fns) and any(
                isinstance(x.func, ast.Attribute) and x.func.attr == 'createDimension' for x in calls_in(g.node)):
            fns.append(g)
    for f in fns:
        fl = DefaultsFlow(prog, f)
        for c in calls_in(f.node):
            if not (isinstance(c.func, ast.Attribute) and c.func.attr == 'createDimension' and len(c.args) >= 1):
                continue
            size = c.args[1] if len(c.args) > 1 else kwarg(c, 'size')
            if size is None or (isinstance(size, ast.Constant) and size.value is None):
                continue        # unlimited (record) dimension: no labels
            nm = c.args[0]
            st = stmt_of(c)
            handles = set()
            for t, stx, how in stores_to(f.node):
                if isinstance(t, ast.Name) and isinstance(getattr(stx, 'value', None), ast.Call) and \
                        isinstance(stx.value.func, ast.Attribute) and stx.value.func.attr == 'createVariable' \
                        and stx.value.args and norm(stx.value.args[0]) == norm(nm):
                    handles.add(t.id)
                v_ = getattr(stx, 'value', None)
                if isinstance(t, ast.Name) and isinstance(v_, ast.Subscript) and isinstance(v_.value, ast.Attribute) \
                        and v_.value.attr == 'variables' and norm(v_.slice) == norm(nm):
                    handles.add(t.id)
            labels = []
            for t, stx, how in stores_to(f.node):
                if not (isinstance(t, ast.Subscript) and how == 'assign'):
                    continue
                base = t.value
                own = (isinstance(base, ast.Name) and base.id in handles) or (
                    isinstance(base, ast.Subscript) and isinstance(base.value, ast.Attribute) and
                    base.value.attr == 'variables' and norm(base.slice) == norm(nm))
                if not own:
                    continue
                src = None
                if isinstance(t.slice, ast.Name):
                    for owner, tgt, it in enclosing_iterations(stx):
                        if isinstance(it, ast.Call) and call_name(it) == 'enumerate' and it.args and \
                                isinstance(tgt, ast.Tuple) and len(tgt.elts) == 2 and \
                                isinstance(tgt.elts[0], ast.Name) and tgt.elts[0].id == t.slice.id:
                            src = (it.args[0], owner if isinstance(owner, ast.stmt) else stmt_of(owner))
                            break
                        if isinstance(it, ast.Call) and call_name(it) == 'zip' and len(it.args) == 2 and \
                                isinstance(it.args[0], ast.Call) and call_name(it.args[0]) in ('range', 'count', 'itertools.count') \
                                and isinstance(tgt, ast.Tuple) and len(tgt.elts) == 2 and \
                                isinstance(tgt.elts[0], ast.Name) and tgt.elts[0].id == t.slice.id:
                            src = (it.args[1], owner if isinstance(owner, ast.stmt) else stmt_of(owner))
                            break
                        if isinstance(it, ast.Call) and call_name(it) == 'range' and len(it.args) == 1 and \
                                isinstance(it.args[0], ast.Call) and call_name(it.args[0]) == 'len' and \
                                len(it.args[0].args) == 1 and isinstance(tgt, ast.Name) and tgt.id == t.slice.id:
                            # the label stored must be a member of that very sequence: `S[i]`, also through a local
                            own_at = owner if isinstance(owner, ast.stmt) else stmt_of(owner)
                            seqs = {untag(norm(a)) for a in fl.alts(it.args[0].args[0], own_at)}
                            bases = {untag(norm(y.value)): y.value for a in fl.alts(stx.value, stx) for y in ast.walk(a)
                                     if isinstance(y, ast.Subscript) and untag(norm(y.slice)) == tgt.id}
                            if bases and set(bases) <= seqs:
                                src = (it.args[0].args[0], own_at)
                            elif len(bases) == 1 and not set(bases) & seqs:
                                src = (next(iter(bases.values())), own_at)      # counted along S, labelled from another
                            break
                elif isinstance(t.slice, (ast.Slice, ast.Constant)) and (isinstance(t.slice, ast.Slice) or t.slice.value is Ellipsis):
                    v = stx.value
                    for _ in range(3):
                        while isinstance(v, ast.Call) and v.args and call_name(v) in ('np.array', 'np.asarray', 'numpy.array', 'list'):
                            v = v.args[0]
                        if isinstance(v, ast.Name) and single_def_value(f.node, v.id) is not None:
                            v = single_def_value(f.node, v.id)
                    if isinstance(v, (ast.ListComp, ast.GeneratorExp)) and len(v.generators) == 1 and not v.generators[0].ifs:
                        src = (v.generators[0].iter, stx)
                if src is None:
                    ctx.undecided('C03-R1', f, norm(stx)[:60], 'cannot tell from which sequence the coordinate labels are taken')
                labels.append(src)
            if not labels:
                ctx.undecided('C03-R1', f, norm(c)[:60], 'no coordinate labels are written for this dimension')
            leaves = {}
            sz = fl.alts(size, st)
            lb = [x for e_, at in labels for x in fl.alts(e_, at)]
            if len(sz) != 1 or len(lb) != 1 or fl.overflow:
                ctx.undecided('C03-R1', f, norm(c)[:60], 'size or labels of the dimension have several possible sources')
            c_size = canon_len(sz[0], leaves)
            c_count = canon_seq(lb[0], leaves, count_only=True)
            tests = {}
            c_order = canon_seq(lb[0], leaves, tests=tests)
            ok = c_size == c_count
            ctx.ob('C03-R1', f, 'dimension length and coordinate labels come from one iterable', ok,
                   f'size and labels from {untag(norm(lb[0]))[:70]}' if ok else
                   f'dimension size and coordinate labels are taken from different iterables: size {untag(norm(sz[0]))[:60]}, '
                   f'labels {untag(norm(lb[0]))[:60]}', line=c.lineno, nontrivial=False)
            # instantiate: directly (constant name) or per call site of the nested helper
            sites = []
            if f is cd:
                sites.append(({}, c))
            else:
                for cc in calls_in(cd.node):
                    if resolve_call(prog, cd, cc) == f:
                        b = {p_: _arg_for_param(f, cc, p_) for p_ in f.params}
                        sites.append(({k: (v if v is not None else _default_of(f, k)) for k, v in b.items()}, cc))

            def inst(t, binds, cc):
                """the sequence the choice `t` comes to at this site, or a text saying why that cannot be told: a
                test of a parameter of the helper is decided by the argument of the call, any other test by what the
                tested value is where the dimension is created (value_presence: a parameter of _create_dimensions by
                what its callers hand over)"""
                if t[0] == 'if':
                    kind, ptxt = t[1]
                    if ptxt in binds:
                        a_ = binds[ptxt]
                        how = 'unset' if a_ is None else value_presence(prog, cd, a_, stmt_of(cc))
                    elif ptxt in tests:
                        how = value_presence(prog, f, tests[ptxt], st)
                    else:
                        how = 'unknown:test not understood'
                    if how == 'set':
                        return inst(t[2], binds, cc)
                    if how == 'unset':
                        return inst(t[3], binds, cc)
                    return f'`{ptxt}` is {"a value at some calls and None at others" if how == "either" else "not traced: " + how[8:]}'
                return t

            for binds, cc in sites:
                n_ = binds.get(nm.id) if isinstance(nm, ast.Name) and nm.id in binds else nm
                if not (isinstance(n_, ast.Constant) and isinstance(n_.value, str)):
                    ctx.undecided('C03-R1', cd, norm(cc)[:60], 'name of the dimension created is not a constant')
                leaf = inst(c_order, binds, cc)
                if isinstance(leaf, str):
                    ctx.undecided('C03-R1', cd, norm(cc)[:60], 'cannot tell which sequence lays out the dimension at this call: ' + leaf)
                e_ = leaves[leaf[1]]
                if isinstance(e_, ast.Name) and e_.id in binds and binds[e_.id] is not None:
                    out[n_.value] = (classify_axis_source(prog, cd, binds[e_.id]), cc, binds[e_.id], cd)
                else:
                    out[n_.value] = (classify_axis_source(prog, f, e_), cc, e_, f)
    return out


def scopes_of(fi, arms, prog=None):
    """the function itself, the methods its dispatch table hands over to (bodies that are not inside fi) and - with a
    program - the resolved helpers (methods, module-level functions of any module) that it hands its NetCDF variable
    to, in turn: what such a helper does with the variable is part of what the writer / reader does.  The helper's
    parameters that receive the variable / the record index are noted on its node (variable_params), and the call
    statement it is reached through (_axes_at)."""
    out = [fi]
    if arms and fi.qualname in arms:
        for a in arms[fi.qualname][2].values():
            for h in a.hosts.values():
                if h is not None and not any(h == o for o in out) and not h.qualname.startswith(fi.qualname + '.<locals>.'):
                    out.append(h)
    if prog is None:
        return out
    i = 0
    while i < len(out) and len(out) < 12:
        f = out[i]
        i += 1
        vn, inn = variable_params(f)
        for c in calls_in(f.node):
            if not any(isinstance(a_, ast.Name) and a_.id in vn for a_ in list(c.args) + [k.value for k in c.keywords]):
                continue
            callee = resolve_call(prog, f, c)
            if callee is None or callee.qualname.startswith(f.qualname + '.<locals>.') or callee.node is f.node:
                continue
            roles = getattr(callee.node, '_c03_roles', None) or (set(), set())
            for p_ in callee.params:
                a_ = _arg_for_param(callee, c, p_)
                if isinstance(a_, ast.Name) and a_.id in vn:
                    roles[0].add(p_)
                elif isinstance(a_, ast.Name) and a_.id in inn:
                    roles[1].add(p_)
            callee.node._c03_roles = roles
            via = getattr(callee.node, '_c03_via', None) or []
            if not any(x is stmt_of(c) for x in via):
                via.append(stmt_of(c))
            callee.node._c03_via = via
            if not any(callee == o for o in out):
                out.append(callee)
    return out


def rule_axis(ctx, m, arms=None):
    prog = ctx.prog
    wr = m.func('TrajectoryStore._write_to_nc_var')
    rd = m.func('TrajectoryStore._read_from_nc_var')
    cd = m.func('_create_dimensions')
    dim_src = dimension_layouts(ctx, prog, m, cd)
    ctx._c03_layouts = dim_src
    ctx.floor('C03-R1', len(dim_src), 2, 'enum dimensions created')

    def axis_of(src_class):
        if src_class == 'file' or src_class == 'enum:Species':
            return 'species'
        if src_class == 'enum:ThrustMode':
            return 'thrust_mode'
        return None

    sites = {'species': [], 'thrust_mode': []}
    top_of = {f_.qualname: top for top in (wr, rd) for f_ in scopes_of(top, arms, prog)}
    for role, fi in [(r_, f_) for r_, top in (('writer', wr), ('reader', rd)) for f_ in scopes_of(top, arms, prog)]:
        for ivar, evar, src, node in _enumerates(fi.node, prog, fi):
            cl = classify_axis_source(prog, fi, src)
            ax = axis_of(cl)
            if ax is None:
                # a source of another kind (sorted(...), a slice, ...): which axis it is about is read from what it
                # mentions - the species list / Species enum or the ThrustMode enum - and only then from the
                # spelling of the element variable
                idents = {x.id for x in ast.walk(src) if isinstance(x, ast.Name)} | \
                    {x.attr for x in ast.walk(src) if isinstance(x, ast.Attribute)}
                if idents & {'species', 'Species'} and 'ThrustMode' not in idents:
                    ax = 'species'
                elif 'ThrustMode' in idents and not idents & {'species', 'Species'}:
                    ax = 'thrust_mode'
                else:
                    ax = 'species' if evar.startswith('sp') else ('thrust_mode' if evar.startswith('t') else None)
            if ax is None or cl.startswith('unknown:'):
                ctx.undecided('C03-R1', fi, norm(node), f'cannot tell which axis {norm(src)} enumerates' if ax is None else
                              f'cannot trace where {norm(src)} comes from: {cl[8:]}')
            sites[ax].append((role, fi, cl, node, ivar))
        # whole-row transfers: `var[index, :] = V` lays V out along the axis in V's own order; `zip(S, var[index])`
        # labels what was read with the members of S
        for ax, src, node in _row_transfers(ctx, prog, fi, top_of[fi.qualname], arms):
            cl = classify_axis_source(prog, fi, src)
            sites[ax].append((role, fi, cl, node, ':'))
    ctx.floor('C03-R1/species', len(sites['species']), 4, 'species-axis enumerations in writer+reader')
    ctx.floor('C03-R1b/thrust', len(sites['thrust_mode']), 4, 'thrust-mode enumerations in writer+reader')
    for ax, rule in (('species', 'C03-R1'), ('thrust_mode', 'C03-R1b')):
        ref, refcall = dim_src.get(ax, (None, None))[:2]
        if ref is None:
            ctx.undecided(rule, cd, ax, 'dimension creation site not found')
        ctx.ob(rule, cd, f'{ax} axis created from [{ref}]', True, 'reference for writer and reader',
               line=refcall.lineno, nontrivial=False)
        for role, fi, cl, node, ivar in sites[ax]:
            ok = cl == ref
            ctx.ob(rule, fi, f'{role} positions {ax} by enumerate({norm(node.args[0])}) [{cl}]', ok,
                   f'same source as the dimension ({ref})' if ok else
                   (f'the {ax} axis of the file is laid out by [{ref}] but the {role} takes the position '
                    f'from [{cl}]: values land in / come from the wrong slot unless the two orders coincide'),
                   line=node.lineno)

    # R1e every member of the axis gets its turn
    n_loops = 0
    seen_loops = set()
    for ax in ('species', 'thrust_mode'):
        loops = []
        for role, fi, cl, node, ivar in sites[ax]:
            loops.append((role, fi, _axis_loop(fi.node, node)))
            if getattr(node, '_c03_gen', None) is not None and node._c03_gen[1] is not None:
                # the pairs come from a generator of the object that wraps the axis: its loop is the loop over the axis
                loops.append((role, node._c03_gen[0], node._c03_gen[1]))
        for role, fi, lp in loops:
            if lp is None or id(lp) in seen_loops:
                continue
            seen_loops.add(id(lp))
            n_loops += 1
            early = early_leaves(lp)
            what = 'written' if role == 'writer' else 'read back'
            if early:
                x, conds = early[0]
                at_line = int(-(-x.lineno // 1))
                how = 'return' if isinstance(x, ast.Return) else 'break'
                under = ' and '.join(f'`{norm(t) if pol else "not (" + norm(t) + ")"}`' for t, pol in conds[:2])
                why = (f'the {role} leaves the loop over the {ax.replace("_", "-")} axis by `{how}` at line {at_line}'
                       + (f' when {under}' if under else ' at the end of the first pass') +
                       f': that ends the loop, it does not go on to the next member (`continue`), so every member after '
                       f'it is never {what} - values the field holds for them are lost')
            ctx.ob('C03-R1e', fi, f'{role} loop over the {ax} axis handles every member', not early,
                   'no `break` / `return` inside the loop: a pass can only go on to the next member or raise' if not early
                   else why, line=(early[0][0].lineno if early else lp.lineno))
    ctx.floor('C03-R1e', n_loops, 2, 'loops over an axis in writer+reader')

    # R1c subscript order
    for role, fi in[(r_, f_) for r_, top in (('writer', wr), ('reader', rd)) for f_ in scopes_of(top, arms, prog)]:
        sp_vars = {iv for r, f, cl, n, iv in sites['species'] if f is fi} - {':'}
        tm_vars = {iv for r, f, cl, n, iv in sites['thrust_mode'] if f is fi} - {':'}
        vnames, inames = variable_params(fi)
        # a local that holds one record (or row) of the variable: its subscripts go on where that one stopped
        views = {}
        for nm in {x.id for x in ast.walk(fi.node) if isinstance(x, ast.Name) and isinstance(x.ctx, ast.Store)}:
            v = single_def_value(fi.node, nm)
            if isinstance(v, ast.Subscript) and isinstance(v.value, ast.Name) and v.value.id in vnames:
                views[nm] = list(v.slice.elts) if isinstance(v.slice, ast.Tuple) else [v.slice]
        for n in ast.walk(fi.node):
            elts = None
            par = getattr(n, '_parent', None)
            if isinstance(n, ast.Subscript) and not (isinstance(par, ast.Subscript) and par.value is n):
                # the outermost subscript of a chain `var[index][si, ti]` / `record[si]`: positions inner to outer
                chain, b = [], n
                while isinstance(b, ast.Subscript):
                    chain.insert(0, list(b.slice.elts) if isinstance(b.slice, ast.Tuple) else [b.slice])
                    b = b.value
                if isinstance(b, ast.Name) and (b.id in vnames or b.id in views):
                    elts = list(views.get(b.id, [])) + [x for part in chain for x in part]
                    if any(isinstance(x, ast.Slice) for x in elts[:-1]) and len(chain) + (b.id in views) > 1:
                        elts = None         # a slice in the middle of a chain re-bases what follows: not judged
            if elts is not None and len(elts) >= 2:
                idx = [norm(x) for x in elts]
                used_sp = [i for i, x in enumerate(idx) if x in sp_vars]
                used_tm = [i for i, x in enumerate(idx) if x in tm_vars]
                ok = idx[0] in inames and (not used_sp or used_sp == [1]) and \
                    (not used_tm or used_tm == [len(idx) - 1]) and \
                    (not (used_sp and used_tm) or used_sp[0] < used_tm[0])
                # a position that is computed from a position variable (`si + 1`) is not the member's position
                shifted = [x for i, (x, e_) in enumerate(zip(idx, elts)) if i >= 1 and x not in sp_vars | tm_vars
                           and not isinstance(e_, ast.Slice)
                           and any(isinstance(y, ast.Name) and y.id in sp_vars | tm_vars for y in ast.walk(e_))]
                ctx.ob('C03-R1c', fi, f'{role} subscript var[{", ".join(idx)}]', ok and not shifted,
                       'record, species, thrust-mode in dimension order' if ok and not shifted else
                       (f'`{shifted[0]}` is not the position of the member on its axis (shifted / recomputed)' if ok else
                        'index variables are not in the order of the variable\'s dimensions'), line=n.lineno)


def _axis_loop(fn, node):
    """the `for` statement that walks the members of the sequence positioned at `node` (an enumeration found by
    _enumerates: the iterable of the loop itself, or `S.index(x)` in the body of the loop that binds x); None for a
    comprehension, which cannot be left early"""
    for lp in ast.walk(fn):
        if isinstance(lp, (ast.For, ast.AsyncFor)) and (lp.iter is node or same_site(node, lp.iter)):
            return lp
    if isinstance(node, ast.Call) and isinstance(node.func, ast.Name) and node.func.id == 'enumerate' and node.args \
            and not hasattr(node, '_c03_gen'):
        # the stand-in made for `S.index(x)` / `X.position(x)`: located at the call, x bound by an enclosing loop
        real = next((c for c in ast.walk(fn) if isinstance(c, ast.Call) and isinstance(c.func, ast.Attribute)
                     and same_site(node, c) and len(c.args) == 1 and isinstance(c.args[0], ast.Name)), None)
        if real is not None:
            for a in ancestors(real):
                if isinstance(a, (ast.FunctionDef, ast.AsyncFunctionDef, ast.Lambda)):
                    break
                if isinstance(a, (ast.For, ast.AsyncFor)) and real.args[0].id in names_of_target(a.target) \
                        and any(is_within(real, s) for s in a.body):
                    return a
    return None


def early_leaves(lp):
    """The ways out of loop `lp` that end it for all later items although the pass is about one item: `break`
    (of this loop) and `return` anywhere in its body (nested loops and other compound statements included, nested
    functions not), -> [(node, [(test, polarity)] it is under, inside the loop)], those first whose conditions
    depend on the item.  A leave under conditions that mention nothing bound inside the loop happens in the first
    pass or never (a guard written inside the loop): not reported here.  `raise` aborts the operation and is not
    a way of leaving."""
    bound = set()
    for x in ast.walk(lp):
        if isinstance(x, ast.Name) and isinstance(x.ctx, ast.Store):
            bound.add(x.id)
    out = []

    def go(stmts, own):
        for s in stmts:
            if isinstance(s, (ast.FunctionDef, ast.AsyncFunctionDef, ast.ClassDef)):
                continue
            if isinstance(s, ast.Return) or (isinstance(s, ast.Break) and own):
                out.append(s)
                continue
            inner_loop = isinstance(s, (ast.For, ast.AsyncFor, ast.While))
            for f in ('body', 'orelse', 'finalbody'):
                blk = getattr(s, f, None)
                if isinstance(blk, list) and blk and isinstance(blk[0], ast.stmt):
                    go(blk, own and not (inner_loop and f == 'body'))
            for h in getattr(s, 'handlers', []) or []:
                go(h.body, own)
            for c in getattr(s, 'cases', []) or []:
                go(c.body, own)
    go(lp.body, True)
    res = []
    for x in out:
        conds = [(t, pol) for t, pol, _ in guards_of(x, stop=lp)]
        # earlier guard clauses of the same blocks do not matter: they only make the leave rarer
        dep = any(isinstance(n, ast.Name) and n.id in bound for t, _ in conds for n in ast.walk(t))
        if conds and not dep:
            continue
        res.append((x, conds, dep))
    res.sort(key=lambda r: (not r[2], r[0].lineno))
    return [(x, conds) for x, conds, _ in res]


def _full_slice(x) -> bool:
    return isinstance(x, ast.Slice) and x.lower is None and x.upper is None and x.step is None


def _axes_at(stmt, top, arms, depth=0):
    """the axes (after the record axis) of the variable where `stmt` runs: ['species', 'thrust_mode'] filtered by the
    dimension combinations whose arm holds the statement; None when the arms disagree or none holds it"""
    if not arms or top.qualname not in arms:
        return None
    dims, cov, table = arms[top.qualname]
    found = set()
    for row, arm in table.items():
        if any(x is stmt for x in arm.walk()):
            combo = dict(zip(dims, row))
            found.add(tuple(a for a, d in (('species', 'SPECIES'), ('thrust_mode', 'THRUST_MODE')) if combo.get(d)))
    if not found and depth < 3:
        # a statement of a helper the variable is handed to: the arms that hold the call(s) of the helper
        host = next((a for a in ancestors(stmt) if isinstance(a, (ast.FunctionDef, ast.AsyncFunctionDef))), None)
        via = getattr(host, '_c03_via', None) if host is not None else None
        if via:
            rs = [_axes_at(c_, top, arms, depth + 1) for c_ in via]
            if all(r is not None for r in rs) and len({tuple(r) for r in rs}) == 1:
                return rs[0]
    return list(found.pop()) if len(found) == 1 else None


def _row_transfers(ctx, prog, fi, top, arms):
    """[(axis, sequence that orders the row, node)] for every transfer of a whole row of the NetCDF variable in fi:
    a store `var[index, …, :] = V` (a full slice at an axis) - the order is that of the comprehension that builds V
    (`[val[tm] for tm in S]` -> S), else V's own (`list(val.values())`: the mapping's insertion order); a read that
    is paired with labels by `zip(S, var[index, …])`."""
    out = []
    vnames, inames = variable_params(fi)
    fl = Flow(prog, fi)

    def fake(src, at):
        return ast.copy_location(ast.Call(func=ast.Name(id='enumerate', ctx=ast.Load()), args=[src], keywords=[]), at)

    def is_var_read(e, at, depth=0):
        while True:
            if isinstance(e, ast.Call) and isinstance(e.func, ast.Attribute) and e.func.attr in ('tolist', 'flatten', 'ravel') \
                    and not e.args:
                e = e.func.value
            elif isinstance(e, ast.Call) and call_name(e) in ('list', 'tuple', 'np.asarray', 'np.array', 'iter') and len(e.args) == 1:
                e = e.args[0]
            else:
                break
        if isinstance(e, ast.Subscript) and isinstance(e.value, ast.Name) and e.value.id in vnames:
            return e
        if isinstance(e, ast.Name) and depth < 3 and at is not None and e.id not in vnames:
            rs = [is_var_read(a, None, depth + 1) for a in fl.alts(e, at)]
            if rs and all(r is not None for r in rs):
                return rs[0]
        return None
    for s in walk_no_nested(fi.node):
        if isinstance(s, ast.Assign):
            for t in s.targets:
                if not (isinstance(t, ast.Subscript) and isinstance(t.value, ast.Name) and t.value.id in vnames
                        and isinstance(t.slice, ast.Tuple)):
                    continue
                pos = [i for i, x in enumerate(t.slice.elts) if _full_slice(x)]
                if not pos:
                    continue
                axes = _axes_at(s, top, arms)
                if axes is None or any(p_ < 1 or p_ - 1 >= len(axes) for p_ in pos):
                    ctx.undecided('C03-R1', fi, norm(t)[:60], 'cannot tell which axis of the variable the slice runs along')
                v = s.value
                for p_ in pos:
                    alts = fl.alts(v, s) if v is not None else []
                    x = alts[0] if len(alts) == 1 else v
                    while isinstance(x, ast.Call) and x.args and not x.keywords and call_name(x) in (
                            'np.array', 'np.asarray', 'numpy.array', 'numpy.asarray', 'list', 'tuple'):
                        x = x.args[0]
                    if isinstance(x, (ast.ListComp, ast.GeneratorExp)) and len(x.generators) == 1 \
                            and not x.generators[0].ifs:
                        out.append((axes[p_ - 1], x.generators[0].iter, fake(x.generators[0].iter, t)))
                        v = x.elt           # the next slice runs along the rows of the elements
                    else:
                        out.append((axes[p_ - 1], s.value if x is None else x, fake(x if x is not None else s.value, t)))
                        v = None
    for c in calls_in(fi.node):
        if call_name(c) == 'zip' and len(c.args) == 2 and not any(isinstance(a, ast.Starred) for a in c.args):
            at = stmt_of(c)
            for lab, cells in ((c.args[0], c.args[1]), (c.args[1], c.args[0])):
                r = is_var_read(cells, at)
                if r is None or is_var_read(lab, at) is not None:
                    continue
                axes = _axes_at(at, top, arms)
                n_idx = len(r.slice.elts) if isinstance(r.slice, ast.Tuple) else 1
                given = [x for x in (r.slice.elts if isinstance(r.slice, ast.Tuple) else [r.slice]) if not _full_slice(x)]
                if axes is None or len(given) - 1 >= len(axes) or len(given) < 1:
                    ctx.undecided('C03-R1', fi, norm(c)[:60], 'cannot tell which axis of the variable the row read runs along')
                out.append((axes[len(given) - 1], lab, fake(lab, c)))
                break
    return out


# ---------------------------------------------------------------- R3 -----
def legal_combinations(ctx, prog):
    """Derive legal (POINT, SPECIES, THRUST_MODE) combinations from Dimensions.__init__."""
    dm = prog.module(DIMS)
    init = dm.func('Dimensions.__init__')
    conds = []
    for n in walk_no_nested(init.node):
        if isinstance(n, ast.If) and isinstance(first_stmt(n.body), ast.Raise):
            conds.append(n.test)
    ctx.floor('C03-R3/constraints', len(conds), 2, 'Dimensions.__init__ constraints')

    def ev(e, present):
        if isinstance(e, ast.BoolOp):
            vs = [ev(v, present) for v in e.values]
            return all(vs) if isinstance(e.op, ast.And) else any(vs)
        if isinstance(e, ast.UnaryOp) and isinstance(e.op, ast.Not):
            return not ev(e.operand, present)
        if isinstance(e, ast.Compare) and len(e.ops) == 1 and isinstance(e.left, ast.Attribute):
            d = e.left.attr
            if isinstance(e.ops[0], ast.In):
                return d in present
            if isinstance(e.ops[0], ast.NotIn):
                return d not in present
        raise ValueError(norm(e))

    legal = []
    for p, s, t in itertools.product([False, True], repeat=3):
        present = {'TRAJECTORY'} | ({'POINT'} if p else set()) | ({'SPECIES'} if s else set()) \
            | ({'THRUST_MODE'} if t else set())
        try:
            rejected = any(ev(c, present) for c in conds)
        except ValueError as e:
            ctx.undecided('C03-R3', init, str(e), 'constraint form not recognised')
        if not rejected:
            legal.append({'POINT': p, 'SPECIES': s, 'THRUST_MODE': t})
    return legal


_OPQ = object()   # "not a function of the dimension tests alone"
_CANON = ('SPECIES', 'THRUST_MODE', 'POINT')


def shape_label(combo) -> str:
    return ''.join(d[0] for d in _CANON if combo.get(d)) or 'scalar'


class Arm:
    """The statements a dispatching function executes for one assignment of its dimension tests and for no
    other reason (what every assignment executes alike - preamble, common tail - is left out)."""

    def __init__(self, body, lineno, indirect=False, hosts=None):
        self.body = body
        self.lineno = lineno
        self.indirect = indirect
        self.hosts = hosts or {}        # id(statement) -> FunctionInfo of the callee the statement was taken from

    def walk(self):
        for s in self.body:
            yield from ast.walk(s)

    @property
    def kind(self) -> str:
        """'arm' (does something) | 'refuse' (raises unconditionally) | 'none' (falls through, nothing done)"""
        f = first_stmt(self.body)
        if f is None:
            return 'none'
        return 'refuse' if isinstance(f, ast.Raise) else 'arm'


class Dispatch:
    """Case analysis of a function over its `Dimension.X in <holder>.dimensions` tests, whatever the control-flow
    idiom: the body is partially evaluated for every truth assignment of the tests - `match` on a tuple / a single
    flag (first matching case wins, guards evaluated), if/elif/else chains, nested ifs, guard clauses with early
    return/raise, flags held in single-definition locals or tuple-unpacked, `not`/`and`/`or`/`==`/`!=`/`is` over
    them, comparison of a tuple of flags with a literal tuple, conditional expressions, a dict literal keyed by the
    flag tuple.  Conditions that do not depend on the tests alone stay in the arm as they are."""

    def __init__(self, fi, prog=None):
        self.fi = fi
        self.prog = prog
        self.hosts = {}
        tests = sorted((n for n in walk_no_nested(fi.node) if self.dim_of(n) is not None),
                       key=lambda n: (n.lineno, n.col_offset))
        self.dims = []
        holders = set()
        for t in tests:
            d = t.left.attr
            if d not in self.dims:
                self.dims.append(d)
            h = t.comparators[0]
            if isinstance(h, ast.Name):
                v = single_def_value(fi.node, h.id)
                h = v if v is not None and h.id not in fi.params else h
            holders.add(norm(h))
        if len(holders) > 1:
            raise ValueError(f'dimension tests on different objects: {sorted(holders)}')
        self.indirect = set()
        self._flagname = {}

    @staticmethod
    def dim_of(e):
        if isinstance(e, ast.Compare) and len(e.ops) == 1 and isinstance(e.ops[0], (ast.In, ast.NotIn)) \
                and isinstance(e.left, ast.Attribute) and norm(e.left.value) == 'Dimension':
            return e.left.attr, isinstance(e.ops[0], ast.In)
        return None

    # -- expressions ------------------------------------------------------
    def _local_value(self, name):
        if name in self.fi.params:
            return None
        v = single_def_value(self.fi.node, name)
        if v is None:
            tc = tuple_def_component(self.fi.node, name)
            if tc is not None and isinstance(tc[0], (ast.Tuple, ast.List)) and len(tc[0].elts) > tc[1] \
                    and not any(isinstance(x, ast.Starred) for x in tc[0].elts):
                v = tc[0].elts[tc[1]]
        return v

    def ev(self, e, env, depth=0):
        """True | False | tuple of such | _OPQ"""
        if depth > 8:
            return _OPQ
        if isinstance(e, ast.Constant) and isinstance(e.value, bool):
            return e.value
        d = self.dim_of(e)
        if d is not None:
            return env[d[0]] if d[1] else not env[d[0]]
        if isinstance(e, ast.Name):
            v = self._local_value(e.id)
            return _OPQ if v is None else self.ev(v, env, depth + 1)
        if isinstance(e, ast.NamedExpr):
            return self.ev(e.value, env, depth + 1)
        if isinstance(e, ast.Attribute) and isinstance(e.value, ast.Name) and self.prog is not None:
            # a field of a record built from the flags: `shape = Shape(species=…, …)` … `shape.species`
            rec = self._local_value(e.value.id)
            if isinstance(rec, ast.Call):
                v = record_field(self.prog, self.fi, ast.Attribute(value=rec, attr=e.attr, ctx=ast.Load()))
                return _OPQ if v is None else self.ev(v, env, depth + 1)
        if isinstance(e, ast.Call) and self.prog is not None and (e.args or e.keywords):
            # the record itself (a NamedTuple is a tuple of its fields)
            cls_ = resolve_class_call(self.prog, self.fi, e)
            if cls_ is not None and cls_.find_method('__init__') is None and \
                    any('NamedTuple' in b for c in cls_.mro() for b in c.base_exprs):
                vs = [record_field(self.prog, self.fi, ast.Attribute(value=e, attr=f, ctx=ast.Load()))
                      for f in cls_.all_fields()]
                if all(v is not None for v in vs):
                    rs = [self.ev(v, env, depth + 1) for v in vs]
                    return _OPQ if any(r is _OPQ for r in rs) else tuple(rs)
        if isinstance(e, ast.UnaryOp) and isinstance(e.op, ast.Not):
            v = self.ev(e.operand, env, depth + 1)
            return (not v) if isinstance(v, bool) else _OPQ
        if isinstance(e, ast.BoolOp):
            vs = [self.ev(v, env, depth + 1) for v in e.values]
            if any(not isinstance(v, bool) and v is not _OPQ for v in vs):
                return _OPQ
            if isinstance(e.op, ast.And):
                return False if any(v is False for v in vs) else (True if all(v is True for v in vs) else _OPQ)
            return True if any(v is True for v in vs) else (False if all(v is False for v in vs) else _OPQ)
        if isinstance(e, (ast.Tuple, ast.List)):
            vs = [self.ev(v, env, depth + 1) for v in e.elts]
            return _OPQ if any(v is _OPQ for v in vs) else tuple(vs)
        if isinstance(e, ast.Compare) and len(e.ops) == 1 and isinstance(e.ops[0], (ast.Eq, ast.NotEq, ast.Is, ast.IsNot)):
            a, b = self.ev(e.left, env, depth + 1), self.ev(e.comparators[0], env, depth + 1)
            if a is _OPQ or b is _OPQ:
                return _OPQ
            return (a == b) if isinstance(e.ops[0], (ast.Eq, ast.Is)) else (a != b)
        if isinstance(e, ast.IfExp):
            t = self.ev(e.test, env, depth + 1)
            if isinstance(t, bool):
                return self.ev(e.body if t else e.orelse, env, depth + 1)
            a, b = self.ev(e.body, env, depth + 1), self.ev(e.orelse, env, depth + 1)
            return a if a is not _OPQ and a == b else _OPQ
        if isinstance(e, ast.Call) and call_name(e) == 'bool' and len(e.args) == 1 and not e.keywords:
            return self.ev(e.args[0], env, depth + 1)
        return _OPQ

    def depends(self, node) -> bool:
        """does the construct contain a dimension test (directly or through a flag local)?"""
        for n in ast.walk(node):
            if self.dim_of(n) is not None:
                return True
            if isinstance(n, ast.Name) and isinstance(n.ctx, ast.Load):
                if n.id not in self._flagname:
                    self._flagname[n.id] = False
                    v = self._local_value(n.id)
                    self._flagname[n.id] = v is not None and self.depends(v)
                if self._flagname[n.id]:
                    return True
        return False

    # -- patterns ---------------------------------------------------------
    def _matches(self, p, v) -> bool:
        if isinstance(p, ast.MatchAs):
            return True if p.pattern is None else self._matches(p.pattern, v)
        if isinstance(p, ast.MatchOr):
            return any(self._matches(q, v) for q in p.patterns)
        if isinstance(p, ast.MatchSingleton):
            return v is p.value
        if isinstance(p, ast.MatchValue) and isinstance(p.value, ast.Constant):
            return not isinstance(v, tuple) and v == p.value.value
        if isinstance(p, ast.MatchSequence) and not any(isinstance(q, ast.MatchStar) for q in p.patterns):
            return isinstance(v, tuple) and len(v) == len(p.patterns) and \
                all(self._matches(q, x) for q, x in zip(p.patterns, v))
        raise ValueError(f'case pattern form not recognised: {norm(p)}')

    # -- statements -------------------------------------------------------
    def spec(self, stmts, env, sel=None):
        """([(statement, line of the deciding construct)], every path ends in return/raise/continue/break?)"""
        out = []
        for s in stmts:
            if isinstance(s, ast.If):
                v = self.ev(s.test, env)
                if isinstance(v, bool):
                    o, t = self.spec(s.body if v else s.orelse, env, s.lineno)
                    out += o
                    if t:
                        return out, True
                    continue
                if not self.depends(s):
                    out.append((s, sel))
                    if _ends(s.body) and _ends(s.orelse):
                        return out, True
                    continue
                b, tb = self.spec(s.body, env, None)
                o, to = self.spec(s.orelse, env, None)
                c = ast.If(test=s.test, body=[x for x, _ in b] or [ast.Pass()], orelse=[x for x, _ in o])
                out.append((ast.copy_location(c, s), sel))
                if tb and to:
                    return out, True
            elif isinstance(s, ast.Match):
                v = self.ev(s.subject, env)
                if v is _OPQ:
                    if self.depends(s):
                        raise ValueError(f'match subject is not decided by the dimension tests: {norm(s.subject)}')
                    out.append((s, sel))
                    continue
                for c in s.cases:
                    if not self._matches(c.pattern, v):
                        continue
                    if c.guard is not None:
                        g = self.ev(c.guard, env)
                        if not isinstance(g, bool):
                            raise ValueError(f'case guard is not decided by the dimension tests: {norm(c.guard)}')
                        if not g:
                            continue
                    o, t = self.spec(c.body, env, c.pattern.lineno)
                    out += o
                    if t:
                        return out, True
                    break
            elif isinstance(s, (ast.Return, ast.Raise, ast.Continue, ast.Break)):
                out.append((s, sel))
                return out, True
            elif isinstance(s, (ast.For, ast.AsyncFor, ast.While, ast.With, ast.AsyncWith, ast.Try)) and self.depends(s):
                kw = {}
                term = False
                for f in ('body', 'orelse', 'finalbody'):
                    if hasattr(s, f):
                        o, t = self.spec(getattr(s, f), env, None)
                        kw[f] = [x for x, _ in o] or ([ast.Pass()] if f == 'body' else [])
                        term = term or (t and f == 'body' and isinstance(s, (ast.With, ast.AsyncWith)))
                c = type(s)(**{f: kw.get(f, getattr(s, f)) for f in s._fields})
                out.append((ast.copy_location(c, s), sel))
                if term:
                    return out, True
            else:
                r = self._table_lookup(s, env)
                if r == 'missing':
                    x = ast.Raise(exc=ast.Name(id='KeyError', ctx=ast.Load()), cause=None)
                    out.append((ast.copy_location(x, s), s.lineno))
                    return out, True
                if isinstance(r, tuple):
                    # the table holds callables whose bodies are at hand: the arm is the body of the one selected
                    _, body, host = r
                    for b_ in body:
                        if host is not None:
                            self.hosts[id(b_)] = host
                        out.append((b_, s.lineno))
                elif r == 'hit':
                    self.indirect.add(id(s))
                    out.append((s, s.lineno))
                else:
                    out.append((s, sel))
        return out, False

    def _table_lookup(self, s, env):
        """`{(False, False): f, ...}[(has_sp, has_tm)]` inside a simple statement: 'hit' | 'missing' | None"""
        for n in ast.walk(s):
            if not isinstance(n, ast.Subscript):
                continue
            tbl = n.value
            if isinstance(tbl, ast.Name):
                tbl = self._local_value(tbl.id)
            if not isinstance(tbl, ast.Dict) or not self.depends(n.slice):
                continue
            k = self.ev(n.slice, env)
            keys = [self.ev(x, env) if x is not None else _OPQ for x in tbl.keys]
            if k is _OPQ or any(x is _OPQ for x in keys):
                raise ValueError(f'dispatch table lookup not decided by the dimension tests: {norm(n)[:60]}')
            if k not in keys:
                return 'missing'
            val = tbl.values[keys.index(k)]
            par = getattr(n, '_parent', None)
            called = isinstance(par, ast.Call) and par.func is n
            body = self._callable_body(val) if called else None
            return ('body',) + body if body is not None else 'hit'
        return None

    def _callable_body(self, v):
        """(statements, FunctionInfo | None) of a nested function / lambda / method of the same class named by v"""
        if isinstance(v, ast.Lambda):
            return [ast.copy_location(ast.Return(value=v.body), v)], None
        if isinstance(v, ast.Name):
            for x in self.fi.node.body:
                if isinstance(x, (ast.FunctionDef, ast.AsyncFunctionDef)) and x.name == v.id:
                    host = None
                    if self.prog is not None and hasattr(self.fi, 'module'):
                        host = self.fi.module.functions.get(f'{self.fi.qualname}.<locals>.{v.id}')
                    return list(x.body), host
        if isinstance(v, ast.Attribute) and isinstance(v.value, ast.Name) and v.value.id in ('self', 'cls') \
                and getattr(self.fi, 'cls', None) is not None:
            meth = self.fi.cls.find_method(v.attr)
            if meth is not None:
                return list(meth.node.body), meth
        return None

    def table(self):
        """{row (tuple over self.dims): Arm}"""
        runs = {}
        for row in itertools.product([False, True], repeat=len(self.dims)):
            runs[row] = self.spec(self.fi.node.body, dict(zip(self.dims, row)))[0]
        common = None
        for r in runs.values():
            ids = {id(s) for s, _ in r}
            common = ids if common is None else common & ids
        out = {}
        for row, r in runs.items():
            own = [(s, sel) for s, sel in r if id(s) not in common]
            line = next((sel or s.lineno for s, sel in own), self.fi.node.lineno)
            out[row] = Arm([s for s, _ in own], line, any(id(s) in self.indirect for s, _ in own), self.hosts)
        return out


def rule_tables(ctx, m, legal):
    prog = ctx.prog
    fs = prog.module(FS)
    tables = [
        fs.func('FieldMetadata.empty'),
        fs.func('FieldMetadata.convert_in'),
        m.func('TrajectoryStore._write_to_nc_var'),
        m.func('TrajectoryStore._read_from_nc_var'),
    ]
    ntab = 0
    arms = {}
    for fi in tables:
        try:
            dp = Dispatch(fi, prog)
            if not dp.dims:
                raise ValueError('no `Dimension.X in …` test decides what is done (dispatch idiom changed)')
            table = dp.table()
        except ValueError as e:
            ctx.undecided('C03-R3', fi, 'dimension dispatch', str(e))
        dims = dp.dims
        ntab += 1
        covered = {row: a for row, a in table.items() if a.kind == 'arm'}
        ctx.floor(f'C03-R3/{fi.name}', len({id(a.body[0]) for a in covered.values()}), 2, 'distinct arms')
        arms[fi.qualname] = (dims, covered, table)
        for combo in legal:
            row = tuple(combo[d] for d in dims)
            a = table[row]
            ok = a.kind == 'arm'
            ctx.ob('C03-R3', fi, f'arm for {"".join(k[0] for k, v in combo.items() if v) or "scalar"} '
                   f'({", ".join(f"{d}={combo[d]}" for d in dims)})', ok,
                   f'arm at line {a.lineno}' if ok else
                   ('a legal field shape has no arm: values of that shape ' +
                    ('are refused (they reach the raise at line %d)' % a.lineno if a.kind == 'refuse' else
                     'fall through and nothing is done for them')),
                   line=a.lineno)
        illegal_rows = set(table) - {tuple(c[d] for d in dims) for c in legal}
        if illegal_rows:
            silent = sorted(r for r in illegal_rows if table[r].kind == 'none')
            ctx.ob('C03-R3', fi, 'combinations outside the legal ones do not pass silently', not silent,
                   f'{sum(table[r].kind == "refuse" for r in illegal_rows)} of {len(illegal_rows)} raise' if not silent else
                   f'{[dict(zip(dims, r)) for r in silent]} fall through: no arm and no raise', nontrivial=False)
    ctx.floor('C03-R3', ntab, 4, 'dimension case tables')
    # positive control: the four equivalent spellings of one dispatch give one table, and a dropped case is seen
    ctx.control('C03-R3', _dispatch_control(), 'embedded dispatch spellings (match / elif / guard clauses / nested) agree; '
                'a missing case is seen')
    return arms


_CONTROL_SRC = """
def a(self, f, v):
    match (Dimension.S in f.dimensions, Dimension.T in f.dimensions):
        case (False, False):
            return 0
        case (False, True):
            return 1
        case (True, False):
            return 2
        case _:
            raise ValueError()
def b(self, f, v):
    s = Dimension.S in f.dimensions
    t = Dimension.T in f.dimensions
    if not s and not t:
        return 0
    elif not s:
        return 1
    elif not t:
        return 2
    else:
        raise ValueError()
def c(self, f, v):
    s, t = Dimension.S in f.dimensions, Dimension.T in f.dimensions
    if not s:
        if not t:
            return 0
        return 1
    if t:
        raise ValueError()
    return 2
def d(self, f, v):
    key = (Dimension.S in f.dimensions, Dimension.T in f.dimensions)
    if key == (True, True):
        raise ValueError()
    if Dimension.S not in f.dimensions:
        return 1 if Dimension.T in f.dimensions else 0
    return 2
def e(self, f, v):
    s = Dimension.S in f.dimensions
    t = Dimension.T in f.dimensions
    if not s and not t:
        return 0
    elif not t:
        return 2
    elif s:
        raise ValueError()
"""


def _dispatch_control() -> bool:
    class _F:
        def __init__(self, node):
            self.node = node
            self.params = [a.arg for a in node.args.args]
    mod = ast.parse(_CONTROL_SRC)
    for x in ast.walk(mod):
        for ch in ast.iter_child_nodes(x):
            ch._parent = x
    sig = {}
    for f in mod.body:
        t = Dispatch(_F(f)).table()
        sig[f.name] = {row: (a.kind, norm(a.body[0]) if a.body else '') for row, a in t.items()}
    same = sig['a'] == sig['b'] == sig['c']
    d_ok = {r: k for r, (k, _) in sig['d'].items()} == {r: k for r, (k, _) in sig['a'].items()}
    e_gap = sig['e'][(False, True)][0] == 'none' and sig['e'][(True, True)][0] == 'refuse'
    return same and d_ok and e_gap and sig['a'][(True, True)][0] == 'refuse' and sig['a'][(True, False)][0] == 'arm'


def none_outcomes(fn, vparam, fparam, varparam, required):
    """Walk the body of the writer with the value parameter None and `<field>.required` == required; tests that
    these two facts decide are followed, every other test is explored both ways.  -> [(kind, node, current value)]
    with kind 'raise' | 'return' | 'store' (a statement that writes into the NetCDF variable is reached; current
    value: what the value parameter was rebound to, None if it still is the None that came in) | 'unsure' (a test of
    the value was not understood: the outcomes are an over-approximation)."""
    out = []
    unsure = []

    def ev(e, cur):
        if isinstance(e, ast.UnaryOp) and isinstance(e.op, ast.Not):
            v = ev(e.operand, cur)
            return None if v is None else not v
        if isinstance(e, ast.BoolOp):
            vs = [ev(v, cur) for v in e.values]
            if isinstance(e.op, ast.And):
                return False if any(v is False for v in vs) else (True if all(v is True for v in vs) else None)
            return True if any(v is True for v in vs) else (False if all(v is False for v in vs) else None)
        if isinstance(e, ast.Compare) and len(e.ops) == 1:
            l, r = e.left, e.comparators[0]
            for x, y in ((l, r), (r, l)):
                if isinstance(x, ast.Name) and x.id == vparam and isinstance(y, ast.Constant) and y.value is None \
                        and cur is None:
                    if isinstance(e.ops[0], (ast.Is, ast.Eq)):
                        return True
                    if isinstance(e.ops[0], (ast.IsNot, ast.NotEq)):
                        return False
                if isinstance(x, ast.Attribute) and x.attr == 'required' and norm(x.value) == fparam and \
                        isinstance(y, ast.Constant) and isinstance(y.value, bool):
                    if isinstance(e.ops[0], (ast.Is, ast.Eq)):
                        return required == y.value
                    if isinstance(e.ops[0], (ast.IsNot, ast.NotEq)):
                        return required != y.value
            return None
        if isinstance(e, ast.Attribute) and e.attr == 'required' and norm(e.value) == fparam:
            return required
        if isinstance(e, ast.Name):
            if e.id == vparam and cur is None:
                return False
            v = single_def_value(fn, e.id)
            if v is not None and e.id not in (vparam, fparam):
                return ev(v, cur)
        if isinstance(e, ast.Call) and call_name(e) == 'isinstance' and e.args and isinstance(e.args[0], ast.Name) \
                and e.args[0].id == vparam and cur is None:
            return False
        return None

    def writes(s):
        for t, stx, how in stores_to(s):
            b = t
            while isinstance(b, ast.Subscript):
                b = b.value
            if isinstance(t, ast.Subscript) and isinstance(b, ast.Name) and b.id == varparam:
                return stx
        for c in calls_in(s):
            if any(isinstance(a_, ast.Name) and a_.id == varparam for a_ in c.args) and \
                    any(isinstance(a_, ast.Name) and a_.id == vparam for a_ in c.args):
                return c        # handed on to a helper together with the value
        return None

    def run(stmts, cur, budget):
        """-> list of (cur) states that fall through"""
        states = [cur]
        for s in stmts:
            nxt = []
            for cur_ in states:
                if isinstance(s, ast.If):
                    v = ev(s.test, cur_)
                    if v is None and cur_ is None and any(isinstance(x, ast.Name) and x.id == vparam for x in ast.walk(s.test)):
                        unsure.append(s.test)       # a test of the value that is not understood
                    if v is not False:
                        nxt += run(s.body, cur_, budget)
                    if v is not True:
                        nxt += run(s.orelse, cur_, budget)
                    continue
                if isinstance(s, ast.Return):
                    out.append(('return', s, cur_))
                    continue
                if isinstance(s, ast.Raise):
                    out.append(('raise', s, cur_))
                    continue
                w = writes(s)
                if w is not None:
                    out.append(('store', w, cur_))
                    continue
                for t, stx, how in stores_to(s):
                    if isinstance(t, ast.Name) and t.id == vparam and stx is s and getattr(s, 'value', None) is not None:
                        v_ = s.value
                        cur_ = None if isinstance(v_, ast.Constant) and v_.value is None else v_
                nxt.append(cur_)
            # merge states by text to stay small
            seen, states = set(), []
            for c_ in nxt:
                k = norm(c_) if c_ is not None else None
                if k not in seen:
                    seen.add(k)
                    states.append(c_)
            if not states:
                return []
        return states
    for cur in run(fn.body, None, 0):
        out.append(('return', fn, cur))
    if unsure:
        out.append(('unsure', unsure[0], None))
    return out


def falsy_skips(fn, vparam, varparam):
    """Walk the writer with a value that is set (not None): `val is None` is false, every other test is explored both
    ways.  -> [(test, node)] for the ways that end (return / raise / end of the function) before anything is written
    after taking a branch on a test that a set value can meet by being falsy or equal to a constant: the truthiness
    of the value (`not val`, `val`, `bool(val)`) or its comparison with a constant other than None (`val == 0`).
    Other tests of the value (isinstance, len, membership) are not judged."""
    out = []

    def is_v(x):
        return isinstance(x, ast.Name) and x.id == vparam

    def ev(e, depth=0):
        """(truth value for a set value | None, the sub-test that is a truthiness / constant test of the value | None)"""
        if isinstance(e, ast.UnaryOp) and isinstance(e.op, ast.Not):
            v, f = ev(e.operand, depth)
            return (None if v is None else not v), f
        if isinstance(e, ast.BoolOp):
            rs = [ev(v, depth) for v in e.values]
            vs = [v for v, _ in rs]
            f = next((f_ for _, f_ in rs if f_ is not None), None)
            if isinstance(e.op, ast.And):
                v = False if any(x is False for x in vs) else (True if all(x is True for x in vs) else None)
            else:
                v = True if any(x is True for x in vs) else (False if all(x is False for x in vs) else None)
            return v, (f if v is None else None)
        if isinstance(e, ast.Compare) and len(e.ops) == 1:
            l, r = e.left, e.comparators[0]
            for x, y in ((l, r), (r, l)):
                if is_v(x) and isinstance(y, ast.Constant):
                    if y.value is None:
                        if isinstance(e.ops[0], (ast.Is, ast.Eq)):
                            return False, None
                        if isinstance(e.ops[0], (ast.IsNot, ast.NotEq)):
                            return True, None
                    elif isinstance(e.ops[0], (ast.Eq, ast.NotEq, ast.Is, ast.IsNot)):
                        return None, e
            return None, None
        if is_v(e) or (isinstance(e, ast.Call) and call_name(e) == 'bool' and len(e.args) == 1 and is_v(e.args[0])):
            return None, e
        if isinstance(e, ast.Name) and depth < 3 and e.id != vparam:
            v = single_def_value(fn, e.id)
            if v is not None:
                return ev(v, depth + 1)
        return None, None

    def writes(s):
        for t, stx, how in stores_to(s):
            b = t
            while isinstance(b, ast.Subscript):
                b = b.value
            if isinstance(t, ast.Subscript) and isinstance(b, ast.Name) and b.id == varparam:
                return True
        return any(any(isinstance(a_, ast.Name) and a_.id == varparam for a_ in c.args) for c in calls_in(s)
                   if not (isinstance(c.func, ast.Attribute) and isinstance(c.func.value, ast.Name)
                           and c.func.value.id == varparam))

    def run(stmts, taken, k):
        if not stmts:
            return k(taken)
        s, rest = stmts[0], stmts[1:]
        if isinstance(s, ast.If):
            v, f = ev(s.test)
            for pol, blk in ((True, s.body), (False, s.orelse)):
                if v is None or v is pol:
                    run(list(blk), taken + ([(f, s)] if f is not None and v is None else []), lambda t: run(rest, t, k))
            return
        if isinstance(s, (ast.Return, ast.Raise)):
            if taken:
                out.append((taken[0][1].test, s))
            return
        if writes(s):
            return
        if any(isinstance(t, ast.Name) and t.id == vparam for t, stx, how in stores_to(s)):
            return          # the value is rebound: what follows is about another value
        return run(rest, taken, k)
    try:
        run(list(fn.body), [], lambda t: out.append((t[0][1].test, fn)) if t else None)
    except RecursionError:
        return []
    return out


def _caller_passes_set_values(ctx, m, wr, vparam) -> bool:
    """every call of the writer is made only for values that are set (the callers test the value themselves)"""
    calls = [(f, c) for f, c in callers_of(ctx.prog, wr)]
    if not calls:
        return False
    for f, c in calls:
        varg = _arg_for_param(wr, c, vparam)
        if varg is None:
            return False
        st = stmt_of(c)
        loops = [a for a in ancestors(st) if isinstance(a, (ast.For, ast.While))]
        top = loops[-1] if loops else f.node
        keep, leave, cx = loop_conditions(st, top, (ast.Raise,))
        items = {x.id for lp in loops if isinstance(lp, ast.For) for x in ast.walk(lp.target) if isinstance(x, ast.Name)}
        cats = [cp for e, pol in keep for cp in categorise_fact(f.node, e, pol, items | {n_ for n_ in names_of_target(varg)}, varg)]
        if ('value', True) not in cats:
            return False
    return True


# ---------------------------------------------------------------- R2 -----
def rule_absent(ctx, m, arms):
    wr = m.func('TrajectoryStore._write_to_nc_var')
    rd = m.func('TrajectoryStore._read_from_nc_var')
    wdims, wcov, _ = arms[wr.qualname]
    rdims, rcov, _ = arms[rd.qualname]
    # writer: an unset value (None) - refused when the field is required, otherwise nothing at all is written, so that
    # the cell keeps the fill value the reader recognises.  Decided by walking the writer with `val is None` and
    # `field.required` fixed, whatever the spelling of the tests.
    vparam = 'val' if 'val' in wr.params else None
    fparam = 'field' if 'field' in wr.params else None
    varparam = 'var' if 'var' in wr.params else (wr.params[1] if len(wr.params) > 1 else None)
    if vparam is None or fparam is None:
        ctx.undecided('C03-R2', wr, 'parameters', 'cannot tell which parameters carry the value and the field definition')
    caller_guards = _caller_passes_set_values(ctx, m, wr, vparam)
    bad_opt = bad_req = None
    for required in (False, True):
        outcomes = none_outcomes(wr.node, vparam, fparam, varparam, required)
        uns = [o for o in outcomes if o[0] == 'unsure']
        if uns and not caller_guards and any(o[0] == 'store' for o in outcomes):
            ctx.undecided('C03-R2', wr, norm(uns[0][1])[:60], 'a test of the value in the writer is not understood: cannot '
                          'tell whether an unset value reaches the write')
        for kind, node, cur in [o for o in outcomes if o[0] != 'unsure']:
            if required and kind != 'raise' and bad_req is None:
                bad_req = (kind, node, cur)
            if not required and kind != 'return' and bad_opt is None:
                bad_opt = (kind, node, cur)
    okn = (bad_opt is None and bad_req is None) or caller_guards
    why = '`val is None`: required -> raise, optional -> return before any write'
    if caller_guards:
        why = 'the caller only passes values that are set'
    elif bad_opt is not None:
        kind, node, cur = bad_opt
        if kind == 'raise':
            why = 'an unset optional value is refused by the writer: a trajectory with an unset optional field cannot be stored'
        elif cur is not None:
            why = (f'an unset optional value is not left unwritten: it is replaced by `{norm(cur)[:40]}` and written (line '
                   f'{node.lineno}), so the cell no longer holds the fill value and the field reads back as that value instead '
                   'of unset (None)')
        else:
            why = (f'an unset optional value reaches the write at line {node.lineno}: the writer no longer returns before '
                   'writing when the value is None')
    elif bad_req is not None:
        why = ('the writer no longer separates unset required from unset optional values: a required field that is None is '
               + ('silently left unwritten' if bad_req[0] == 'return' else 'written'))
    ctx.ob('C03-R2', wr, 'unset value: refused if required, else nothing written', okn, why,
           line=(bad_opt or bad_req or (0, wr.node, 0))[1].lineno)
    fs_ = []
    for test, end in falsy_skips(wr.node, vparam, varparam):
        # where does the test run?  In arms that all have a species dimension the value is a mapping, and an empty
        # mapping has nothing to write: leaving early changes nothing.  Anywhere else 0 / 0.0 are values.
        wtable = arms[wr.qualname][2]
        rows = [row for row, arm in wtable.items() if any(getattr(x, 'test', None) is test for x in arm.walk())]
        if rows and all(dict(zip(wdims, row)).get('SPECIES') for row in rows):
            continue
        fs_.append((test, end))
    ctx.ob('C03-R2', wr, 'only None counts as unset', not fs_,
           'no way for a set value to leave the writer unwritten by being falsy / equal to a constant' if not fs_ else
           (f'`{norm(fs_[0][0])[:50]}` also holds for values that are set (0, 0.0, an empty mapping or array): such a '
            f'value {"is refused" if isinstance(fs_[0][1], ast.Raise) else "is left unwritten and reads back as unset (None)"}'),
           line=(fs_[0][1].lineno if fs_ else wr.node.lineno), nontrivial=False)
    rfl = Flow(ctx.prog, rd)
    for row, case in sorted(rcov.items(), key=lambda kv: kv[0]):
        combo = dict(zip(rdims, row))
        wrow = tuple(combo[d] for d in wdims)
        wcase = wcov.get(wrow)
        if wcase is None:
            continue
        if any(combo[d] for d in ('POINT', 'THRUST_MODE')) and combo.get('POINT') and combo.get('THRUST_MODE'):
            continue
        label = shape_label(combo)
        if case.indirect or wcase.indirect:
            ctx.undecided('C03-R2', rd, f'arm {label}', 'the arm is reached through a dispatch table of callables; its body is '
                          'not in this function')
        # R2b: per-point cells are variable-length: a cell that was never written reads back as an empty array, and the
        # reader uses emptiness as its "never written" marker (`all(cell == fill)` is vacuously true for an empty cell,
        # `len(v) > 0` filters species).  That marker must not be met by a value that can legitimately be stored: it is,
        # whenever a trajectory may have zero points.
        tests = _arm_tests(rfl, case)
        if combo.get('POINT') and not combo.get('THRUST_MODE'):
            vacuous = [x for s_ in case.body for x in ast.walk(s_) if isinstance(x, ast.Call) and x.args and (
                call_name(x) in ('all', 'np.all', 'numpy.all') and isinstance(x.args[0], ast.Compare))] + \
                [x for s_ in case.body for x in ast.walk(s_) if isinstance(x, ast.Call) and isinstance(x.func, ast.Attribute)
                 and x.func.attr == 'all' and isinstance(x.func.value, ast.Compare)]
            empt = [c_ for c_, at, kinds, lvl in tests if 'empty' in kinds and 'fill' not in kinds]
            uses_emptiness = bool(vacuous or empt)
            add = m.func('TrajectoryStore.add')
            zero_refused = any(isinstance(r, ast.Raise) and any(
                any(k in norm(t) for k in ('len(trajectory) == 0', 'len(trajectory) < 1', 'not len(trajectory)', 'npoints == 0',
                                           'npoints < 1')) for t, pol, _ in guards_of(r)) for r in walk_no_nested(add.node))
            ok = not uses_emptiness or zero_refused
            marker = norm(vacuous[0])[:50] if vacuous else (norm(empt[0]) if empt else '?')
            ctx.ob('C03-R2', rd, f'reader arm {label}: the never-written marker is not met by a storable value', ok,
                   ('zero-point trajectories are refused by add' if zero_refused else 'the marker is not emptiness') if ok else
                   (f'the marker is emptiness (`{marker}`), an empty per-point array is what a zero-point trajectory stores, and `add` accepts zero-point trajectories: '
                    'its arrays read back as unset (None)' + (' and its species are dropped' if combo['SPECIES'] else
                                                               '; for a required field _load_trajectory then fails with TypeError (len(None))')),
                   line=case.lineno)
        # R2b (second half): a marker that tests a length must test emptiness, nothing more (`len(v) > 1` drops
        # one-point arrays)
        for c_, at, kinds, lvl in tests:
            if 'empty' in kinds and lvl in ('entry', 'none'):
                thr = _length_test(c_)
                if thr is not None and not thr[0]:
                    ctx.ob('C03-R2', rd, f'reader arm {label}: a length marker tests emptiness only', False,
                           f'`{untag(norm(c_))[:60]}` is not a test of emptiness: {thr[1]}', line=getattr(c_, 'lineno', case.lineno))
        # can the writer skip a cell in this arm?  (a membership test of the value decides whether a cell is written)
        w_skips = [n for n in wcase.walk() if isinstance(n, ast.If) and
                   any(isinstance(o, (ast.In, ast.NotIn)) for c in ast.walk(n.test) if isinstance(c, ast.Compare) for o in c.ops)]
        if combo['SPECIES']:
            if not w_skips:
                ctx.ob('C03-R2', rd, f'reader arm {label}: writer writes every cell', True,
                       'no skip in the writer arm, nothing to filter', line=case.lineno, nontrivial=False)
                continue
            recognised = [untag(norm(c_)) for c_, at, kinds, lvl in tests if kinds and lvl == 'entry']
            ok = bool(recognised)
            others = [untag(norm(c_))[:70] for c_, at, kinds, lvl in tests if not kinds and lvl == 'entry']
            ctx.ob('C03-R2', rd, f'reader arm {label}: never-written species are dropped', ok,
                   f'species mapping filtered by {recognised}' if ok else
                   ('the writer skips species a value does not contain (`if sp in val`) but this reader arm ' + (
                       f'decides which species to hand back by {others}, which is not a test of the variable\'s own '
                       'never-written marker (its get_fill_value() / emptiness): species are invented, or stored '
                       'values dropped, on read-back' if others else
                       'rebuilds every species of the file for every field: species are invented on read-back')),
                   line=case.lineno)
        elif not combo['THRUST_MODE']:
            none_rets = [(c_, kinds) for c_, at, kinds, lvl in tests if lvl == 'none' and kinds]
            ok = bool(none_rets)
            ctx.ob('C03-R2', rd, f'reader arm {label}: unset value reads back as None', ok,
                   'fill value → None' if ok else
                   'an optional value that was never written does not read back as unset',
                   line=case.lineno)


def _length_test(c):
    """(is exactly "empty" / "not empty", explanation) for a comparison of a length / size with a constant; None for
    anything else"""
    if not (isinstance(c, ast.Compare) and len(c.ops) == 1):
        return None
    l, r = c.left, c.comparators[0]
    flip = {ast.Gt: ast.Lt, ast.GtE: ast.LtE, ast.Lt: ast.Gt, ast.LtE: ast.GtE}
    op = type(c.ops[0])
    if isinstance(l, ast.Constant):
        l, r, op = r, l, flip.get(op, op)
    is_len = (isinstance(l, ast.Call) and call_name(l) == 'len') or (isinstance(l, ast.Attribute) and l.attr == 'size')
    if not is_len or not (isinstance(r, ast.Constant) and type(r.value) is int):
        return None
    k = r.value
    if (op, k) in ((ast.Gt, 0), (ast.GtE, 1), (ast.NotEq, 0), (ast.Eq, 0), (ast.Lt, 1), (ast.LtE, 0)):
        return True, ''
    return False, f'arrays of up to {k if op in (ast.Gt, ast.LtE) else max(k - 1, 0)} point(s) that were stored are taken for never written'


def _marker_kinds(fl, cond, at, depth=0):
    """which never-written marker a condition tests, after resolving its names: {'fill', 'empty', 'mask'}.  Helper
    calls and properties count for what they return (a fill value kept in an attribute of the store is not the
    variable's own); a test of a container built in the function (`if modes:`) inherits the markers tested where
    the container is filled."""
    kinds = set()
    try:
        alts = fl.alts(cond, at) if at is not None else [cond]
    except Exception:
        alts = [cond]
    texts = []
    for a in alts:
        texts.append(norm(a))
        for c in ast.walk(a):
            if isinstance(c, ast.Call) and not (isinstance(c.func, ast.Attribute) and c.func.attr == 'get_fill_value'):
                try:
                    ex = fl.expand(c)
                except Exception:
                    ex = None
                texts += [norm(x) for x in ex or []]
    for t in texts:
        if 'get_fill_value(' in t or '_FillValue' in t or 'default_fillvals' in t:
            kinds.add('fill')
        if 'len(' in t or '.size' in t or '.shape' in t:
            kinds.add('empty')
        if 'mask' in t or 'isnan' in t:
            kinds.add('mask')
    if at is not None and depth < 2 and hasattr(cond, '_parent'):
        for nm in {x.id for x in ast.walk(cond) if isinstance(x, ast.Name)}:
            if not any(d[0] == 'val' and _is_fresh_container(d[2]) for d in fl.reaching(nm, at)):
                continue
            for t, stx, how in stores_to(fl.fn):
                if isinstance(t, ast.Subscript) and isinstance(t.value, ast.Name) and t.value.id == nm:
                    lp = next((a_ for a_ in ancestors(stx) if isinstance(a_, (ast.For, ast.While))), None)
                    tests = [e_ for e_, pol in loop_conditions(stx, lp, (ast.Raise,))[0]] if lp is not None else \
                        [g for g, pol, _ in guards_of(stx)]
                    for g in tests:
                        kinds |= _marker_kinds(fl, g, stmt_of(g), depth + 1)
    return kinds


def _pipeline_ifs(x, depth=0):
    """the `if`s of the comprehension stages that produce the entries of mapping expression x (constructors, dict(),
    list(), `.items()` peeled; the first generator of each stage and, through its iterable, the stage before)"""
    out = []
    while depth < 6:
        if isinstance(x, ast.Call) and isinstance(x.func, ast.Attribute) and x.func.attr in ('items', 'values', 'keys') \
                and not x.args:
            x = x.func.value
        elif isinstance(x, ast.Call) and len(x.args) == 1 and not x.keywords:
            x = x.args[0]
        elif isinstance(x, (ast.DictComp, ast.ListComp, ast.SetComp, ast.GeneratorExp)):
            out += list(x.generators[0].ifs)
            x = x.generators[0].iter
            depth += 1
        else:
            break
    return out


def _arm_tests(fl, arm):
    """conditions in a reader arm that decide what is handed back: [(condition, statement, marker kinds, level)] with
    level 'none' - guards a `return None` (or the None arm of a conditional expression returned); 'entry' - decides
    whether an entry of the outermost mapping returned exists (the `if` of the comprehension that builds it, the
    guards of the element stores / `continue` clauses of the loop that fills it); 'inner' - anything else."""
    out = []
    stmts = list(arm.body)
    rets = [x for s_ in stmts for x in ast.walk(s_) if isinstance(x, ast.Return)]

    def at_of(n):
        try:
            return stmt_of(n)
        except AttributeError:
            return None
    entry_conds = []
    for r in rets:
        v = r.value
        if v is None or (isinstance(v, ast.Constant) and v.value is None):
            for t, pol, owner in guards_of(r) if hasattr(r, '_parent') else []:
                out.append((t, at_of(t), _marker_kinds(fl, t, at_of(t)), 'none'))
            # guard clauses spelled the other way round: `if cell != fill: return cell` ... `return None`
            child = r
            for a_ in (ancestors(r) if hasattr(r, '_parent') else []):
                blk = _block_of(a_, child)
                if blk is None and isinstance(a_, ast.match_case) and any(x is child for x in a_.body):
                    blk = a_.body
                if blk is not None:
                    for p_ in blk[:next(i for i, x in enumerate(blk) if x is child)]:
                        if isinstance(p_, ast.If) and (_ends(p_.body) or (p_.orelse and _ends(p_.orelse))):
                            out.append((p_.test, p_, _marker_kinds(fl, p_.test, p_), 'none'))
                if isinstance(a_, (ast.FunctionDef, ast.AsyncFunctionDef, ast.Match)):
                    break
                child = a_
            continue
        if isinstance(v, ast.IfExp) and any(isinstance(x, ast.Constant) and x.value is None for x in (v.body, v.orelse)):
            out.append((v.test, at_of(r), _marker_kinds(fl, v.test, at_of(r)), 'none'))
        # the mapping handed back: peel constructors
        mexp = v
        while isinstance(mexp, ast.Call) and len(mexp.args) == 1 and not mexp.keywords and not (
                isinstance(mexp.func, ast.Attribute) and mexp.func.attr in ('items', 'values', 'keys')):
            mexp = mexp.args[0]
        cands = [mexp]
        if isinstance(mexp, ast.Name) and hasattr(r, '_parent'):
            cands = []
            for d in fl.reaching(mexp.id, r):
                if d[0] == 'val':
                    x = d[2]
                    while isinstance(x, ast.Call) and len(x.args) == 1 and not x.keywords:
                        x = x.args[0]
                    cands.append(x)
                    if _is_fresh_container(d[2]):
                        for t, stx, how in stores_to(fl.fn):
                            if isinstance(t, ast.Subscript) and isinstance(t.value, ast.Name) and t.value.id == mexp.id \
                                    and any(stx is y for s_ in stmts for y in ast.walk(s_)):
                                loops = [a_ for a_ in ancestors(stx) if isinstance(a_, (ast.For, ast.While))
                                         and any(a_ is y for s_ in stmts for y in ast.walk(s_))]
                                if loops:
                                    keep, leave, cx = loop_conditions(stx, loops[-1], (ast.Raise,))
                                    inner_loops = loops[:-1]
                                    # a guard that ends the loop decides about the entry of its pass as well (that it
                                    # also drops the later ones is R1e's business)
                                    for e_, pol in keep + [(t_, p_) for t_, p_, _ in leave]:
                                        own = next((a_ for a_ in ancestors(e_) if isinstance(a_, ast.stmt)), None)
                                        lvl = 'entry' if not any(own is not None and is_within(own, il) for il in inner_loops) else 'inner'
                                        entry_conds.append((e_, at_of(e_), lvl))
        for x in cands:
            if isinstance(x, ast.DictComp):
                for g in x.generators[:1]:
                    for i in g.ifs:
                        entry_conds.append((i, at_of(r), 'entry'))
        # the same by value flow: the mapping handed back, resolved, is a pipeline of comprehensions (`written = [… for
        # … in cells if v != fill]`, `dict(written)`); the `if`s of every stage decide which entries exist
        if hasattr(r, '_parent'):
            have = {untag(norm(c_)) for c_, _, _ in entry_conds}
            try:
                resolved = fl.alts(v, r)
            except Exception:
                resolved = []
            for rv in resolved:
                for i in _pipeline_ifs(rv):
                    if untag(norm(i)) not in have:
                        have.add(untag(norm(i)))
                        entry_conds.append((i, None, 'entry'))
    seen = set()
    for c_, at, lvl in entry_conds:
        seen.add(id(c_))
        out.append((c_, at, _marker_kinds(fl, c_, at), lvl))
    for s_ in stmts:
        for x in ast.walk(s_):
            conds = []
            if isinstance(x, ast.comprehension):
                conds = x.ifs
            elif isinstance(x, (ast.If, ast.IfExp)):
                conds = [x.test]
            for c_ in conds:
                if id(c_) not in seen and not any(c_ is o[0] for o in out):
                    out.append((c_, at_of(c_) if hasattr(c_, '_parent') else None,
                                _marker_kinds(fl, c_, at_of(c_) if hasattr(c_, '_parent') else None), 'inner'))
    return out


# ---------------------------------------------------------------- R4 -----
def rule_digest(ctx, m):
    prog = ctx.prog
    fs = prog.module(FS)
    fm = fs.cls('FieldMetadata')
    di = fs.func('FieldMetadata.digest_info')
    fields = list(fm.annotated_fields())
    ctx.floor('C03-R4', len(fields), 6, 'FieldMetadata fields')
    used = {n.attr for n in ast.walk(di.node) if isinstance(n, ast.Attribute) and norm(n.value) == 'self'}
    for f in fields:
        ok = f in used
        ctx.ob('C03-R4', di, f'field `{f}` enters the digest', ok,
               'referenced by digest_info' if ok else
               f'metadata attribute `{f}` is not part of the digest: a file written under one definition '
               'opens under another', line=di.node.lineno)
    dg = fs.func('FieldSet.digest')
    src = ' '.join(norm(s) for s in dg.node.body)
    ok = 'sorted(' in src and 'digest_info' in src and 'fieldset_name' in src
    ctx.ob('C03-R4', dg, 'digest covers name and every field in sorted order', ok,
           'name + sorted(field names) + digest_info' if ok else 'digest is order-dependent or incomplete')
    # attribute round trip: what is attached to a variable at creation (attribute assignment, setncattr, setncatts,
    # setattr on a handle returned by createVariable) is what from_netcdf_group asks for (getncattr / getattr)
    cn = m.func('TrajectoryStore._create_nc_file')
    handles = {t.id for t, st, how in stores_to(cn.node) if isinstance(t, ast.Name) and
               isinstance(getattr(st, 'value', None), ast.Call) and isinstance(st.value.func, ast.Attribute)
               and st.value.func.attr == 'createVariable'}
    written = {}
    for t, st, how in stores_to(cn.node):
        if isinstance(t, ast.Attribute) and isinstance(t.value, ast.Name) and t.value.id in handles and how == 'assign':
            written[t.attr] = st.value
    for c in calls_in(cn.node):
        if isinstance(c.func, ast.Attribute) and isinstance(c.func.value, ast.Name) and c.func.value.id in handles:
            if c.func.attr == 'setncattr' and len(c.args) == 2 and isinstance(c.args[0], ast.Constant):
                written[c.args[0].value] = c.args[1]
            elif c.func.attr == 'setncatts' and c.args and isinstance(c.args[0], ast.Dict):
                for k_, v_ in zip(c.args[0].keys, c.args[0].values):
                    if isinstance(k_, ast.Constant):
                        written[k_.value] = v_
        if call_name(c) == 'setattr' and len(c.args) == 3 and isinstance(c.args[0], ast.Name) and c.args[0].id in handles \
                and isinstance(c.args[1], ast.Constant):
            written[c.args[1].value] = c.args[2]
    fg = fs.func('FieldSet.from_netcdf_group')
    read = {}
    for c in calls_in(fg.node):
        if call_name(c).endswith('getncattr') and c.args and isinstance(c.args[0], ast.Constant):
            read[c.args[0].value] = c
        elif call_name(c) == 'getattr' and len(c.args) >= 2 and isinstance(c.args[1], ast.Constant):
            read[c.args[1].value] = c
    if not written or not read:
        ctx.undecided('C03-R4', cn if not written else fg, 'variable attributes', 'cannot tell which attributes are ' +
                      ('attached to a variable at creation' if not written else 'read back by from_netcdf_group'))
    ok = set(written) == set(read) and set(written) >= {'description', 'units', 'required'}
    ctx.ob('C03-R4', fg, f'variable attributes written {sorted(written)} = read {sorted(read)}', ok,
           'creation and reconstruction agree' if ok else
           'attributes written at creation and read by from_netcdf_group differ')
    # the required flag is written as text: decoding what is written for True / False gives True / False back
    rt = None
    if 'required' in written and 'required' in read:
        rk = [k for c in calls_in(fg.node) for k in [kwarg(c, 'required')] if k is not None]
        rexp = rk[0] if rk else None
        if rexp is None:
            par = getattr(read['required'], '_parent', None)
            while par is not None and not isinstance(par, (ast.stmt, ast.keyword)):
                rexp, par = par, getattr(par, '_parent', None)
        try:
            rt = all(_tiny_eval(rexp, lambda n_: (True, _tiny_eval(written['required'],
                                                                     lambda q: (True, b_) if (isinstance(q, ast.Attribute) and q.attr == 'required') else (False, None)))
                                if n_ is read['required'] else (False, None)) is b_ for b_ in (True, False))
        except ValueError as e_:
            ctx.undecided('C03-R4', fg, 'required flag', f'encoding of the required flag not evaluated: {e_}')
    ctx.ob('C03-R4', fg, 'required flag encoding round-trips', bool(rt),
           'decode(encode(True)) is True, decode(encode(False)) is False' if rt else
           'required flag encoded and decoded differently', nontrivial=False)


def _tiny_eval(e, subst):
    """evaluate a side-effect-free expression of constants, comparisons, conditional expressions, str()/bool()/int(),
    .lower()/.upper()/.strip(), dict/tuple displays and subscripts; subst(node) -> (handled, value)"""
    h, v = subst(e)
    if h:
        return v
    if isinstance(e, ast.Constant):
        return e.value
    if isinstance(e, ast.IfExp):
        return _tiny_eval(e.body if _tiny_eval(e.test, subst) else e.orelse, subst)
    if isinstance(e, ast.UnaryOp) and isinstance(e.op, ast.Not):
        return not _tiny_eval(e.operand, subst)
    if isinstance(e, ast.BoolOp):
        vs = [_tiny_eval(x, subst) for x in e.values]
        return all(vs) if isinstance(e.op, ast.And) else any(vs)
    if isinstance(e, (ast.Tuple, ast.List, ast.Set)):
        return tuple(_tiny_eval(x, subst) for x in e.elts)
    if isinstance(e, ast.Dict) and all(k is not None for k in e.keys):
        return {_tiny_eval(k, subst): _tiny_eval(v_, subst) for k, v_ in zip(e.keys, e.values)}
    if isinstance(e, ast.Subscript):
        return _tiny_eval(e.value, subst)[_tiny_eval(e.slice, subst)]
    if isinstance(e, ast.Compare) and len(e.ops) == 1:
        a_, b_ = _tiny_eval(e.left, subst), _tiny_eval(e.comparators[0], subst)
        op = e.ops[0]
        table = {ast.Eq: lambda: a_ == b_, ast.NotEq: lambda: a_ != b_, ast.In: lambda: a_ in b_, ast.NotIn: lambda: a_ not in b_,
                 ast.Is: lambda: a_ is b_, ast.IsNot: lambda: a_ is not b_}
        if type(op) in table:
            return table[type(op)]()
    if isinstance(e, ast.Call) and not e.keywords:
        if isinstance(e.func, ast.Name) and e.func.id in ('str', 'bool', 'int') and len(e.args) == 1:
            return {'str': str, 'bool': bool, 'int': int}[e.func.id](_tiny_eval(e.args[0], subst))
        if isinstance(e.func, ast.Attribute) and e.func.attr in ('lower', 'upper', 'strip') and not e.args:
            return getattr(_tiny_eval(e.func.value, subst), e.func.attr)()
    raise ValueError(norm(e)[:50])


# ---------------------------------------------------------------- R5 -----
_STORED = ('fieldset_names', 'fieldset_hashes')
_FORCE = 'force_fieldset_matches'
_COLLECT = ('list', 'tuple', 'set', 'sorted', 'dict', 'frozenset')


def registry_key(x):
    """K when x is the digest the registry holds for field set K: `….from_registry(K).digest`,
    `….REGISTRY[K].digest`, `….REGISTRY.get(K).digest`"""
    if not (isinstance(x, ast.Attribute) and x.attr == 'digest'):
        return None
    v = x.value
    if isinstance(v, ast.Call) and len(v.args) == 1 and not v.keywords and \
            (v.func.attr if isinstance(v.func, ast.Attribute) else getattr(v.func, 'id', '')) == 'from_registry':
        return v.args[0]
    it = peel_item(v)
    if it is not None and (it[0].attr if isinstance(it[0], ast.Attribute) else getattr(it[0], 'id', '')) == 'REGISTRY':
        return it[1]
    return None


def _mentions_digest(e) -> bool:
    return any(isinstance(y, ast.Attribute) and y.attr == 'digest' for y in ast.walk(e))


def _site(n):
    return (getattr(n, 'lineno', 0), getattr(n, 'col_offset', 0), getattr(n, 'end_col_offset', 0))


def _peel_seq_call(c):
    while isinstance(c, ast.Call) and call_name(c) in ('list', 'tuple', 'iter') and len(c.args) == 1 and not c.keywords:
        c = c.args[0]
    return c


def _dict_of_zip(e):
    """(A, B) for `dict(zip(A, B))`"""
    if isinstance(e, ast.Call) and call_name(e) in ('dict', 'OrderedDict', 'collections.OrderedDict') \
            and len(e.args) == 1 and not e.keywords and isinstance(e.args[0], ast.Call) \
            and call_name(e.args[0]) == 'zip' and len(e.args[0].args) == 2:
        return e.args[0].args[0], e.args[0].args[1]
    return None


def _emptiness(e):
    """(X, empty when the test is true?) when e tests whether X is empty / zero / exhausted: `X`, `len(X)`,
    `len(X) == 0`, `len(X) > 0`, `X == []`, `X != 0`, `next(X, None) is None` …"""
    if isinstance(e, ast.Compare) and len(e.ops) == 1:
        l, r, op = e.left, e.comparators[0], type(e.ops[0])
        if isinstance(l, ast.Call) and call_name(l) == 'len' and len(l.args) == 1 and isinstance(r, ast.Constant):
            w = {(ast.Eq, 0): True, (ast.NotEq, 0): False, (ast.Gt, 0): False, (ast.GtE, 1): False, (ast.Lt, 1): True,
                 (ast.LtE, 0): True}.get((op, r.value))
            return None if w is None else (l.args[0], w)
        if (isinstance(r, (ast.List, ast.Tuple, ast.Dict)) and not getattr(r, 'elts', getattr(r, 'keys', None))) \
                or _is_empty_container(r):
            return {ast.Eq: (l, True), ast.NotEq: (l, False)}.get(op)
        if isinstance(r, ast.Constant) and r.value is None and isinstance(l, ast.Call) and call_name(l) == 'next' \
                and len(l.args) == 2 and isinstance(l.args[1], ast.Constant) and l.args[1].value is None:
            return {ast.Is: (l.args[0], True), ast.Eq: (l.args[0], True), ast.IsNot: (l.args[0], False),
                    ast.NotEq: (l.args[0], False)}.get(op)
        if isinstance(r, ast.Constant) and type(r.value) is int and isinstance(l, ast.Name):
            w = {(ast.Eq, 0): True, (ast.NotEq, 0): False, (ast.Gt, 0): False, (ast.GtE, 1): False, (ast.Lt, 1): True,
                 (ast.LtE, 0): True}.get((op, r.value))
            return None if w is None else (l, w)
        return None
    if isinstance(e, ast.Call) and call_name(e) in ('len', 'bool') and len(e.args) == 1 and not e.keywords:
        return (e.args[0], False)
    if isinstance(e, (ast.Name, ast.ListComp, ast.SetComp, ast.DictComp, ast.Attribute)) or \
            (isinstance(e, ast.Call) and call_name(e) in _COLLECT):
        return (e, False)
    return None


class _Pairs:
    """one iteration (for statement or comprehension clause): its target, the alternatives of its resolved iterable
    and the line that tags its variables in resolved expressions"""

    def __init__(self, target, iters, line, is_comp):
        self.target, self.iters, self.line, self.is_comp = target, iters, line, is_comp

    def is_var(self, n, name) -> bool:
        return isinstance(n, ast.Name) and (n.id == f'{name}@{self.line}' or (self.is_comp and n.id == name))


class _GateAcc:
    """what the R5 analysis of one open function and of the helpers it calls has found"""

    def __init__(self):
        self.faults = []        # (fi, line, reason): a construct that lets a mismatch through
        self.partial = []       # (fi, line, reason): not every pair is visited
        self.unknown = []       # (fi, line, reason): a form that is not analysed
        self.verified = []      # (fi, line, text)
        self.seen_compare = set()
        self.cache = {}
        self.closure = {}


class _Gate:
    """R5 for one function under a binding of its parameters (expressions of the caller, resolved there).

    `done` - forward dataflow over the CFG, exceptional edges included, so that a refusal caught by a handler that
    goes on does not count - is true where every stored digest has been compared with the registry's and each
    mismatch has either raised or met the force flag.  It becomes true: after a *check loop* (loop()); after a
    statement that calls a resolved helper every normal exit of which is `done`; on the branch of a test whose
    outcome implies "no pair mismatched, or forced" (holds())."""

    def __init__(self, prog, fi, binds, acc, depth=0, P0=None):
        self.prog, self.fi, self.fn, self.binds, self.acc, self.depth = prog, fi, fi.node, binds, acc, depth
        self.P0 = P0            # the pass of the caller's check loop this function is called in (a per-pair helper)
        self.fl = Flow(prog, fi)
        self.cfg = CFG(fi.node)
        self.loops = {}         # id(For) -> 'ok' | 'fault' | 'deferred' | 'unknown'
        self.recorders = {}     # local -> (For, truthy means "a mismatch went unrefused")
        self._hold = {}
        for lp in walk_no_nested(self.fn):
            if isinstance(lp, (ast.For, ast.AsyncFor)):
                P = _Pairs(lp.target, self.res(lp.iter, lp), lp.lineno, False)
                cmps = self._gate_compares(lp, P)
                if cmps:
                    self.loops[id(lp)] = self.loop(lp, P, cmps)
                elif P.iters and all(self._none_left(a, True) for a in P.iters):
                    self.loops[id(lp)] = self.loop_over_failed(lp)
                elif self._hands_pairs_on(lp, P):
                    self.loops[id(lp)] = self.loop(lp, P, [])

    # -- resolution ---------------------------------------------------------
    def res(self, e, at, depth=0):
        """alternatives of e at statement `at`, in the terms of the outermost caller"""
        out = []
        for a in self.fl.alts(e, at):
            bound = Flow._bound_inside(a)
            slots = [(x, self.binds[x.id]) for x in ast.walk(a)
                     if isinstance(x, ast.Name) and x.id in self.binds and x.id not in bound]
            # a non-empty display (`names = [names]`) is a value, not a container to be filled later
            for x in ast.walk(a):
                if isinstance(x, ast.Name) and '@' in x.id and depth < 4:
                    nm, line = x.id.rsplit('@', 1)
                    d = [s for s in local_defs(self.fn, nm) if str(s.lineno) == line and isinstance(s, ast.Assign)
                         and isinstance(s.value, (ast.List, ast.Tuple, ast.Set)) and s.value.elts]
                    if len(d) == 1:
                        slots.append((x, self.res(d[0].value, d[0], depth + 1)))
            if not slots:
                out.append(a)
                continue
            n = 1
            for _, ch in slots:
                n *= max(1, len(ch))
            if n > Flow.CAP:
                slots = [(x, ch[:1]) for x, ch in slots]
            for combo in itertools.product(*[ch for _, ch in slots]):
                out.append(_rebuild(a, {id(x): v for (x, _), v in zip(slots, combo)}))
        return [project_records(self.prog, self.fi, a) for a in out[:4 * Flow.CAP]]

    def expanded(self, e):
        """what a resolved helper call / property read returns (None-returns dropped), or None"""
        if not isinstance(e, (ast.Call, ast.Attribute)):
            return None
        if isinstance(e, ast.Call) and isinstance(e.func, ast.Name) and '@' in e.func.id:
            # a nested function, tagged by Flow like any other local
            e = _rebuild(e, {id(e.func): ast.Name(id=e.func.id.split('@')[0], ctx=ast.Load())})
        try:
            ex = self.fl.expand(e)
        except (AttributeError, KeyError, IndexError, TypeError):
            return None
        if not ex:
            return None
        return [x for x in ex if not (isinstance(x, ast.Constant) and x.value is None)] or None

    def stored_attr(self, e, depth=0):
        """'fieldset_names' / 'fieldset_hashes' when e denotes that whole attribute of the file (a single string
        wrapped into a list, list(), `x or []`, getattr or a reading helper included); None otherwise"""
        if depth > 5 or e is None:
            return None
        if isinstance(e, (ast.List, ast.Tuple)) and len(e.elts) == 1 and not isinstance(e.elts[0], ast.Starred):
            return self.stored_attr(e.elts[0], depth + 1)
        if isinstance(e, ast.Call) and len(e.args) == 1 and not e.keywords and call_name(e) in (
                'list', 'tuple', 'np.atleast_1d', 'numpy.atleast_1d', 'np.asarray', 'numpy.asarray', 'np.array',
                'numpy.array'):
            return self.stored_attr(e.args[0], depth + 1)
        if isinstance(e, ast.Call) and isinstance(e.func, ast.Attribute) and e.func.attr in ('tolist', 'copy') \
                and not e.args and not e.keywords:
            return self.stored_attr(e.func.value, depth + 1)
        if isinstance(e, ast.IfExp):
            a, b = self.stored_attr(e.body, depth + 1), self.stored_attr(e.orelse, depth + 1)
            return a if a == b else None
        if isinstance(e, ast.BoolOp) and isinstance(e.op, ast.Or) and all(
                _is_empty_container(v) or (isinstance(v, ast.Tuple) and not v.elts) for v in e.values[1:]):
            return self.stored_attr(e.values[0], depth + 1)
        if isinstance(e, ast.Attribute) and e.attr in _STORED:
            return e.attr
        if isinstance(e, ast.Call) and call_name(e).split('.')[-1] in ('getattr', 'getncattr') and e.args:
            k = e.args[1] if call_name(e) == 'getattr' and len(e.args) > 1 else e.args[0]
            return k.value if isinstance(k, ast.Constant) and k.value in _STORED else None
        ex = self.expanded(e)
        if ex:
            s = {self.stored_attr(x, depth + 1) for x in ex}
            if len(s) == 1:
                return s.pop()
        return None

    def whole(self, e, depth=0) -> bool:
        """e runs over every stored name / hash: the attribute itself or a one-to-one image of it"""
        if self.stored_attr(e) in _STORED:
            return True
        if isinstance(e, (ast.ListComp, ast.GeneratorExp)) and len(e.generators) == 1 and not e.generators[0].ifs \
                and depth < 3:
            return self.whole(e.generators[0].iter, depth + 1)
        return False

    # -- positions ----------------------------------------------------------
    def _bases_in(self, x, tg, alt, P):
        dz = key = None
        if isinstance(x, ast.Subscript):
            dz, key = _dict_of_zip(x.value), x.slice
        elif isinstance(x, ast.Call) and isinstance(x.func, ast.Attribute) and x.func.attr in ('get', '__getitem__') \
                and len(x.args) == 1:
            dz, key = _dict_of_zip(x.func.value), x.args[0]
        if dz is not None:
            kb = self._bases_in(key, tg, alt, P)
            if kb and all(norm(k) == norm(dz[0]) or
                          (self.stored_attr(k) is not None and self.stored_attr(k) == self.stored_attr(dz[0])) for k in kb):
                return [dz[1]]
            return None
        c = _peel_seq_call(alt)
        cn = call_name(c) if isinstance(c, ast.Call) else ''
        names = [t.id if isinstance(t, ast.Name) else None for t in tg.elts] if isinstance(tg, (ast.Tuple, ast.List)) \
            else None
        if cn == 'zip':
            if names is not None and len(names) == len(c.args) and all(k.arg == 'strict' for k in c.keywords):
                for j, nm in enumerate(names):
                    if nm and P.is_var(x, nm):
                        return [c.args[j]]
            return None
        if cn == 'enumerate':
            if names is not None and len(names) == 2 and len(c.args) == 1 and not c.keywords:
                if names[1] and P.is_var(x, names[1]):
                    return [c.args[0]]
                if isinstance(x, ast.Subscript) and names[0] and P.is_var(x.slice, names[0]):
                    return [x.value]
            return None
        if cn == 'range':
            if len(c.args) == 1 and isinstance(tg, ast.Name) and isinstance(c.args[0], ast.Call) \
                    and call_name(c.args[0]) == 'len' and len(c.args[0].args) == 1 \
                    and isinstance(x, ast.Subscript) and P.is_var(x.slice, tg.id):
                return [x.value]
            return None
        m = c
        if isinstance(c, ast.Call) and isinstance(c.func, ast.Attribute) and c.func.attr in ('items', 'keys') and not c.args:
            m = c.func.value
        dz = _dict_of_zip(m)
        if dz is not None:
            k = names[0] if names is not None and len(names) == 2 else (tg.id if isinstance(tg, ast.Name) else None)
            return [dz[0]] if k and P.is_var(x, k) else None
        if isinstance(tg, ast.Name) and P.is_var(x, tg.id) and not isinstance(c, ast.Call):
            return [c]
        return None

    def bases(self, x, P):
        """sequences S with x == S[position of the current pass of P], over all alternatives of P's iterable"""
        out = []
        for alt in P.iters:
            b = self._bases_in(x, P.target, alt, P)
            if b is None:
                return None
            out += b
        return out or None

    def drivers(self, P):
        """the sequences whose members the passes of P stand for; None if not understood"""
        out = []
        for c in P.iters:
            c = _peel_seq_call(c)
            cn = call_name(c) if isinstance(c, ast.Call) else ''
            if cn == 'zip':
                out += list(c.args)
            elif cn == 'enumerate' and len(c.args) == 1 and not c.keywords:
                out.append(c.args[0])
            elif cn == 'range' and len(c.args) == 1 and isinstance(c.args[0], ast.Call) \
                    and call_name(c.args[0]) == 'len' and c.args[0].args:
                out.append(c.args[0].args[0])
            else:
                m = c
                if isinstance(c, ast.Call) and isinstance(c.func, ast.Attribute) and c.func.attr in ('items', 'keys') \
                        and not c.args:
                    m = c.func.value
                dz = _dict_of_zip(m)
                if dz is not None:
                    out += list(dz)
                elif isinstance(c, ast.Call):
                    return None
                else:
                    out.append(c)
        return out or None

    def _digest_side(self, d, P):
        """sequences of names N such that d is the registry's digest of N[position]; None if d is no such digest"""
        k = registry_key(d)
        if k is None:
            ex = self.expanded(d)
            if ex and len(ex) == 1:
                k = registry_key(ex[0])
        if k is not None:
            return self.bases(k, P)
        out = []
        for s in self.bases(d, P) or [None]:
            # a member of `[registry digest of n for n in N]`
            if isinstance(s, (ast.ListComp, ast.GeneratorExp)) and len(s.generators) == 1 and not s.generators[0].ifs \
                    and isinstance(s.generators[0].target, ast.Name):
                k2 = registry_key(s.elt)
                if isinstance(k2, ast.Name) and k2.id == s.generators[0].target.id:
                    out.append(s.generators[0].iter)
                    continue
            return None
        return out

    def is_match(self, cmp, P) -> bool:
        """resolved comparison of the registry's digest for the pair's name with the pair's stored hash"""
        if P is None or len(cmp.ops) != 1:
            return False
        a, b = cmp.left, cmp.comparators[0]
        for d, h in ((a, b), (b, a)):
            ns = self._digest_side(d, P)
            hs = self.bases(h, P) if ns else None
            if ns and hs and all(self.stored_attr(s) == 'fieldset_names' for s in ns) and \
                    all(self.stored_attr(s) == 'fieldset_hashes' for s in hs):
                return True
        return False

    @staticmethod
    def is_force(e) -> bool:
        if isinstance(e, ast.Attribute) and e.attr == _FORCE:
            return True
        if isinstance(e, ast.Call) and call_name(e) == 'getattr' and len(e.args) >= 2 \
                and isinstance(e.args[1], ast.Constant) and e.args[1].value == _FORCE:
            return len(e.args) == 2 or (isinstance(e.args[2], ast.Constant) and not e.args[2].value)
        return False

    # -- "this test, with this outcome, means: no mismatch here, or forced" ---
    def _comp_pairs(self, comp):
        if not isinstance(comp, (ast.ListComp, ast.SetComp, ast.GeneratorExp, ast.DictComp)) or len(comp.generators) != 1:
            return None
        g = comp.generators[0]
        P = _Pairs(g.target, [g.iter], getattr(comp, 'lineno', 0), True)
        dr = self.drivers(P)
        if dr is None or not all(self.whole(s) for s in dr):
            return None
        return P

    def _generator_as_comp(self, c):
        """the generator expression a call of a resolved generator function stands for, when the function is one
        loop that yields under one condition: `for t in IT: if C: yield E` -> `(E for t in IT if C)`, parameters
        replaced by the arguments of the call"""
        if not isinstance(c, ast.Call):
            return None
        if isinstance(c.func, ast.Name) and '@' in c.func.id:
            c = _rebuild(c, {id(c.func): ast.Name(id=c.func.id.split('@')[0], ctx=ast.Load())})
        callee = resolve_call(self.prog, self.fi, c)
        if callee is None or not isinstance(callee.node, ast.FunctionDef):
            return None
        body = [s for s in callee.node.body if not (isinstance(s, ast.Expr) and isinstance(s.value, ast.Constant))]
        if len(body) != 1 or not isinstance(body[0], ast.For) or body[0].orelse:
            return None
        lp, ifs, inner = body[0], [], body[0].body
        while len(inner) == 1 and isinstance(inner[0], ast.If) and not inner[0].orelse:
            ifs.append(inner[0].test)
            inner = inner[0].body
        if not (len(inner) == 1 and isinstance(inner[0], ast.Expr) and isinstance(inner[0].value, ast.Yield)
                and inner[0].value.value is not None):
            return None
        ps = callee.params
        binds, off = {}, 0
        if ps[:1] in (['self'], ['cls']) and isinstance(c.func, ast.Attribute) and \
                not any('staticmethod' in d for d in callee.decorators()):
            binds[ps[0]], off = c.func.value, 1
        if any(isinstance(a, ast.Starred) for a in c.args) or any(k.arg is None for k in c.keywords):
            return None
        binds.update(zip(ps[off:], c.args))
        binds.update({k.arg: k.value for k in c.keywords})
        comp = ast.GeneratorExp(elt=inner[0].value.value, generators=[
            ast.comprehension(target=lp.target, iter=lp.iter, ifs=ifs, is_async=0)])
        comp = ast.copy_location(comp, lp)
        own = names_of_target(lp.target)
        return _rebuild(comp, {id(x): binds[x.id] for x in ast.walk(comp)
                               if isinstance(x, ast.Name) and x.id in binds and x.id not in own})

    def _none_left(self, m, gen_ok=False) -> bool:
        """m collects the pairs that failed (a filtered comprehension over all pairs): empty means none failed"""
        while isinstance(m, ast.Call) and call_name(m) in _COLLECT and len(m.args) == 1:
            m, gen_ok = m.args[0], True
        g = self._generator_as_comp(m)
        if g is not None:
            m, gen_ok = g, True
        if isinstance(m, ast.GeneratorExp) and not gen_ok:
            return False
        P = self._comp_pairs(m)
        if P is None:
            return False
        ifs = m.generators[0].ifs
        return bool(ifs) and all(self.holds(t, False, None, P, 'any', True) for t in ifs)

    def holds(self, e, pol, at, P, want='any', resolved=False, depth=0) -> bool:
        """e having truth value pol implies: the pair of the current pass of P matches or the force flag is set
        (want='force': the force flag is set); outside a loop (P None): no pair mismatched, or forced"""
        if depth == 0 and not resolved:
            k = (id(e), pol, id(P), want)
            if k not in self._hold:
                self._hold[k] = self._holds(e, pol, at, P, want, resolved, 1)
            return self._hold[k]
        return self._holds(e, pol, at, P, want, resolved, depth)

    def _holds(self, e, pol, at, P, want, resolved, depth) -> bool:
        if depth > 10 or e is None:
            return False
        if isinstance(e, ast.UnaryOp) and isinstance(e.op, ast.Not):
            return self._holds(e.operand, not pol, at, P, want, resolved, depth + 1)
        if isinstance(e, ast.BoolOp):
            rs = [self._holds(v, pol, at, P, want, resolved, depth + 1) for v in e.values]
            return any(rs) if isinstance(e.op, ast.And) == pol else all(rs)
        em = _emptiness(e)
        if em is not None and want == 'any':
            X, falsy = em[0], pol == em[1]
            if not resolved and isinstance(X, ast.Name) and X.id in self.recorders:
                lp, sense = self.recorders[X.id]
                if getattr(at, 'lineno', 0) > (lp.end_lineno or 1 << 30) and falsy == sense:
                    return True
            if falsy:
                xs = [X] if resolved else (self.res(X, at) if at is not None else [])
                gen_ok = X is not e and isinstance(e, ast.Compare) and isinstance(e.left, ast.Call) \
                    and call_name(e.left) == 'next'
                if xs and all(self._none_left(x, gen_ok) or (P is None and self.stored_attr(x) in _STORED) for x in xs):
                    return True
        if not resolved:
            alts = self.res(e, at) if at is not None else []
            return bool(alts) and all(self._holds(a, pol, at, P, want, True, depth + 1) for a in alts)
        if isinstance(e, ast.Constant):
            return bool(e.value) is not pol      # this outcome cannot happen
        if self.is_force(e):
            return pol
        if isinstance(e, ast.Call) and call_name(e) == 'bool' and len(e.args) == 1:
            return self._holds(e.args[0], pol, at, P, want, True, depth + 1)
        if isinstance(e, ast.Compare) and len(e.ops) == 1:
            op, l, r = e.ops[0], e.left, e.comparators[0]
            eq = isinstance(op, (ast.Eq, ast.Is))
            if not eq and not isinstance(op, (ast.NotEq, ast.IsNot)):
                return False
            if isinstance(r, ast.Constant) and isinstance(r.value, bool):
                return self._holds(l, pol if eq == r.value else not pol, at, P, want, True, depth + 1)
            if self.is_match(e, P):
                # understood, whatever it implies here
                self.acc.seen_compare.add(_site(e))
                return want == 'any' and eq == pol
            return False
        if isinstance(e, ast.Call) and call_name(e) in ('any', 'all') and len(e.args) == 1 and not e.keywords:
            g = e.args[0]
            Pc = self._comp_pairs(g)
            if Pc is None or want != 'any' or isinstance(g, ast.DictComp) or (call_name(e) == 'all') != pol:
                return False
            return self._holds(g.elt, pol, None, Pc, want, True, depth + 1) and \
                all(self._holds(t, False, None, Pc, want, True, depth + 1) for t in g.generators[0].ifs)
        ex = self.expanded(e)
        if ex:
            return all(self._holds(x, pol, at, P, want, True, depth + 1) for x in ex)
        return False

    # -- the check loop -----------------------------------------------------
    def _gate_compares(self, lp, P):
        """comparisons in the body of lp (not in a loop nested in it) that involve a registry digest or the stored
        hash of the current pass"""
        out = []
        for s in lp.body:
            for x in walk_no_nested(s):
                if not (isinstance(x, ast.Compare) and len(x.ops) == 1 and
                        isinstance(x.ops[0], (ast.Eq, ast.NotEq, ast.Is, ast.IsNot))):
                    continue
                if any(isinstance(a, (ast.For, ast.AsyncFor, ast.While)) and a is not lp and is_within(a, lp)
                       for a in ancestors(x)):
                    continue
                alts = self.res(x, stmt_of(x))
                if _mentions_digest(x) or any(_mentions_digest(a) for a in alts):
                    out.append(x)
                    continue
                for a in alts:
                    if not isinstance(a, ast.Compare):
                        continue
                    for side in (a.left, a.comparators[0]):
                        bs = self.bases(side, P)
                        if bs and any(self.stored_attr(b) == 'fieldset_hashes' for b in bs):
                            out.append(x)
                            break
                    else:
                        continue
                    break
        return out

    def _hands_pairs_on(self, lp, P) -> bool:
        """lp runs over the stored names and hashes and gives both members of the pair to a resolved helper"""
        dr = self.drivers(P)
        if not dr or {self.stored_attr(s) for s in dr} != set(_STORED):
            return False
        for c in calls_in(lp):
            callee = resolve_call(self.prog, self.fi, c)
            if callee is None:
                continue
            got = set()
            for a in list(c.args) + [k.value for k in c.keywords]:
                for x in self.res(a, stmt_of(c)):
                    for b in self.bases(x, P) or []:
                        got.add(self.stored_attr(b))
            # both members, or one of them to a helper that deals with digests (the other may be the mistake)
            if got >= set(_STORED) or (got & set(_STORED) and any(
                    _mentions_digest(f.node) for f in _callee_closure(self.prog, callee, 2))):
                return True
        return False

    def _recording(self, lp):
        """{local: statements of the loop body that record into it}: `x = …`, `x += …`, `x[k] = …`, `x.append(…)`"""
        rec = {}
        own = names_of_target(lp.target)
        for s in walk_no_nested(lp):
            if s is lp or not isinstance(s, ast.stmt):
                continue
            tg = [t for t, stx, how in stores_to(s) if stx is s and how in ('assign', 'aug', 'ann')]
            if isinstance(s, ast.Expr) and isinstance(s.value, ast.Call) and isinstance(s.value.func, ast.Attribute) \
                    and s.value.func.attr in ('append', 'add', 'extend', 'update', 'insert', 'setdefault'):
                tg.append(s.value.func.value)
            for t in tg:
                while isinstance(t, (ast.Subscript, ast.Attribute)):
                    t = t.value
                if isinstance(t, ast.Name) and t.id not in own and t.id != 'self':
                    rec.setdefault(t.id, []).append(s)
        return rec

    def _recorder_init(self, lp, name, marks):
        """truthy-means-mismatch sense of a flag / collection initialised before the loop, else None"""
        outside = [s for s in local_defs(self.fn, name) if not is_within(s, lp)]
        if len(outside) != 1 or outside[0].lineno > lp.lineno or not isinstance(outside[0], (ast.Assign, ast.AnnAssign)):
            return None
        v = outside[0].value
        if not any(isinstance(x, ast.Name) and x.id == name and x.lineno > (lp.end_lineno or 0)
                   for x in walk_no_nested(self.fn)):
            return None
        if _is_empty_container(v) or (isinstance(v, ast.Constant) and v.value in (False, 0)):
            if any(isinstance(s, ast.Assign) and isinstance(s.value, ast.Constant) and not s.value.value for s in marks):
                return None
            return True
        if isinstance(v, ast.Constant) and v.value is True:
            if all(isinstance(s, ast.Assign) and isinstance(s.value, ast.Constant) and s.value.value is False
                   for s in marks):
                return False
        return None

    def loop(self, lp, P, cmps):
        """'ok': every pass that does not raise has found the pair's digests equal or the force flag set, a pass that
        ends the loop early the force flag; the passes are all (name, hash) pairs of the file.  'deferred': a pass
        that found neither has recorded it in a flag / collection that a later test consults."""
        fi, acc = self.fi, self.acc
        for c in cmps:
            acc.seen_compare.add(_site(c))
        for x in walk_no_nested(lp):
            if isinstance(x, (ast.Continue, ast.Break, ast.Return, ast.Raise)):
                for a in ancestors(x):
                    if a is lp:
                        break
                    if isinstance(a, (ast.Try, ast.Match, ast.While)) or (
                            isinstance(a, (ast.For, ast.AsyncFor)) and isinstance(x, (ast.Return, ast.Raise))):
                        acc.unknown.append((fi, lp.lineno, f'`{norm(x)[:40]}` inside a {type(a).__name__.lower()} '
                                            'statement of the check loop is not followed'))
                        return 'unknown'
        dr = self.drivers(P)
        if dr is None:
            acc.unknown.append((fi, lp.lineno, f'what the check loop runs over is not understood: {norm(lp.iter)[:60]}'))
            return 'unknown'
        if not all(self.whole(s) for s in dr):
            over = f'the check loop runs over `{untag(norm(lp.iter))[:70]}`'
            if any(not _plain_iter(s) and self.stored_attr(_strip_slices(s)) in _STORED for s in dr) or \
                    not _plain_iter(lp.iter):
                acc.partial.append((fi, lp.lineno, over + ': not every (name, hash) pair of the file'))
                return 'fault'
            acc.unknown.append((fi, lp.lineno, over + ", not recognised as the file's stored names and hashes"))
            return 'unknown'

        # statements of the body that hand the pair to a resolved helper which itself compares (or refuses)
        settled = [s for s in walk_no_nested(lp) if isinstance(s, (ast.Expr, ast.Assign, ast.AnnAssign))
                   and self._helper_done(s, P)]
        via_helper = None
        if settled:
            via_helper = iteration_paths(lp.body, lambda s: any(s is q for q in settled), (ast.Raise,))

        def classify(marks):
            paths = iteration_paths(lp.body, lambda s: any(s is q for q in marks), (ast.Raise,))
            if paths is None:
                return None
            silent = early = None
            rec_bad = rec_good = False
            for i, (kind, visited, conds) in enumerate(paths):
                if kind == 'abort':
                    continue
                if kind == 'next' and via_helper is not None and i < len(via_helper) and via_helper[i][1]:
                    continue        # same way through the body (the enumeration is deterministic), settled by the helper
                if any(self.holds(t, p, stmt_of(t), P, 'force' if kind == 'leave' else 'any') for t, p in conds):
                    rec_good = rec_good or visited
                elif visited:
                    rec_bad = True
                elif kind == 'leave':
                    early = conds
                else:
                    silent = conds
            return silent, early, rec_bad, rec_good
        r0 = classify([])
        if r0 is None:
            acc.unknown.append((fi, lp.lineno, 'too many ways through the check loop'))
            return 'unknown'
        silent, early = r0[0], r0[1]
        if silent is None and early is None:
            acc.verified.append((fi, lp.lineno, untag(norm(lp.iter))))
            return 'ok'
        recs = self._recording(lp)
        cands = [(r, self._recorder_init(lp, r, recs[r])) for r in sorted(recs)]
        cands = [(r, s) for r, s in cands if s is not None]
        for r, sense in cands:
            rr = classify(recs[r])
            if rr is not None and rr[0] is None and rr[1] is None and not rr[3]:
                self.recorders[r] = (lp, sense)
                return 'deferred'
        if cands:
            acc.unknown.append((fi, lp.lineno, f'the check loop records into `{cands[0][0]}` in a form that is not analysed'))
            return 'unknown'
        conds = silent if silent is not None else early
        how = ' and '.join(f'`{untag(norm(t))[:60]}` is {p}' for t, p in conds)
        how = 'when ' + how if how else 'on every pass'
        if silent is not None:
            acc.faults.append((fi, lp.lineno, 'a pass of the check loop goes on without having found the registry\'s '
                               f'digest equal to the stored one or the force flag set ({how}): a file whose '
                               'definition differs opens silently'))
        else:
            acc.faults.append((fi, lp.lineno, f'the check loop ends before the last pair without the force flag '
                               f'({how}): the later pairs are never compared'))
        return 'fault'

    def loop_over_failed(self, lp):
        """lp runs over the pairs that failed the comparison (nothing to do when there is none): 'ok' when every
        pass that does not raise has met the force flag"""
        if any(isinstance(x, (ast.Continue, ast.Break, ast.Return, ast.Raise)) and any(
                isinstance(a, (ast.Try, ast.Match, ast.While, ast.For)) and a is not lp and is_within(a, lp)
                for a in ancestors(x)) for x in walk_no_nested(lp)):
            self.acc.unknown.append((self.fi, lp.lineno, 'an exit buried in the loop over the mismatching pairs is not followed'))
            return 'unknown'
        paths = iteration_paths(lp.body, lambda s: False, (ast.Raise,))
        if paths is None:
            self.acc.unknown.append((self.fi, lp.lineno, 'too many ways through the loop over the mismatching pairs'))
            return 'unknown'
        for kind, visited, conds in paths:
            if kind != 'abort' and not any(self.holds(t, p, stmt_of(t), None, 'force') for t, p in conds):
                how = ' and '.join(f'`{untag(norm(t))[:60]}` is {p}' for t, p in conds)
                self.acc.faults.append((self.fi, lp.lineno, 'a pair whose digests differ is let through without the '
                                        f'force flag ({"when " + how if how else "on every pass"}): a file whose '
                                        'definition differs opens silently'))
                return 'fault'
        self.acc.verified.append((self.fi, lp.lineno, untag(norm(lp.iter))))
        return 'ok'

    # -- the function -------------------------------------------------------
    def _worth(self, callee) -> bool:
        k = (callee.file, callee.qualname)
        if k not in self.acc.closure:
            self.acc.closure[k] = any(_mentions_digest(f.node) or any(
                self.is_force(x) or isinstance(x, ast.Raise) for x in ast.walk(f.node))
                for f in _callee_closure(self.prog, callee, 2))
        return self.acc.closure[k]

    def _helper_done(self, s, P=None) -> bool:
        """statement s calls (unconditionally) a resolved helper every normal exit of which is `done` - for the pair
        of the current pass of P when the call is made inside a check loop"""
        P = P or self.P0
        if self.depth >= 3 or isinstance(s, (ast.If, ast.For, ast.AsyncFor, ast.While, ast.With, ast.AsyncWith, ast.Try,
                                             ast.Match, ast.FunctionDef, ast.AsyncFunctionDef, ast.ClassDef)):
            return False
        for c in calls_in(s):
            if guards_of(c, stop=s) or any(
                    isinstance(a, (ast.ListComp, ast.SetComp, ast.DictComp, ast.GeneratorExp, ast.Lambda))
                    for a in ancestors(c) if is_within(a, s)):
                continue
            callee = resolve_call(self.prog, self.fi, c)
            if callee is None or callee.node is self.fn or not isinstance(callee.node, (ast.FunctionDef, ast.AsyncFunctionDef)) \
                    or not self._worth(callee):
                continue
            binds = self._bind(callee, c, s)
            if binds is None:
                continue
            key = (callee.file, callee.qualname, id(P),
                   tuple(sorted((k, tuple(norm(x) for x in v)) for k, v in binds.items())))
            if key not in self.acc.cache:
                self.acc.cache[key] = False      # recursion guard
                self.acc.cache[key] = _Gate(self.prog, callee, binds, self.acc, self.depth + 1, P).exit_done()
            if self.acc.cache[key]:
                return True
        return False

    def _bind(self, callee, c, at):
        if any(isinstance(a, ast.Starred) for a in c.args) or any(k.arg is None for k in c.keywords):
            return None
        ps = callee.params
        raw, binds, off = {}, {}, 0
        if ps[:1] in (['self'], ['cls']) and isinstance(c.func, ast.Attribute) and \
                not any('staticmethod' in d for d in callee.decorators()):
            raw[ps[0]] = c.func.value
            off = 1
        for p, a in zip(ps[off:], c.args):
            raw[p] = a
        for k in c.keywords:
            raw[k.arg] = k.value
        for p in ps:
            if p not in raw:
                d = _default_of(callee, p)
                if d is not None:
                    binds[p] = [d]
        for p, a in raw.items():
            alts = []
            for x in self.res(a, at):
                ex = self.expanded(x) if isinstance(x, ast.Call) else None
                alts += ex if ex else [x]
            binds[p] = alts[:Flow.CAP]
        return binds

    def flow(self):
        cache = {}

        def transfer(node, st):
            s = node.stmt
            if st or s is None:
                return st
            if node.kind == 'join' and self.loops.get(id(s)) == 'ok':
                return True
            if node.kind == 'stmt':
                if isinstance(s, ast.Return) and any(self.loops.get(id(a)) == 'ok' for a in ancestors(s)):
                    return True
                if id(s) not in cache:
                    cache[id(s)] = self._helper_done(s)
                return cache[id(s)]
            return st

        def branch(node, lab, val):
            if val or node.kind != 'test':
                return val
            return self.holds(node.stmt.test, lab == 't', node.stmt, self.P0)
        return self.cfg.forward(False, transfer, lambda a, b: a and b, branch_transfer=branch)[0]

    def exit_done(self) -> bool:
        return bool(self.flow().get(self.cfg.exit, False))


def _strip_slices(e):
    while isinstance(e, ast.Subscript) and isinstance(e.slice, ast.Slice):
        e = e.value
    return e


def _callee_closure(prog, fi, depth):
    out, seen = [], set()

    def go(f, d):
        if id(f.node) in seen or d > depth:
            return
        seen.add(id(f.node))
        out.append(f)
        for c in calls_in(f.node):
            cal = resolve_call(prog, f, c)
            if cal is not None and isinstance(cal.node, (ast.FunctionDef, ast.AsyncFunctionDef)) \
                    and cal.file.endswith((STORE, FS)):
                go(cal, d + 1)
    go(fi, 0)
    return out


def rule_hash_gate(ctx, m):
    """R5.  For each function that opens an existing file: on every way from the entry to a `return` of a value
    (the NcFiles description), each stored digest has been compared with the registry's digest for the same name
    and a mismatch has raised - or, only under force_fieldset_matches, has been let through."""
    prog = ctx.prog
    for qn in ('TrajectoryStore._open_nc_file', 'TrajectoryStore._open_merged_store'):
        fi = m.func(qn)
        acc = _GateAcc()
        gate = _Gate(prog, fi, {}, acc)
        ins = gate.flow()
        g = gate.cfg
        rets = [n for n in g.nodes if n.kind == 'stmt' and isinstance(n.stmt, ast.Return) and n.stmt.value is not None
                and not (isinstance(n.stmt.value, ast.Constant) and n.stmt.value.value is None) and n.id in ins]
        builds = 0
        for n in rets:
            for v in gate.fl.alts(n.stmt.value, n.stmt):
                if any(isinstance(x, ast.Call) and getattr(resolve_class_call(prog, fi, x), 'name', '') == 'NcFiles'
                       for x in [v] + (gate.expanded(v) or [])):
                    builds += 1
                    break
        if not builds:
            ctx.undecided('C03-R5', fi, 'NcFiles return', 'no return of a file description (NcFiles) found')
            continue
        open_rets = [n for n in rets if not ins[n.id]]
        if not open_rets:
            where = '; '.join(f'{f_.name}:{ln} over {t}' for f_, ln, t in acc.verified) or 'a test that implies it'
            ctx.ob('C03-R5', fi, 'digest comparison refuses a mismatch', True,
                   f'each pair\'s digests are found equal, or the force flag set, or the open is refused ({where})')
            ctx.ob('C03-R5', fi, 'NcFiles returned only after the digest gate', True,
                   f'{len(rets)} return(s); the gate has been passed on every way there, handlers included')
            ctx.ob('C03-R5', fi, 'every stored field-set hash is compared', True,
                   'the gate runs over the stored names and hashes as a whole', nontrivial=False)
            continue
        bad = open_rets[0]
        # digest comparisons that no analysed construct accounts for
        loose = []
        for f in _callee_closure(prog, fi, 3):
            fl_ = gate.fl if f is fi else Flow(prog, f)
            for x in walk_no_nested(f.node):
                if isinstance(x, ast.Compare) and _site(x) not in acc.seen_compare and (
                        _mentions_digest(x) or any(_mentions_digest(a) for a in fl_.alts(x, stmt_of(x)))):
                    loose.append((f, x))
        if acc.faults:
            f_, ln, why = acc.faults[0]
            ctx.ob('C03-R5', f_, 'digest comparison refuses a mismatch', False, f'(gate of {fi.name}) {why}', line=ln)
        elif acc.partial:
            f_, ln, why = acc.partial[0]
            ctx.ob('C03-R5', f_, 'every stored field-set hash is compared', False, f'(gate of {fi.name}) {why}', line=ln)
        elif acc.unknown:
            f_, ln, why = acc.unknown[0]
            ctx.undecided('C03-R5', fi, 'digest gate', f'{f_.name}:{ln}: {why}')
        elif loose:
            f_, x = loose[0]
            ctx.undecided('C03-R5', fi, 'digest gate',
                          f'{f_.name}:{x.lineno}: `{norm(x)[:60]}` compares a digest in a form that is not analysed')
        elif acc.seen_compare:
            path = g.find_path(g.entry, bad.id, edge_ok=lambda a, b, lab: not ins.get(b, False))
            ctx.ob('C03-R5', fi, 'NcFiles returned only after the digest gate', False,
                   'a path returns the file description without passing the digest comparison', line=bad.line,
                   path=[g.nodes[i].text() for i in (path or []) if g.nodes[i].stmt is not None][-12:])
        else:
            ctx.ob('C03-R5', fi, 'digest comparison refuses a mismatch', False,
                   'no comparison of the stored digests with the registry\'s on the way to the return: any file '
                   'opens under any definition', line=bad.line)


# ---------------------------------------------------------------- R6 -----
def variable_params(fi):
    """(names of the parameters that are the NetCDF variable, names that are the record index) of a writer / reader
    function or of a method its dispatch hands over to"""
    a = fi.node.args
    vn, inn = set(), set()
    for x in a.posonlyargs + a.args + a.kwonlyargs:
        ann = norm(x.annotation) if x.annotation is not None else ''
        if x.arg == 'var' or 'Variable' in ann:
            vn.add(x.arg)
        if x.arg == 'index' or (x.arg.endswith('index') and ann in ('int', '')):
            inn.add(x.arg)
    if fi.qualname.count('.<locals>.'):
        # a closure of the writer / reader sees its variable and index
        vn.add('var')
        inn.add('index')
    # a helper the writer / reader hands its variable to (scopes_of): the parameters that receive them
    traced = getattr(fi.node, '_c03_roles', None)
    if traced:
        vn |= traced[0]
        inn |= traced[1]
    return vn, inn


def rule_index_use(ctx, m, arms=None):
    wr = m.func('TrajectoryStore._write_to_nc_var')
    rd = m.func('TrajectoryStore._read_from_nc_var')
    for role, top in (('writer', wr), ('reader', rd)):
        bad = []
        n_sub = 0
        fi = top
        for sc in scopes_of(top, arms, ctx.prog):
            vnames, inames = variable_params(sc)
            for n in ast.walk(sc.node):
                if isinstance(n, ast.Subscript) and isinstance(n.value, ast.Name) and n.value.id in vnames:
                    n_sub += 1
                    first = n.slice.elts[0] if isinstance(n.slice, ast.Tuple) else n.slice
                    if norm(first) not in inames:
                        bad.append(n)
        ctx.floor(f'C03-R6/{role}', n_sub, 1, f'{role} variable subscripts')
        ctx.ob('C03-R6', fi, f'{role}: {n_sub} variable accesses all at [index, …]', not bad,
               'record index used as given' if not bad else
               f'{role} accesses record {norm(bad[0])} instead of the record index it was given',
               line=(bad[0].lineno if bad else fi.node.lineno))

# ------------------------------------------------------- R6 / R1d flow ----
_SEQ = ('list', 'tuple', 'sorted', 'iter', 'reversed')


def _strip_seq(e):
    """X for `X or []`, `list(X)`, `X if X is not None else []`, `X if X else ()`"""
    while True:
        if isinstance(e, ast.BoolOp) and isinstance(e.op, ast.Or) and all(_is_empty_container(v) or (
                isinstance(v, ast.Tuple) and not v.elts) for v in e.values[1:]):
            e = e.values[0]
        elif isinstance(e, ast.Call) and call_name(e) in ('list', 'tuple') and len(e.args) == 1 and not e.keywords:
            e = e.args[0]
        elif isinstance(e, ast.IfExp) and (_is_empty_container(e.orelse) or
                                           (isinstance(e.orelse, ast.Tuple) and not e.orelse.elts)) \
                and any(norm(x) == norm(e.body) for x in ast.walk(e.test)):
            e = e.body
        else:
            return e


def peel_attr(e, attr):
    """X for `X.attr`"""
    return e.value if isinstance(e, ast.Attribute) and e.attr == attr else None


def peel_item(e):
    """(M, K) for `M[K]`, `M.get(K)`, `M.__getitem__(K)`"""
    if isinstance(e, ast.Subscript) and not isinstance(e.slice, ast.Slice):
        return e.value, e.slice
    if isinstance(e, ast.Call) and isinstance(e.func, ast.Attribute) and e.func.attr in ('get', '__getitem__') \
            and len(e.args) == 1 and not e.keywords:
        return e.func.value, e.args[0]
    return None


def peel_variable(e):
    """(file F, field-set name N, variable name K) for `F.groups[N][i].variables[K]`"""
    it = peel_item(e)
    if it is None:
        return None
    g = peel_attr(it[0], 'variables')
    if g is None:
        return None
    gi = peel_item(g)
    if gi is None:
        return None
    gn = peel_item(gi[0])
    if gn is None:
        return None
    f = peel_attr(gn[0], 'groups')
    if f is None:
        return None
    return f, gn[1], it[1]


def canon_key(e):
    """K for `X.variables[K].name`: a NetCDF variable is registered under its own name"""
    if isinstance(e, ast.Attribute) and e.attr == 'name':
        it = peel_item(e.value)
        if it is not None and peel_attr(it[0], 'variables') is not None:
            return it[1]
    return e


def _with_expansion(fl, alts, peel):
    """peel every alternative; an alternative that is a resolved helper call / property read and does not peel as
    written is replaced by what the helper returns.  -> (list of peeled, first alternative that did not peel)"""
    out = []
    for x in alts:
        r = peel(x)
        if r is None:
            ex = fl.expand(x)
            if ex:
                rs = [peel(y) for y in ex if not (isinstance(y, ast.Constant) and y.value is None)]
                if rs and all(q is not None for q in rs):
                    out += rs
                    continue
            return out, x
        out.append(r)
    return out, None


def loop_conditions(stmt, top, aborting):
    """In one pass of the loop `top`, when does `stmt` run?  keep: [(test, polarity)] - enclosing ifs and earlier
    guard clauses that pass over the item (`continue`); leave: [(test, polarity, node)] - earlier guard clauses
    that end the loop for all later items (`break`, and `return` where a return is not an abort of the whole
    operation); cx: an exit buried in a form not analysed.  Guard clauses whose last statement is of a type in
    `aborting` stop everything and are no condition on the item."""
    keep, leave, cx = [], [], False

    def exits(nodes):
        for q in nodes:
            st = [q]
            while st:
                x = st.pop()
                if isinstance(x, (ast.FunctionDef, ast.AsyncFunctionDef, ast.ClassDef, ast.Lambda)):
                    continue
                if isinstance(x, ast.Return) and ast.Return not in aborting:
                    return True
                if isinstance(x, (ast.Continue, ast.Break)):
                    return True
                for ch in ast.iter_child_nodes(x):
                    if isinstance(x, (ast.For, ast.AsyncFor, ast.While)) and isinstance(ch, ast.stmt):
                        # continue/break inside a nested loop belong to that loop; a return does not
                        if ast.Return not in aborting and any(isinstance(y, ast.Return) for y in walk_no_nested(ch)):
                            return True
                        continue
                    st.append(ch)
        return False
    child = stmt
    for a in ancestors(stmt):
        blk = _block_of(a, child)
        if blk is None and isinstance(a, ast.match_case) and any(x is child for x in a.body):
            blk = a.body
            cx = True
        if isinstance(a, ast.If) and blk is not None:
            keep.append((a.test, blk is a.body))
        elif isinstance(a, ast.While) and blk is a.body and a is not top:
            keep.append((a.test, True))
        elif isinstance(a, ast.Try) and blk is not a.body and blk is not a.finalbody:
            cx = True
        if blk is not None:
            for p in blk[:next(i for i, x in enumerate(blk) if x is child)]:
                inner = [p]
                if isinstance(p, ast.If):
                    be, oe = _ends(p.body), bool(p.orelse) and _ends(p.orelse)
                    if be != oe:
                        ending, pol = (p.body, True) if be else (p.orelse, False)
                        last = last_stmt(ending)
                        while isinstance(last, (ast.If, ast.With)):
                            last = None     # compound tail: not analysed
                        if last is None:
                            cx = True
                        elif isinstance(last, tuple(aborting)):
                            pass
                        elif isinstance(last, ast.Continue):
                            keep.append((p.test, not pol))
                        else:
                            leave.append((p.test, pol, p))
                        inner = (p.body[:-1] + p.orelse) if be else (p.body + p.orelse[:-1])
                    elif be and oe:
                        cx = True
                if exits(inner):
                    cx = True
        if a is top or isinstance(a, (ast.FunctionDef, ast.AsyncFunctionDef)):
            break
        child = a
    return keep, leave, cx


class Iteration:
    """a `for` statement or one clause of a comprehension"""

    def __init__(self, owner, target, it):
        self.owner, self.target, self.iter = owner, target, it
        self.lineno = owner.lineno
        self.is_comp = not isinstance(owner, ast.stmt)
        self.stmt = stmt_of(owner) if self.is_comp else owner
        self.ifs = [i for g in owner.generators if g.target is target for i in g.ifs] if self.is_comp else []

    def contains(self, n):
        return is_within(n, self.owner)


def _loop_of_key(fn, key):
    """the iteration (For statement or comprehension clause) that binds the loop key `name@line`"""
    if not (isinstance(key, ast.Name) and '@' in key.id):
        return None
    nm, line = key.id.rsplit('@', 1)
    for x in walk_no_nested(fn):
        if isinstance(x, (ast.For, ast.AsyncFor)) and str(x.lineno) == line and (nm == '?' or nm in names_of_target(x.target)):
            return Iteration(x, x.target, x.iter)
        if isinstance(x, (ast.ListComp, ast.SetComp, ast.DictComp, ast.GeneratorExp)) and str(x.lineno) == line:
            for g in x.generators:
                if nm in names_of_target(g.target) or (nm == '?' and map_iteration(g.target, g.iter) is not None
                                                       and map_iteration(g.target, g.iter)[1] is None):
                    return Iteration(x, g.target, g.iter)
    return None


def visit_conditions(n, st, outer, aborting):
    """keep / leave / cx (see loop_conditions) for expression n of statement st relative to the outermost iteration
    `outer`: the statement-level conditions inside a `for` statement plus the conditional expressions, short-circuit
    operands and comprehension `if`s between n and its statement"""
    keep = [(t, pol) for t, pol, _ in guards_of(n, stop=st)] if n is not st else []
    leave, cx = [], False
    if not outer.is_comp:
        k2, leave, cx = loop_conditions(st, outer.owner, aborting)
        keep += k2
    return keep, leave, cx


def iteration_paths(body, visits, aborting, cap=3000):
    """Every way through one pass of a loop body, statement by statement: -> [(kind, visited, conditions)] with kind
    'abort' (the whole operation ends: a statement of a type in `aborting`), 'next' (the pass ends: end of body or
    `continue`), 'leave' (the loop ends for all later items: `break`, or `return` where that is no abort), and
    conditions the [(test, polarity)] taken on the way.  visited: a statement for which visits(stmt) holds was
    executed.  Locals bound to constants (`found = False`) are tracked, so that a flag set in one branch decides a
    later test on that path; every other test is followed both ways.  Nested loops and other compound statements
    are single steps (a `return`/`raise` buried in them is not followed).  None if there are more than `cap` ways."""
    out = []
    count = [0]

    class TooMany(Exception):
        pass

    def ev(e, env):
        if isinstance(e, ast.Constant):
            return bool(e.value)
        if isinstance(e, ast.Name):
            return bool(env[e.id]) if e.id in env else None
        if isinstance(e, ast.UnaryOp) and isinstance(e.op, ast.Not):
            v = ev(e.operand, env)
            return None if v is None else not v
        if isinstance(e, ast.BoolOp):
            vs = [ev(v, env) for v in e.values]
            if isinstance(e.op, ast.And):
                return False if any(v is False for v in vs) else (True if all(v is True for v in vs) else None)
            return True if any(v is True for v in vs) else (False if all(v is False for v in vs) else None)
        if isinstance(e, ast.Compare) and len(e.ops) == 1 and isinstance(e.left, ast.Name) and e.left.id in env \
                and isinstance(e.comparators[0], ast.Constant):
            a_, b_ = env[e.left.id], e.comparators[0].value
            op = e.ops[0]
            if isinstance(op, (ast.Is, ast.Eq)):
                return a_ is b_ if isinstance(op, ast.Is) else a_ == b_
            if isinstance(op, (ast.IsNot, ast.NotEq)):
                return a_ is not b_ if isinstance(op, ast.IsNot) else a_ != b_
        return None

    def run(stmts, env, visited, conds, k):
        """k: continuation called with (env, visited, conds) when the block falls through"""
        if not stmts:
            return k(env, visited, conds)
        s, rest = stmts[0], stmts[1:]
        count[0] += 1
        if count[0] > cap:
            raise TooMany()
        if isinstance(s, ast.If):
            v = ev(s.test, env)
            for pol, blk in ((True, s.body), (False, s.orelse)):
                if v is None or v is pol:
                    c2 = conds if v is not None else conds + [(s.test, pol)]
                    run(list(blk), dict(env), visited, c2, lambda e_, vi, co: run(rest, e_, vi, co, k))
            return
        if visits(s):
            visited = True
        if isinstance(s, tuple(aborting)):
            out.append(('abort', visited, conds))
            return
        if isinstance(s, ast.Continue):
            out.append(('next', visited, conds))
            return
        if isinstance(s, (ast.Break, ast.Return)):
            out.append(('leave', visited, conds))
            return
        if isinstance(s, (ast.With, ast.AsyncWith)):
            return run(list(s.body), env, visited, conds, lambda e_, vi, co: run(rest, e_, vi, co, k))
        if isinstance(s, (ast.Assign, ast.AnnAssign)) and getattr(s, 'value', None) is not None:
            tg = s.targets if isinstance(s, ast.Assign) else [s.target]
            for t in tg:
                for nm in names_of_target(t):
                    env.pop(nm, None)
                if isinstance(t, ast.Name) and isinstance(s.value, ast.Constant):
                    env[t.id] = s.value.value
                elif isinstance(t, (ast.Tuple, ast.List)) and isinstance(s.value, (ast.Tuple, ast.List)) \
                        and len(t.elts) == len(s.value.elts):
                    for a_, b_ in zip(t.elts, s.value.elts):
                        if isinstance(a_, ast.Name) and isinstance(b_, ast.Constant):
                            env[a_.id] = b_.value
        else:
            for t, stx, how in stores_to(s):
                for nm in names_of_target(t) if isinstance(t, (ast.Name, ast.Tuple, ast.List)) else ():
                    env.pop(nm, None)
        return run(rest, env, visited, conds, k)

    try:
        run(list(body), {}, False, [], lambda e_, vi, co: out.append(('next', vi, co)))
    except TooMany:
        return None
    except RecursionError:
        return None
    return out


def skip_verdict(fn, conds, itemvars, varg, value_ok):
    """conds hold on a way through a loop body that passes an item over.  -> (restrictions, not understood): empty
    restrictions when the item-dependent conditions are none, or (value_ok) include "the value is unset"."""
    cats = [cp for e, pol in conds for cp in categorise_fact(fn, e, pol, itemvars, varg)]
    if value_ok and ('value', False) in cats:
        return [], []
    restr = [(c_, p_) for c_, p_ in cats if c_ != 'global' and not c_.startswith('other:')]
    und = [c_ for c_, p_ in cats if c_.startswith('other:')]
    return restr, und


def filter_verdict(fn, keep, itemvars, varg, value_ok):
    """Which of the conditions under which an item is visited restrict the visit to some items?
    keep: [(test, polarity)].  A condition that splits into atomic facts is judged fact by fact; one that does not
    (what is left of `if a and b: continue`) is judged through its negation, the conjunction under which the item is
    passed over: a skip that needs the value to be unset only passes over unset values (allowed for the writer).
    -> (restrictions [(category, polarity)], conditions not understood [text])"""
    restr, und = [], []
    for e, pol in keep:
        cats = categorise_fact(fn, e, pol, itemvars, varg)
        if any(c_.startswith('other:') for c_, p_ in cats):
            neg = categorise_fact(fn, e, not pol, itemvars, varg)
            if not any(c_.startswith('other:') for c_, p_ in neg):
                if value_ok and ('value', False) in neg:
                    continue
                # visited only where NOT (all of neg): each item-dependent conjunct, inverted, is a restriction
                restr += [(c_, not p_) for c_, p_ in neg if c_ != 'global']
                continue
        for c_, p_ in cats:
            if c_ == 'global' or (value_ok and (c_, p_) == ('value', True)):
                continue
            if c_.startswith('other:'):
                und.append(c_)
            else:
                restr.append((c_, p_))
    return restr, und


def _say_cat(c, p):
    kind, _, what = c.partition(':')
    return {'meta': f'`{what}` is {p}', 'dim': f'the field has {"a" if p else "no"} {what} dimension',
            'ident': f'`{what}` is {p}', 'value': 'a value is set' if p else 'no value is set'}.get(kind, c)


def rule_field_flow(ctx, m):
    """R6 (second half) and R1d, by value flow: for the call of the writer in `_write_data` and of the reader in
    `_load_trajectory`, every argument is resolved to what it denotes (Flow) and the rule compares *which* variable
    object, field definition, value and species list meet in the call, and which items the enclosing loops visit."""
    prog = ctx.prog
    wr = m.func('TrajectoryStore._write_to_nc_var')
    rd = m.func('TrajectoryStore._read_from_nc_var')
    for role, caller_q, callee in (('writer', 'TrajectoryStore._write_data', wr),
                                   ('reader', 'TrajectoryStore._load_trajectory', rd)):
        fi = m.func(caller_q)
        fl = Flow(prog, fi)
        calls = [c for c in calls_in(fi.node) if resolve_call(prog, fi, c) == callee or
                 call_name(c).endswith('.' + callee.name)]
        ctx.floor(f'C03-R1d/{callee.name}', len(calls), 1, f'call of {callee.name}')
        for c in calls:
            st = stmt_of(c)
            arg = {p_: _arg_for_param(callee, c, p_) for p_ in callee.params}
            vparam = callee.params[1] if len(callee.params) > 1 else None
            var = arg.get('var', arg.get(vparam))
            if var is None:
                ctx.undecided('C03-R1d', fi, norm(c)[:60], 'cannot tell which argument is the NetCDF variable')
            var_alts = fl.alts(var, st)
            vps, bad = _with_expansion(fl, var_alts, peel_variable)
            if bad is not None:
                ctx.undecided('C03-R1d', fi, untag(norm(bad))[:70], 'cannot tell which file and group the variable handed to '
                              f'{callee.name} belongs to')
            owners_var = sorted({norm(f) for f, n_, k in vps})
            # ---- R1d: species list of the same file object
            sp = arg.get('species')
            if sp is None:
                ctx.ob('C03-R1d', fi, f'{callee.name}: no species list passed', False,
                       'the file\'s own species list is not handed to the writer/reader', line=c.lineno)
            else:
                sp_alts = fl.alts(sp, st)
                # an object that wraps the list (Holder) stands for the list it was constructed over
                sps, bad = _with_expansion(fl, [_strip_seq(x) for x in sp_alts],
                                           lambda x: peel_attr(_strip_seq(seq_behind(prog, fi, x)), 'species'))
                if bad is not None:
                    ctx.undecided('C03-R1d', fi, untag(norm(bad))[:70], f'cannot tell whose species list is handed to {callee.name}')
                owners_sp = sorted({norm(x) for x in sps})
                ok = owners_sp == owners_var
                extra = ''
                if not ok:
                    for x in sp_alts:
                        ex = fl.expand(_strip_seq(x))
                        if ex:
                            extra = f' (`{untag(norm(_strip_seq(x)))}` yields ' + \
                                ' / '.join(sorted({untag(norm(y))[:60] for y in ex})) + ')'
                            break
                ctx.ob('C03-R1d', fi, f'{callee.name}: variable from `{untag(" | ".join(owners_var))[:60]}`, species list '
                       f'`{untag(norm(sp_alts[0]))[:60]}`', ok,
                       'species positions come from the file object that owns the variable' if ok else
                       (f'the species list passed to {callee.name} is `{untag(norm(sp_alts[0]))[:80]}`{extra}, not the `.species` of '
                        f'`{untag(" | ".join(owners_var))[:80]}`, the file that owns the variable: in a store split over base '
                        'and associated files the two lists differ (after reopening) and species values are written to / '
                        'read from the wrong slots or dropped'), line=c.lineno)
            # ---- R6: one name for variable, field definition, value; one field set for group and definitions
            keys = {'variable': {norm(canon_key(k)) for f, n_, k in vps}}
            fsnames = {'group': {norm(n_) for f, n_, k in vps}}
            if arg.get('name') is not None:
                keys['name argument'] = {norm(canon_key(x)) for x in fl.alts(arg['name'], st)}
            if arg.get('field') is not None:
                fps, bad = _with_expansion(fl, fl.alts(arg['field'], st), peel_item)
                if bad is not None:
                    ctx.undecided('C03-R6', fi, untag(norm(bad))[:70], 'cannot tell which field definition is handed to '
                                  f'{callee.name}')
                keys['field definition'] = {norm(canon_key(k)) for f_, k in fps}
                reg = set()
                for f_, k in fps:
                    while isinstance(f_, ast.Attribute) and f_.attr in ('fields', '_fields'):
                        f_ = f_.value
                    if isinstance(f_, ast.Call) and len(f_.args) == 1 and not f_.keywords:
                        reg.add(norm(f_.args[0]))       # FieldSet.from_registry(N), lookup(N)
                    elif peel_item(f_) is not None:
                        reg.add(norm(peel_item(f_)[1]))     # a table of field sets indexed by N
                    else:
                        ctx.undecided('C03-R6', fi, untag(norm(f_))[:70], 'cannot tell which field set the field definitions '
                                      'belong to')
                fsnames['field definitions'] = reg
            srcs = set()
            if role == 'writer':
                val = arg.get('val')
                if val is None:
                    ctx.undecided('C03-R6', fi, norm(c)[:60], 'cannot tell which argument is the value written')
                vk = set()
                val_alts = []
                for x in fl.alts(val, st):
                    ex = None if (isinstance(x, ast.Call) and call_name(x) == 'getattr') else fl.expand(x)
                    val_alts += ex if ex else [x]
                for x in val_alts:
                    if isinstance(x, ast.Constant) and x.value is None:
                        continue
                    if isinstance(x, ast.Call) and call_name(x) == 'getattr' and len(x.args) in (2, 3):
                        vk.add(norm(canon_key(x.args[1])))
                        srcs.add(norm(x.args[0]))
                    else:
                        ctx.undecided('C03-R6', fi, untag(norm(x))[:70], 'cannot tell where the value written comes from')
                ctx.floor('C03-R6/value', len(vk), 1, 'source of the value written')
                keys['value'] = vk
            allk = set().union(*keys.values())
            ok = len(allk) == 1
            what = ('value written for a variable is the attribute of the same name' if role == 'writer' else
                    'variable read and field definition go by one name')
            ctx.ob('C03-R6', fi, what, ok,
                   ('getattr(%s, name) -> variables[name], fields[name]' % '|'.join(sorted(untag(x) for x in srcs)))
                   if ok and role == 'writer' else 'variables[name], fields[name]' if ok else
                   ('the names differ: ' + '; '.join(f'{k}: {untag(", ".join(sorted(v)))}' for k, v in keys.items()) +
                    (' - the value written does not come from the field of the same name' if role == 'writer' else
                     ' - the variable read is not the one of the field it is stored under')), line=c.lineno)
            alln = set().union(*fsnames.values())
            ok = len(alln) == 1
            ctx.ob('C03-R6', fi, f'{role}: group and field definitions belong to one field set', ok,
                   untag(next(iter(alln))) if ok else
                   ('the group comes from field set `%s` but the definitions from `%s`' % (
                       untag(', '.join(sorted(fsnames['group']))), untag(', '.join(sorted(fsnames.get('field definitions', ['?'])))))),
                   line=c.lineno, nontrivial=False)
            # ---- R6: every field of every field set is visited
            key_node = vps[0][2]
            fs_node = vps[0][1]
            floop = _loop_of_key(fi.node, key_node)
            sloop = _loop_of_key(fi.node, fs_node)
            if floop is None or not floop.contains(c):
                ctx.undecided('C03-R6', fi, untag(norm(key_node)), 'the variable name is not the key of an enclosing loop')
            if sloop is None or not sloop.contains(floop.owner):
                ctx.undecided('C03-R6', fi, untag(norm(fs_node)), 'the field-set name is not the key of an enclosing loop')
            # what the loops run over
            fmap = [untag(norm(x)) for x in fl.alts(iterated_mapping(floop.iter)[0], floop.stmt)] if iterated_mapping(floop.iter) else []
            group_txt = {untag(norm(peel_attr(peel_item(x)[0], 'variables'))) for x in var_alts
                         if peel_item(x) and peel_attr(peel_item(x)[0], 'variables') is not None}
            fs_txt = {untag(norm(f_)) for f_, k in (fps if arg.get('field') is not None else [])}
            over_fields = bool(fmap) and all(
                any(t == g + '.variables' for g in group_txt) or t in fs_txt or any(t == f_ + '.fields' for f_ in fs_txt)
                for t in fmap)
            smap = [untag(norm(x)) for x in fl.alts(iterated_mapping(sloop.iter)[0], sloop.stmt)] if iterated_mapping(sloop.iter) else []
            store_wide = [t for t in smap if t in ('self._nc', 'list(self._nc.keys())', 'self._nc.keys()', 'list(self._nc)')]
            over_sets = bool(smap) and (len(store_wide) == len(smap) or
                                        (role == 'writer' and all(t in store_wide or t in fi.params for t in smap)))
            if not over_fields:
                ctx.undecided('C03-R6', fi, norm(floop.iter)[:60], 'the field loop runs over something that is neither the '
                              'group\'s variables nor the field set\'s fields')
            if not over_sets:
                ctx.undecided('C03-R6', fi, norm(sloop.iter)[:60], 'the field-set loop does not run over the store\'s field sets')
            sliced = [lp for lp in (floop, sloop) if not _plain_iter(lp.iter)]
            aborting = (ast.Raise,) if role == 'writer' else (ast.Raise, ast.Return)
            itemvars = names_of_target(floop.target) | names_of_target(sloop.target)
            for t, stx, how in stores_to(sloop.owner):
                if isinstance(t, ast.Name) and how in ('assign', 'ann') and \
                        any(isinstance(x, ast.Name) and x.id in itemvars for x in ast.walk(stx.value)):
                    itemvars.add(t.id)
            varg = arg.get('val') if role == 'writer' else None
            restr, und, lv, cx = [], [], [], False
            # level 1: one pass of the field iteration reaches this call; level 2: one pass of the field-set iteration
            # reaches a call of the reader/writer
            levels = []
            if floop.is_comp or sloop.is_comp:
                keep, leave, cx = visit_conditions(c, st, sloop, aborting)
                restr, und = filter_verdict(fi.node, keep, itemvars, varg, role == 'writer')
                lv = [(e, pol) for e, pol, n_ in leave]
            if not floop.is_comp:
                levels.append((floop, lambda s_: is_within(c, s_), True))
            if not sloop.is_comp and sloop.owner is not floop.owner:
                levels.append((sloop, lambda s_: any(is_within(x, s_) for x in calls), False))
            for lp_, vis, inner in levels:
                paths = iteration_paths(lp_.owner.body, vis, aborting)
                if paths is None:
                    cx = True
                    continue
                for kind, visited, conds in paths:
                    if kind == 'abort' or (kind == 'next' and visited):
                        continue
                    r_, u_ = skip_verdict(fi.node, conds, itemvars, varg, role == 'writer' and kind == 'next' and inner)
                    if kind == 'leave' and r_:
                        lv.append((conds, r_))
                    elif r_:
                        restr += [x for x in r_ if x not in restr]
                    und += u_ if not r_ else []
            soft = lambda rs: bool(rs) and all(c_.startswith('ident:') for c_, p_ in rs)   # noqa: E731
            if not sliced and (soft(restr) or (not restr and lv and all(soft(r_) for co_, r_ in lv if isinstance(co_, list)))):
                # a condition on the item that is neither about its definition (dimensions, metadata) nor about its
                # value: whether it ever holds cannot be told from the code
                r0 = restr[0] if restr else lv[0][1][0]
                ctx.undecided('C03-R6', fi, norm(floop.iter)[:60], f'fields are passed over where {_say_cat(*r0)}: cannot tell '
                              'whether that ever holds for a field of the field set')
            ok = not restr and not lv and not sliced
            if ok and (und or cx):
                ctx.undecided('C03-R6', fi, norm(floop.iter)[:60], ('condition on the field loop not understood: ' + und[0][6:])
                              if und else 'the field loop is left early or has guard clauses of a form not analysed')
            why = 'no filter on the loops over field sets and fields'
            if sliced:
                why = f'the loop source `{norm(sliced[0].iter)[:60]}` is sliced or filtered: some fields are skipped by the field loop'
            elif restr:
                why = ('some fields are skipped by the field loop: ' + callee.name + ' is not reached for fields where ' +
                       ' and '.join(_say_cat(c_, p_) for c_, p_ in restr))
            elif lv:
                why = ('the loop is left at the first field for which ' +
                       ' and '.join(f'`{norm(e)[:50]}` is {pol}' for e, pol in (lv[0][0] if isinstance(lv[0][0], list) else [lv[0]])) +
                       ': the fields after it are not ' + ('written' if role == 'writer' else 'read'))
            ctx.ob('C03-R6', fi, f'{role}: every field of every field set is visited', ok, why, line=floop.lineno)
            if role == 'reader':
                _reader_result_flow(ctx, fi, fl, c, st, key_node, floop, sloop)


def _reader_result_flow(ctx, fi, fl, c, st, key_node, floop, sloop):
    """what `_read_from_nc_var` returns is kept under the name of its field and assigned to the trajectory field of
    that name, for every field read, whatever the value (None is a value: an unset optional field)"""
    ab = (ast.Raise, ast.Return)
    kept = []       # (container: set of texts / comprehension node, key texts, node kept at, statement)
    for t, stx, how in stores_to(fi.node):
        if isinstance(t, ast.Subscript) and how == 'assign' and floop.contains(stx):
            if any(same_site(v, c) for v in fl.alts(stx.value, stx)):
                kept.append(({norm(b_) for b_ in fl.alts(t.value, stx)}, None, {norm(k) for k in fl.alts(t.slice, stx)}, stx, stx))
    # `{name: <read> for name, field in …}` handed to a container (update / |= / plain assignment)
    p_ = getattr(c, '_parent', None)
    if isinstance(p_, ast.DictComp) and p_.value is c:
        holder = getattr(p_, '_parent', None)
        bases = set()
        if isinstance(holder, ast.Call) and isinstance(holder.func, ast.Attribute) and holder.func.attr == 'update':
            bases = {norm(b_) for b_ in fl.alts(holder.func.value, st)}
        elif isinstance(holder, ast.AugAssign) and isinstance(holder.op, ast.BitOr):
            bases = {norm(b_) for b_ in fl.alts(holder.target, st)} if isinstance(holder.target, ast.Name) else set()
            bases = {f'{holder.target.id}@{d[1].lineno}' for d in fl.reaching(holder.target.id, st) if d[0] == 'val'} or bases
        kept.append((bases, p_, {norm(k) for k in fl.alts(p_.key, st)}, c, st))
    direct = [x for x in calls_in(floop.owner) if call_name(x) == 'setattr' and len(x.args) == 3 and
              any(same_site(v, c) for v in fl.alts(x.args[2], stmt_of(x)))]
    if not kept and not direct:
        ctx.undecided('C03-R6', fi, norm(c)[:50], 'cannot tell where the value read is kept')
    k0 = norm(key_node)
    keep0, leave0, cx0 = visit_conditions(c, st, sloop, ab)
    for bases, comp, ks, node, stx in kept:
        ok = ks == {k0}
        keep, leave, cx = visit_conditions(node, stx, sloop, ab)
        more = [(e, p) for e, p in keep if not any(e is e0 for e0, _ in keep0)]
        ok2 = not more and len(leave) == len(leave0)
        ctx.ob('C03-R6', fi, 'value read for a variable is kept under the name of its field', ok and ok2,
               f'{untag(", ".join(sorted(bases)) or "mapping")}[name] = value read' if ok and ok2 else
               ('read values are assigned under a different name: ' + untag(', '.join(sorted(ks))) + ' instead of ' + untag(k0)
                if not ok else f'the value read is only kept when `{norm(more[0][0])[:60]}` is {more[0][1]}' if more else
                'the loop can be left between reading a value and keeping it'), line=stx.lineno)

    # a mapping that receives a kept container whole (`D.update(K)`, `D |= K`) after the field loop, once per pass of
    # the field-set loop, holds the values read under the same names
    merged = set()
    fstmt = floop.stmt
    kept_txt = set().union(*[b_ for b_, comp, ks, node, stx in kept if comp is None]) if kept else set()
    for _ in range(3):
        grew = False
        for sx in [x for x in walk_no_nested(fi.node) if isinstance(x, (ast.Expr, ast.AugAssign))]:
            if isinstance(sx, ast.Expr):
                u = sx.value
                if not (isinstance(u, ast.Call) and isinstance(u.func, ast.Attribute) and u.func.attr == 'update'
                        and len(u.args) == 1 and not u.keywords):
                    continue
                dst, src = u.func.value, u.args[0]
            else:
                if not isinstance(sx.op, ast.BitOr):
                    continue
                dst, src = sx.target, sx.value
            srcs_ = {norm(y) for y in fl.alts(src, sx)}
            if not srcs_ or not srcs_ <= (kept_txt | merged):
                continue
            if isinstance(dst, ast.Name):
                dsts = {f'{dst.id}@{d[1].lineno}' for d in fl.reaching(dst.id, sx) if d[0] == 'val' and _is_fresh_container(d[2])} \
                    or {norm(y) for y in fl.alts(dst, sx)}
            else:
                dsts = {norm(y) for y in fl.alts(dst, sx)}
            if dsts <= merged:
                continue
            # where the container merged is made anew in each pass of the field-set loop, the merge has to happen in
            # each pass, after the fields were read, and whatever the item
            keep_u, leave_u, cx_u = visit_conditions(sx, sx, sloop, ab)
            keep_f, leave_f, cx_f = visit_conditions(fstmt, fstmt, sloop, ab)
            after = sx.lineno > getattr(fstmt, 'end_lineno', fstmt.lineno) and not is_within(sx, fstmt)
            inside = sloop.contains(sx) or not sloop.contains(fstmt)
            if not after or not inside or cx_u or len(leave_u) != len(leave_f) or \
                    any(not any(e is e0 for e0, _ in keep_f) for e, _ in keep_u):
                ctx.undecided('C03-R6', fi, norm(sx)[:60], 'cannot tell whether the values read are merged into the mapping the '
                              'trajectory is filled from for every field set')
            merged |= dsts
            grew = True
        if not grew:
            break

    def is_kept_container(e):
        return norm(e) in merged or \
            any(norm(e) in bases or (comp is not None and same_site(e, comp)) for bases, comp, ks, node, stx in kept)
    sets = [x for x in calls_in(fi.node) if call_name(x) == 'setattr' and len(x.args) == 3 and x not in direct]
    used = []
    for x in sets:
        sx = stmt_of(x)
        for v in fl.alts(x.args[2], sx):
            it = peel_item(v)
            if it is not None and is_kept_container(it[0]):
                used.append((x, sx, it, {norm(k) for k in fl.alts(x.args[1], sx)}))
    if kept:
        ctx.floor('C03-R6/assign', len(used), 1, 'assignment of the values read to the trajectory')
    for x, sx, (base, key), names in used:
        ok = names == {norm(key)}
        ctx.ob('C03-R6', fi, 'value read for a variable is assigned to the field of the same name', ok,
               f'setattr(…, name, {untag(norm(base))[:40]}[name])' if ok else
               f'read values are assigned under a different name: `{untag(", ".join(sorted(names)))}` gets the value read for '
               f'`{untag(norm(key))}`', line=x.lineno)
        lp = _loop_of_key(fi.node, key)
        if lp is None or not lp.contains(x):
            ctx.undecided('C03-R6', fi, norm(x)[:50], 'the assignment is not in a loop over the values read')
        over = fl.alts(iterated_mapping(lp.iter)[0], lp.stmt) if iterated_mapping(lp.iter) else []
        if not over or not all(is_kept_container(y) for y in over):
            ctx.undecided('C03-R6', fi, norm(lp.iter)[:50], 'the assignment loop does not run over the values read')
        keep, leave, cx = visit_conditions(x, sx, lp, (ast.Raise,))
        ok = not keep and not leave and not cx and _plain_iter(lp.iter)
        ctx.ob('C03-R6', fi, f'{norm(x)} runs for every value read', ok,
               'unconditional in the loop over the values read' if ok else
               ('the assignment is skipped for some values (' +
                (f'it runs only when `{norm(keep[0][0])}` is {keep[0][1]}' if keep else
                 ('the loop is left when ' + norm(leave[0][0])) if leave else
                 'continue/break in the loop' if cx else 'the loop source is sliced or filtered') +
                '): the freshly constructed trajectory keeps the field\'s declared default there, so an optional field that was '
                'stored unset (None) reads back as its default instead of None'), line=x.lineno)


# ---------------------------------------------------------------- R7 -----
def rule_accumulators(ctx, m):
    """lost accumulation: a container initialised empty before a loop, used after
    it, but *rebound* inside the loop by an expression that does not mention it"""
    n = 0
    for fi in m.functions.values():
        for lp in [x for x in walk_no_nested(fi.node) if isinstance(x, ast.For)]:
            blk = getattr(lp, '_parent', None)
            for t, st, how in stores_to(lp):
                if not (isinstance(t, ast.Name) and how in ('assign', 'ann')):
                    continue
                name = t.id
                if any(isinstance(x, ast.Name) and x.id == name for x in ast.walk(st.value)):
                    continue
                inits = [s for tt, s, h in stores_to(fi.node) if isinstance(tt, ast.Name) and tt.id == name
                         and s.lineno < lp.lineno and h in ('assign', 'ann') and _is_empty_container(getattr(s, 'value', None))
                         and not any(a is lp for a in ancestors(s))]
                if not inits:
                    continue
                init = inits[-1]
                # init and loop in the same block (or loop nested right under it), accumulator used after the loop
                used_after = any(isinstance(x, ast.Name) and x.id == name and isinstance(x.ctx, ast.Load)
                                 and x.lineno > (lp.end_lineno or lp.lineno) for x in walk_no_nested(fi.node))
                # the rebinding must depend on the loop (otherwise it is just a reset)
                loopvars = {x.id for x in ast.walk(lp.target) if isinstance(x, ast.Name)}
                inner_defs = {tt.id for tt, s2, h2 in stores_to(lp) if isinstance(tt, ast.Name)}
                depends = any(isinstance(x, ast.Name) and x.id in (loopvars | inner_defs) for x in ast.walk(st.value))
                # a reset at the top of an *inner* per-item block followed by accumulation in a deeper loop is fine
                nested_accum = any(isinstance(x, ast.Call) and isinstance(x.func, ast.Attribute) and norm(x.func.value) == name
                                   and x.func.attr in ('update', 'add', 'append', 'extend') and x.lineno > st.lineno
                                   for x in ast.walk(lp)) and False
                if used_after and depends and init.lineno < lp.lineno:
                    n += 1
                    ctx.ob('C03-R7', fi, f'`{name}` initialised empty (line {init.lineno}) then rebound in loop: {norm(st)[:60]}',
                           False, (f'`{name}` is meant to accumulate over `for {norm(lp.target)} in {norm(lp.iter)}` but is '
                                   'overwritten on every iteration: only the last iteration contributes (species of earlier '
                                   'field sets are missing from the file and silently not written)'), line=st.lineno)
    ctx.ob('C03-R7', (m.relpath, '<module>'), f'{len(m.functions)} functions scanned for lost accumulations', True,
           f'{n} found', nontrivial=False)
    ctl = ast.parse('def f(xs):\n s = set()\n for x in xs:\n  s = {y for y in x}\n return s')
    f = ctl.body[0]
    for a in ast.walk(f):
        for ch in ast.iter_child_nodes(a):
            ch._parent = a
    lp = f.body[1]
    hit = any(isinstance(t, ast.Name) and t.id == 's' for t, st, how in stores_to(lp))
    ctx.control('C03-R7', hit and _is_empty_container(f.body[0].value), 'embedded lost-accumulation example is recognised')


def _is_empty_container(v):
    if v is None:
        return False
    if isinstance(v, (ast.List, ast.Set, ast.Tuple)) and not v.elts:
        return True
    if isinstance(v, ast.Dict) and not v.keys:
        return True
    if isinstance(v, ast.Call) and call_name(v) in ('set', 'list', 'dict') and not v.args:
        return True
    return False


def _typed(x, self_name='self'):
    """the expression is a fresh value of the field's own data type: `….astype(self.field_type, …)` (not copy=False),
    `np.array(…, dtype=self.field_type)`, `self.field_type(…)`, `.item()` / `[()]` of such, either arm of a
    conditional expression"""
    ft = f'{self_name}.field_type'
    if isinstance(x, ast.IfExp):
        return _typed(x.body, self_name) and _typed(x.orelse, self_name)
    if isinstance(x, ast.Subscript) and isinstance(x.slice, ast.Tuple) and not x.slice.elts:
        return _typed(x.value, self_name)
    if not isinstance(x, ast.Call):
        return False
    cp = kwarg(x, 'copy')
    nocopy = cp is not None and not (isinstance(cp, ast.Constant) and cp.value is True)
    if isinstance(x.func, ast.Attribute) and x.func.attr == 'item' and not x.args:
        return _typed(x.func.value, self_name)
    if isinstance(x.func, ast.Attribute) and x.func.attr == 'astype':
        dt = x.args[0] if x.args else kwarg(x, 'dtype')
        return dt is not None and norm(dt) == ft and not nocopy
    if call_name(x) in ('np.array', 'numpy.array'):
        dt = kwarg(x, 'dtype') or (x.args[1] if len(x.args) > 1 else None)
        return dt is not None and norm(dt) == ft and not nocopy
    if norm(x.func) == ft and len(x.args) == 1:
        return True
    return False


_ALIASING = ('np.asarray', 'np.asanyarray', 'np.array', 'numpy.asarray', 'numpy.array', 'np.ascontiguousarray', 'list', 'tuple',
             'dict', 'np.squeeze', 'np.ravel', 'np.atleast_1d')
_ALIASING_METHODS = ('copy', 'filled', 'view', 'reshape', 'ravel', 'squeeze', 'values', 'items', 'keys', 'get', 'tolist')


class Owned:
    """R8 over convert_in: is what a return hands back built from `self._cast(…)` of the incoming data (own copy,
    field dtype) - through containers, comprehensions, conditional expressions, locals and resolved helper methods -
    or does the incoming object (or a part of it) get through as it came?  -> True | False (with the leaf) | None"""

    def __init__(self, prog, cast_fi):
        self.prog, self.cast_fi = prog, cast_fi
        self.leaf = None

    def derived(self, e, inc):
        return any(isinstance(x, ast.Name) and x.id in inc for x in ast.walk(e))

    def of(self, fi, fl, e, at, inc, depth=0):
        if depth > 8:
            return None
        if e is None or (isinstance(e, ast.Constant) and e.value is None):
            return True
        if isinstance(e, ast.IfExp):
            return self._all([self.of(fi, fl, e.body, at, inc, depth + 1), self.of(fi, fl, e.orelse, at, inc, depth + 1)])
        if isinstance(e, ast.BoolOp):
            return self._all([self.of(fi, fl, v, at, inc, depth + 1) for v in e.values])
        if isinstance(e, ast.Name):
            rs = []
            for d in fl.reaching(e.id, at):
                if d[0] == 'val' and _is_fresh_container(d[2]) and not (getattr(d[2], 'elts', None) or getattr(d[2], 'keys', None)):
                    # a container built empty and filled by element stores / add-methods: what is put into it
                    put = [(stx.value, stx) for t, stx, how in stores_to(fi.node)
                           if isinstance(t, ast.Subscript) and isinstance(t.value, ast.Name) and t.value.id == e.id
                           and how == 'assign']
                    for c_ in calls_in(fi.node):
                        if isinstance(c_.func, ast.Attribute) and isinstance(c_.func.value, ast.Name) and \
                                c_.func.value.id == e.id and c_.func.attr in ('append', 'add', 'update', 'extend', 'setdefault'):
                            put += [(a_, stmt_of(c_)) for a_ in c_.args[-1:]]
                    rs.append(self._all([self.of(fi, fl, v_, s_, inc, depth + 1) for v_, s_ in put]) if put else None)
                elif d[0] == 'val':
                    rs.append(self.of(fi, fl, d[2], d[1], inc, depth + 1))
                elif d[0] == 'comp':
                    rs.append(False if self.derived_at(fl, d[2], d[1], inc) else None)
                    if rs[-1] is False:
                        self.leaf = self.leaf or e
                elif d[0] == 'param':
                    if e.id in inc:
                        self.leaf = e
                        rs.append(False)
                    else:
                        rs.append(None)
                elif d[0] == 'iter':
                    own = d[1] if isinstance(d[1], ast.stmt) else stmt_of(d[1])
                    if self.derived_at(fl, d[3], own, inc):
                        self.leaf = self.leaf or e
                        rs.append(False)
                    else:
                        rs.append(None)
                else:
                    rs.append(None)
            return self._all(rs)
        if isinstance(e, (ast.DictComp,)):
            inc2 = self._comp_inc(e, inc)
            return self.of(fi, fl, e.value, at, inc2, depth + 1)
        if isinstance(e, (ast.ListComp, ast.GeneratorExp, ast.SetComp)):
            inc2 = self._comp_inc(e, inc)
            elt = e.elt
            if isinstance(elt, ast.Tuple) and len(elt.elts) == 2:
                elt = elt.elts[1]
            return self.of(fi, fl, elt, at, inc2, depth + 1)
        if isinstance(e, ast.Dict):
            return self._all([self.of(fi, fl, v, at, inc, depth + 1) for v in e.values])
        if isinstance(e, (ast.Tuple, ast.List)):
            return self._all([self.of(fi, fl, v, at, inc, depth + 1) for v in e.elts])
        if isinstance(e, ast.Call):
            if _typed(e):
                return True
            callee = resolve_call(self.prog, fi, e)
            if callee is not None and callee == self.cast_fi:
                return True
            f = e.func
            while isinstance(f, ast.Subscript):       # SpeciesValues[ThrustModeValues](…)
                f = f.value
            is_cls = resolve_class_call(self.prog, fi, ast.Call(func=f, args=e.args, keywords=e.keywords)) is not None \
                or (isinstance(f, ast.Name) and f.id in ('dict', 'OrderedDict'))
            if is_cls and len(e.args) + len(e.keywords) <= 1:
                if not e.args and not e.keywords:
                    return True
                a_ = e.args[0] if e.args else e.keywords[0].value
                return self.of(fi, fl, a_, at, inc, depth + 1)
            if callee is not None and callee.node is not fi.node:
                binds = {}
                ps = callee.params
                off = 1 if ps[:1] in (['self'], ['cls']) and isinstance(e.func, ast.Attribute) else 0
                for p_, a_ in zip(ps[off:], e.args):
                    binds[p_] = a_
                for k in e.keywords:
                    if k.arg:
                        binds[k.arg] = k.value
                inc2 = {p_ for p_, a_ in binds.items() if self.derived(a_, inc)}
                f2 = Flow(self.prog, callee)
                rs = [self.of(callee, f2, r.value, r, inc2, depth + 1)
                      for r in walk_no_nested(callee.node) if isinstance(r, ast.Return)]
                return self._all(rs) if rs else None
            if (call_name(e) in _ALIASING and any(self.derived(a_, inc) for a_ in e.args)) or (
                    isinstance(e.func, ast.Attribute) and e.func.attr in _ALIASING_METHODS and self.derived(e.func.value, inc)):
                self.leaf = self.leaf or e
                return False
            return None
        if isinstance(e, (ast.Attribute, ast.Subscript)):
            if self.derived(e, inc):
                self.leaf = self.leaf or e
                return False
            return None
        return None

    def derived_at(self, fl, e, at, inc):
        """e, evaluated at statement `at`, is (a part of / a view of) the incoming data"""
        return any(self.derived(x, inc) for x in fl.alts(e, at))

    def _comp_inc(self, comp, inc):
        inc2 = set(inc)
        for g in comp.generators:
            if self.derived(g.iter, inc2):
                inc2 |= names_of_target(g.target)
        return inc2

    @staticmethod
    def _all(rs):
        if any(r is False for r in rs):
            return False
        if rs and all(r is True for r in rs):
            return True
        return None


def rule_cast(ctx):
    """R8: every value accepted into a field is brought to the field's own data type (what is stored is what the
    NetCDF variable will hold) and is the container's own copy: each return of FieldMetadata._cast is a fresh value
    of `self.field_type`, and every return of convert_in is None or built from `self._cast(…)` of the incoming
    data - followed through locals, containers, comprehensions and resolved helper methods."""
    prog = ctx.prog
    fs = prog.module(FS)
    fi = fs.func('FieldMetadata._cast')
    fl = Flow(prog, fi)
    rets = [n for n in walk_no_nested(fi.node) if isinstance(n, ast.Return) and n.value is not None]
    ctx.floor('C03-R8', len(rets), 1, 'returns of _cast')
    for r in rets:
        al = fl.alts(r.value, r)
        bad = [x for x in al if not _typed(x)]
        ok = not bad and not fl.overflow
        ctx.ob('C03-R8', fi, f'return {norm(r.value)[:50]}', ok,
               'value cast to the field type' if ok else
               (f'a value is returned without being cast to the field\'s data type (`{untag(norm(bad[0]))[:60]}`): for a field '
                'narrower than a Python float (float32, float16) the trajectory keeps the double and reads back a different, '
                'rounded value') if bad else 'too many alternatives', line=r.lineno)
    # ... and every value that convert_in accepts goes through _cast (which also gives the container its own
    # copy: astype copies unless told otherwise)
    ci = fs.func('FieldMetadata.convert_in')
    cfl = Flow(prog, ci)
    crets = [n for n in walk_no_nested(ci.node) if isinstance(n, ast.Return)]
    ctx.floor('C03-R8/convert_in', len(crets), 2, 'returns of convert_in')
    incoming = {p_ for p_ in ci.params[1:2]}
    n_cast = 0
    for r in crets:
        ow = Owned(prog, fi)
        res = ow.of(ci, cfl, r.value, r, incoming)
        v = r.value
        if res is None:
            ctx.undecided('C03-R8', ci, norm(r)[:60], 'cannot tell whether the value returned is built from self._cast(…)')
        n_cast += res is True and v is not None and not (isinstance(v, ast.Constant) and v.value is None)
        ctx.ob('C03-R8', ci, f'return {norm(v)[:50] if v is not None else ""}', res,
               'None (unset optional) or built from self._cast(…) of the incoming data' if res else
               (f'the incoming object itself is stored (`{norm(ow.leaf)[:40] if ow.leaf is not None else norm(v)[:40]}` reaches the '
                'return without self._cast): it is neither brought to the field type nor copied, so the trajectory '
                'shares the caller\'s array and changes when the caller reuses its buffer'), line=r.lineno)
    ctx.floor('C03-R8/cast', n_cast, 1, 'returns of convert_in built from _cast')
    for c in calls_in(fi.node):
        if isinstance(c.func, ast.Attribute) and c.func.attr == 'astype':
            cp = kwarg(c, 'copy')
            ok = cp is None or (isinstance(cp, ast.Constant) and cp.value is True)
            ctx.ob('C03-R8', fi, f'{norm(c)[:60]} returns a new array', ok,
                   'astype copies by default' if ok else 'copy=False lets the stored array alias the caller\'s', line=c.lineno,
                   nontrivial=False)
    cc = [c for c in calls_in(fi.node) if call_name(c) in ('np.can_cast', 'numpy.can_cast')]
    ok = bool(cc) and any(k.arg == 'casting' and norm(k.value) == "'same_kind'" for k in cc[0].keywords)
    ctx.ob('C03-R8', fi, 'unsafe casts refused', ok, "np.can_cast(…, casting='same_kind') before casting" if ok else
           'the safety check of the cast changed', nontrivial=False)


# ---------------------------------------------------------------- R9 -----
_WRAPPERS = ('sorted', 'list', 'set', 'tuple', 'frozenset', 'reversed', 'iter', 'enumerate')
_ACCUM = ('update', 'add', 'extend', 'append', 'union')
_FILTERS = ('filter', 'islice', 'itertools.islice', 'takewhile', 'itertools.takewhile', 'dropwhile',
            'itertools.dropwhile', 'compress', 'itertools.compress', 'random.sample', 'sample', 'filterfalse',
            'itertools.filterfalse')


def _arg_for_param(fi, call, pname):
    params = fi.params
    if pname not in params:
        return None
    k = kwarg(call, pname)
    if k is not None:
        return k
    idx = params.index(pname) - (1 if params[:1] in (['self'], ['cls']) and isinstance(call.func, ast.Attribute) else 0)
    if 0 <= idx < len(call.args) and not any(isinstance(x, ast.Starred) for x in call.args[:idx + 1]):
        return call.args[idx]
    return None


class _Site:
    """one place where members enter a collection: `acc.update(X)` / `acc.add(x)` / `acc |= X` under loops, or a
    comprehension"""

    def __init__(self, fi, node, contributed, inits):
        self.fi, self.node, self.contributed, self.inits = fi, node, contributed, inits


def _members_of(prog, fi, e, written_cls, depth=0, seen=None):
    """Trace where the members of collection expression e come from: list of _Site | ('file', node) |
    ('unknown', fi, node)."""
    seen = seen if seen is not None else set()
    if depth > 8 or (fi.qualname, id(e)) in seen:
        return []
    seen.add((fi.qualname, id(e)))
    if isinstance(e, ast.BoolOp) and isinstance(e.op, ast.Or):      # X or []
        return [x for v in e.values for x in _members_of(prog, fi, v, written_cls, depth + 1, seen)]
    if isinstance(e, (ast.List, ast.Tuple, ast.Set)) and not e.elts:
        return []
    if isinstance(e, ast.Call) and call_name(e) in ('set', 'list') and not e.args:
        return []
    if isinstance(e, ast.Constant) and e.value is None:
        return []
    if isinstance(e, ast.Call) and call_name(e) in _WRAPPERS and e.args:
        return _members_of(prog, fi, e.args[0], written_cls, depth + 1, seen)
    if isinstance(e, ast.BinOp) and isinstance(e.op, (ast.BitOr, ast.Add)):
        return _members_of(prog, fi, e.left, written_cls, depth + 1, seen) + \
            _members_of(prog, fi, e.right, written_cls, depth + 1, seen)
    if isinstance(e, (ast.SetComp, ast.ListComp, ast.GeneratorExp)):
        return [_Site(fi, e, e.elt, [])]
    if isinstance(e, ast.Name):
        if e.id in fi.params:
            out = []
            for caller, call in callers_of(prog, fi):
                arg = _arg_for_param(fi, call, e.id)
                if arg is None:
                    d = _default_of(fi, e.id)
                    if d is None:
                        out.append(('unknown', caller, call))
                    else:
                        out += _members_of(prog, fi, d, written_cls, depth + 1, seen)
                else:
                    out += _members_of(prog, caller, arg, written_cls, depth + 1, seen)
            return out
        out = []
        defs = local_defs(fi.node, e.id)
        inits = [d for d in defs if isinstance(d, (ast.Assign, ast.AnnAssign))]
        for d in defs:
            if isinstance(d, (ast.Assign, ast.AnnAssign)) and d.value is not None:
                if isinstance(d, ast.Assign) and not (len(d.targets) == 1 and isinstance(d.targets[0], ast.Name)):
                    out.append(('unknown', fi, d))
                    continue
                # `acc = acc | X` is an accumulation, not an initialisation
                if any(isinstance(x, ast.Name) and x.id == e.id for x in ast.walk(d.value)):
                    rest = [v for v in (getattr(d.value, 'left', None), getattr(d.value, 'right', None),
                                        *(getattr(d.value, 'args', []) or []))
                            if v is not None and not (isinstance(v, ast.Name) and v.id == e.id)]
                    out += [_Site(fi, d, v, [x for x in inits if x is not d]) for v in rest] or [('unknown', fi, d)]
                    continue
                out += _members_of(prog, fi, d.value, written_cls, depth + 1, seen)
            elif isinstance(d, ast.AugAssign):
                out.append(_Site(fi, d, d.value, inits))
            elif not isinstance(d, (ast.Assign, ast.AnnAssign)):
                out.append(('unknown', fi, d))
        for c in calls_in(fi.node):
            if isinstance(c.func, ast.Attribute) and isinstance(c.func.value, ast.Name) and c.func.value.id == e.id \
                    and c.func.attr in _ACCUM and isinstance(parent(c), ast.Expr):
                for a_ in c.args:
                    out.append(_Site(fi, c, a_.value if isinstance(a_, ast.Starred) else a_, inits))
        return out
    if isinstance(e, ast.Attribute):
        owner = expr_class(prog, fi, e.value)
        owners = [owner] if owner is not None else ([written_cls] if written_cls is not None else [])
        for c in owners:
            meth = c.find_method(e.attr)
            if meth is not None and any('property' in d for d in meth.decorators()):
                out = []
                for r in walk_no_nested(meth.node):
                    if isinstance(r, ast.Return) and r.value is not None:
                        out += _members_of(prog, meth, r.value, written_cls, depth + 1, seen)
                return out
            if e.attr in c.all_fields():
                return [('file', e)]
        if classify_axis_source(prog, fi, e) == 'file' and owner is None and written_cls is None:
            return [('file', e)]
        return [('unknown', fi, e)]
    if isinstance(e, ast.Call):
        callee = resolve_call(prog, fi, e)
        if callee is not None:
            out = []
            for r in walk_no_nested(callee.node):
                if isinstance(r, ast.Return) and r.value is not None:
                    out += _members_of(prog, callee, r.value, written_cls, depth + 1, seen)
            return out
    return [('unknown', fi, e)]


def reach_facts(stmt, top):
    """Conditions under which `stmt` runs in one pass of the loop `top` (a For/While enclosing it, or the function):
    the tests of the enclosing ifs, and of the earlier guard clauses (`if c: continue/return/break`) of every
    enclosing block.  A guard clause that raises is not a condition of this kind: it stops everything loudly, it
    does not pass over the item.  -> ([(test, polarity)], complex?)"""
    facts, cx = [], False
    child = stmt
    for a in ancestors(stmt):
        blk = _block_of(a, child)
        if isinstance(a, ast.If) and blk is not None:
            facts.append((a.test, blk is a.body))
        elif isinstance(a, ast.While) and blk is a.body and a is not top:
            facts.append((a.test, True))
        if blk is not None:
            for p in blk[:next(i for i, x in enumerate(blk) if x is child)]:
                if isinstance(p, ast.If):
                    be, oe = _ends(p.body), bool(p.orelse) and _ends(p.orelse)
                    if be and not oe:
                        if not isinstance(last_stmt(p.body), ast.Raise):
                            facts.append((p.test, False))
                        inner = p.body[:-1] + p.orelse
                    elif oe and not be:
                        if not isinstance(last_stmt(p.orelse), ast.Raise):
                            facts.append((p.test, True))
                        inner = p.body + p.orelse[:-1]
                    else:
                        inner = [p]
                        cx = cx or (be and oe)
                else:
                    inner = [p]
                if any(isinstance(x, (ast.Continue, ast.Break, ast.Return)) for q in inner for x in walk_no_nested(q)):
                    cx = True
        if a is top or isinstance(a, (ast.FunctionDef, ast.AsyncFunctionDef)):
            break
        child = a
    return facts, cx


def _plain_iter(e):
    """the loop visits every member of its source (no slice, no filter)"""
    while True:
        if isinstance(e, ast.Call) and call_name(e) in _WRAPPERS and e.args:
            e = e.args[0]
        elif isinstance(e, ast.Call) and isinstance(e.func, ast.Attribute) and e.func.attr in ('items', 'keys', 'values') \
                and not e.args:
            e = e.func.value
        else:
            break
    for n in ast.walk(e):
        if isinstance(n, ast.Slice):
            return False
        if isinstance(n, ast.Call) and call_name(n) in _FILTERS:
            return False
        if isinstance(n, ast.comprehension) and n.ifs:
            return False
    return True


def _value_of(contributed):
    """V for `V.keys()`, `V`, `set(V)`, `*V`"""
    e = contributed
    while True:
        if isinstance(e, ast.Call) and isinstance(e.func, ast.Attribute) and e.func.attr in ('keys', 'items', 'values') \
                and not e.args:
            e = e.func.value
        elif isinstance(e, ast.Call) and call_name(e) in _WRAPPERS and e.args:
            e = e.args[0]
        else:
            return e


def _value_base(v):
    """container of the values: `self._data` for `self._data[name]`, `data` for `getattr(data, f)`"""
    if isinstance(v, ast.Subscript):
        return norm(v.value)
    if isinstance(v, ast.Call) and call_name(v) == 'getattr' and v.args:
        return norm(v.args[0])
    if isinstance(v, ast.Call) and isinstance(v.func, ast.Attribute) and v.func.attr == 'get':
        return norm(v.func.value)
    return None


def categorise_fact(fn_node, e, pol, itemvars, V, depth=0):
    """What a condition (known to have truth value `pol` where the collection / the write happens) selects by:
    [(category, polarity)] with category in
      'global'          not a function of the item (field) visited
      'dim:<NAME>'      `Dimension.NAME in <item>.dimensions`
      'value'           the value of the field is set (not None / present / of the mapping type): polarity True;
                        is unset: polarity False
      'meta:<attr>'     an attribute of the item's metadata (e.g. required)
      'ident:<text>'    anything else about the item (its name, its position, …)
      'other:<text>'    not understood"""
    out = []
    for f, p in conjuncts(e, pol):
        if isinstance(f, ast.Name) and f.id not in itemvars and depth < 4:
            v = single_def_value(fn_node, f.id)
            if v is not None and not (V is not None and norm(V) == f.id):
                out += categorise_fact(fn_node, v, p, itemvars, V, depth + 1)
                continue
        d = Dispatch.dim_of(f)
        names = {x.id for x in ast.walk(f) if isinstance(x, ast.Name)}
        txt = norm(f)
        vtxt = norm(V) if V is not None else None
        vbase = _value_base(V) if V is not None else None
        if d is not None:
            out.append((f'dim:{d[0]}', d[1] == p))
            continue
        if isinstance(f, (ast.BoolOp, ast.IfExp)) and names & itemvars:
            # a disjunction of conditions on the item (what is left of `if a and b: continue`): no single category
            out.append((f'other:{txt}', p))
            continue
        on_value = vtxt is not None and any(norm(x) == vtxt for x in ast.walk(f) if isinstance(x, ast.expr))
        if on_value:
            present = None
            if isinstance(f, ast.Compare) and len(f.ops) == 1 and isinstance(f.comparators[0], ast.Constant) \
                    and f.comparators[0].value is None and norm(f.left) == vtxt:
                present = isinstance(f.ops[0], (ast.IsNot, ast.NotEq)) == p
            elif isinstance(f, ast.Call) and call_name(f) == 'isinstance' and norm(f.args[0]) == vtxt:
                present = p
            elif txt == vtxt:
                present = p
            out.append(('value', present) if present is not None else (f'other:{txt}', p))
            continue
        if vbase is not None and names & itemvars and (
                (isinstance(f, ast.Compare) and len(f.ops) == 1 and isinstance(f.ops[0], (ast.In, ast.NotIn))
                 and norm(f.comparators[0]) == vbase and isinstance(f.left, ast.Name)) or
                (isinstance(f, ast.Call) and call_name(f) == 'hasattr' and f.args and norm(f.args[0]) == vbase)):
            neg = isinstance(f, ast.Compare) and isinstance(f.ops[0], ast.NotIn)
            out.append(('value', p != neg))
            continue
        if not names & itemvars:
            out.append(('global', p))
            continue
        g = f
        if isinstance(g, ast.Compare) and len(g.ops) == 1 and isinstance(g.comparators[0], ast.Constant) \
                and isinstance(g.comparators[0].value, bool) and isinstance(g.ops[0], (ast.Is, ast.Eq, ast.IsNot, ast.NotEq)):
            same = isinstance(g.ops[0], (ast.Is, ast.Eq)) == g.comparators[0].value
            g, p = g.left, (p if same else not p)
        if isinstance(g, ast.Attribute) and isinstance(g.value, ast.Name) and g.value.id in itemvars:
            out.append((f'meta:{g.attr}', p))
        else:
            out.append((f'ident:{txt}', p))
    return out


def _site_conditions(site):
    """([(category, polarity)], problem | None) for one collection site, relative to the loops that feed it"""
    fi, node = site.fi, site.node
    V = _value_of(site.contributed)
    if isinstance(node, (ast.SetComp, ast.ListComp, ast.GeneratorExp)):
        itemvars = {x.id for g in node.generators for x in ast.walk(g.target) if isinstance(x, ast.Name)}
        facts = [(i, True) for g in node.generators for i in g.ifs]
        iters = [g.iter for g in node.generators]
        # a source that is itself a filtered comprehension held in a local (`indexed = [n for n, f in … if …]`)
        # brings its conditions and its item variables along
        for g in node.generators:
            src_ = g.iter
            while isinstance(src_, ast.Call) and call_name(src_) in _WRAPPERS and src_.args:
                src_ = src_.args[0]
            if isinstance(src_, ast.Name):
                d_ = single_def_value(fi.node, src_.id)
                while isinstance(d_, ast.Call) and call_name(d_) in _WRAPPERS and d_.args:
                    d_ = d_.args[0]
                if isinstance(d_, (ast.ListComp, ast.SetComp, ast.GeneratorExp)):
                    facts += [(i, True) for g2 in d_.generators for i in g2.ifs]
                    iters += [g2.iter for g2 in d_.generators]
                    itemvars |= {x.id for g2 in d_.generators for x in ast.walk(g2.target) if isinstance(x, ast.Name)}
                    iters = [i for i in iters if i is not g.iter]
        if isinstance(V, ast.Name) and V.id in itemvars:
            # `… for sp in X` : the members are the elements of the innermost source
            src = next((g.iter for g in node.generators if any(isinstance(x, ast.Name) and x.id == V.id
                                                                  for x in ast.walk(g.target))), None)
            V = _value_of(src) if src is not None else V
            iters = [i for i in iters if i is not src]
        cx = False
    else:
        st = stmt_of(node)
        loops = [a for a in ancestors(st) if isinstance(a, (ast.For, ast.AsyncFor, ast.While))
                 and not any(is_within(i, a) for i in site.inits)]
        if not loops:
            return [], None
        top = loops[-1]
        facts, cx = reach_facts(st, top)
        itemvars = {x.id for lp in loops if not isinstance(lp, ast.While) for x in ast.walk(lp.target)
                    if isinstance(x, ast.Name)}
        iters = [lp.iter for lp in loops if not isinstance(lp, ast.While)]
        if isinstance(V, ast.Name) and V.id in itemvars:
            # `for sp in X: acc.add(sp)` : the members are the elements of X
            src = next((lp for lp in loops if not isinstance(lp, ast.While)
                        and any(isinstance(x, ast.Name) and x.id == V.id for x in ast.walk(lp.target))), None)
            if src is not None:
                V = _value_of(src.iter)
                iters = [i for i in iters if i is not src.iter]
        # leaving the loop early restricts what is visited, too: right after a contribution (only the first item
        # that contributes is collected) - a definite restriction; anywhere else - not analysed
        first_only = False
        for lp in loops:
            if not any(isinstance(x, (ast.Break, ast.Return)) for x in walk_no_nested(lp)):
                continue
            paths = iteration_paths(lp.body, lambda s_: is_within(st, s_), (ast.Raise,)) if isinstance(lp, ast.For) else None
            if paths is not None and any(k == 'leave' and vis for k, vis, co in paths) and \
                    not any(k == 'leave' and not vis for k, vis, co in paths):
                first_only = True
            else:
                cx = True
        if first_only:
            facts.append((ast.Name(id='it_is_the_first_field_that_contributes', ctx=ast.Load()), True))
            itemvars.add('it_is_the_first_field_that_contributes')
    # locals of the loop body derived from the item (val = self._data[name]) count as the item
    changed = True
    while changed:
        changed = False
        for t, stx, how in stores_to(fi.node):
            if isinstance(t, ast.Name) and t.id not in itemvars and how in ('assign', 'ann') and stx.value is not None \
                    and (V is None or norm(V) != t.id) \
                    and any(isinstance(x, ast.Name) and x.id in itemvars for x in ast.walk(stx.value)) \
                    and single_def_value(fi.node, t.id) is None:
                itemvars.add(t.id)
                changed = True
    cats = []
    for e, pol in facts:
        cats += categorise_fact(fi.node, e, pol, itemvars, V)
    if cx:
        return cats, 'the loop is left early or has guard clauses of a form not analysed'
    if not all(_plain_iter(i) for i in iters):
        return cats, 'the loop source is sliced or filtered'
    return cats, None


def writer_proceeds(ctx, m):
    """The conditions on a field under which the writer writes it, read from the code: the guards of the call of
    _write_to_nc_var in the field loops of _write_data, and the value-less early returns of _write_to_nc_var that do
    not depend on the dimension dispatch (`if val is None: … return` -> proceeds when the value is set)."""
    wd = m.func('TrajectoryStore._write_data')
    wr = m.func('TrajectoryStore._write_to_nc_var')
    out = set()
    calls = [c for c in calls_in(wd.node) if call_name(c).endswith('_write_to_nc_var')]
    ctx.floor('C03-R9/writer', len(calls), 1, 'call of _write_to_nc_var in _write_data')
    vparam = None
    for c in calls:
        st = stmt_of(c)
        loops = [a for a in ancestors(st) if isinstance(a, (ast.For, ast.While))]
        if not loops:
            ctx.undecided('C03-R9', wd, norm(c)[:50], 'the writer is not called from a loop over the fields')
        facts, cx = reach_facts(st, loops[-1])
        if cx or not all(_plain_iter(lp.iter) for lp in loops if isinstance(lp, ast.For)):
            ctx.undecided('C03-R9', wd, norm(c)[:50], 'the field loop of the writer is filtered in a form not analysed')
        itemvars = {x.id for lp in loops if isinstance(lp, ast.For) for x in ast.walk(lp.target) if isinstance(x, ast.Name)}
        for t, stx, how in stores_to(loops[-1]):
            if isinstance(t, ast.Name):
                itemvars.add(t.id)
        varg = _arg_for_param(wr, c, 'val') if 'val' in wr.params else None
        for e, pol in facts:
            out |= set(categorise_fact(wd.node, e, pol, itemvars, varg))
        # which parameter of the writer carries the value: the one stored into the variable
    stored = [x.value for x in ast.walk(wr.node) if isinstance(x, ast.Assign) and any(isinstance(t, ast.Subscript) for t in x.targets)]
    for v in stored:
        while isinstance(v, ast.Subscript):
            v = v.value
        if isinstance(v, ast.Name) and v.id in wr.params:
            vparam = v.id
    if vparam is None and 'val' in wr.params:
        vparam = 'val'      # the stores are in the methods the writer dispatches to
    if vparam is None:
        ctx.undecided('C03-R9', wr, 'value parameter', 'cannot tell which parameter is stored into the variable')
    dp = Dispatch(wr)
    items = set(wr.params) - {'self'}
    # the unset-value protocol decided by evaluation (see R2): with the value None the writer raises or returns
    # before any write, whatever the spelling of the tests -> it proceeds when the value is set
    fparam = 'field' if 'field' in wr.params else None
    varparam = 'var' if 'var' in wr.params else (wr.params[1] if len(wr.params) > 1 else None)
    none_clean = fparam is not None and all(
        k in ('raise', 'return') for req in (False, True) for k, n_, c_ in none_outcomes(wr.node, vparam, fparam, varparam, req))
    if none_clean:
        out.add(('value', True))

    def about_value(t):
        ns = {x.id for x in ast.walk(t) if isinstance(x, ast.Name)}
        for n_ in list(ns):
            v_ = single_def_value(wr.node, n_) if n_ not in wr.params else None
            if v_ is not None:
                ns |= {x.id for x in ast.walk(v_) if isinstance(x, ast.Name)}
        return vparam in ns
    for r in walk_no_nested(wr.node):
        if isinstance(r, ast.Return) and r.value is None:
            gs = [(t, pol) for t, pol, _ in guards_of(r)]
            if not gs or any(dp.depends(t) for t, _ in gs):
                continue
            if none_clean and any(about_value(t) for t, _ in gs):
                continue
            cats = [c for t, pol in gs for c in categorise_fact(wr.node, t, pol, items, ast.Name(id=vparam, ctx=ast.Load()))]
            cats = [c for c in cats if c[0] != 'global']
            if len(cats) == 1:
                # skipped when the fact holds -> written when it does not
                c, p = cats[0]
                if c.startswith('other:'):
                    ctx.undecided('C03-R9', wr, c[6:][:50], 'early return of the writer under a condition not understood')
                out.add((c, not p))
            elif cats:
                ctx.undecided('C03-R9', wr, norm(gs[0][0])[:50], 'early return of the writer under a compound condition')
    return out


def rule_species_domain(ctx, m):
    """R9: writer domain within dimension domain."""
    prog = ctx.prog
    cd = m.func('_create_dimensions')
    wd = m.func('TrajectoryStore._write_data')
    written_cls = expr_class(prog, wd, ast.Name(id='traj', ctx=ast.Load())) if 'traj' in wd.params else None
    # the expression that becomes the species axis (see dimension_layouts)
    lay = (getattr(ctx, '_c03_layouts', None) or dimension_layouts(ctx, prog, m, cd)).get('species')
    roots = [(lay[2], lay[3])] if lay is not None and not lay[0].startswith('enum:') else []
    ctx.floor('C03-R9/axis', len(roots), 1, 'creation of the species dimension from a species list')
    found = []
    for r, rf in roots:
        found += _members_of(prog, rf, r, written_cls)
    proceeds = writer_proceeds(ctx, m) | {('value', True), ('dim:SPECIES', True)}
    nsite = 0
    seen = set()
    for s in found:
        if isinstance(s, tuple):
            if s[0] == 'unknown':
                ctx.undecided('C03-R9', s[1], norm(s[2])[:60], 'cannot tell where the members of the species list come from')
            continue
        if id(s.node) in seen:
            continue
        seen.add(id(s.node))
        cats, problem = _site_conditions(s)
        if ('dim:SPECIES', True) not in cats:
            continue        # not a collection over species-indexed fields
        nsite += 1
        bad = [(c, p) for c, p in cats if c != 'global' and (c, p) not in proceeds]
        und = [c for c, p in bad if c.startswith('other:')]
        restr = [(c, p) for c, p in bad if not c.startswith('other:')]
        if not restr and (und or problem):
            ctx.undecided('C03-R9', s.fi, norm(s.node)[:60], problem or f'condition not understood: {und[0][6:]}')

        def say(c, p):
            kind, _, what = c.partition(':')
            return {'meta': f'`{what}` is {p}', 'dim': f'the field has {"a" if p else "no"} {what} dimension',
                    'ident': f'`{what}` is {p}', 'value': 'no value is set'}.get(kind, c)
        ctx.ob('C03-R9', s.fi, f'species axis collected from every species-indexed field written: {norm(s.node)[:70]}',
               not restr,
               'collected under no condition on the field but "has a species dimension" / "value is set", as the writer writes'
               if not restr else
               ('the species that size and label the species axis of a new file are collected only from fields where ' +
                ' and '.join(say(c, p) for c, p in restr) + ', but the writer (_write_data → _write_to_nc_var) writes every '
                'species-indexed field whose value is set, placing each species at its position in that list: a species that '
                'occurs only in a field left out of the collection has no slot and is silently not written (lost on read-back)'),
               line=s.node.lineno)
    ctx.floor('C03-R9', nsite, 2, 'species collections feeding the species axis (new store, associated file)')
    # positive control
    ctl = ast.parse('def species(self):\n acc = set()\n for name, field in self.dd.items():\n'
                    '  if Dimension.SPECIES not in field.dimensions:\n   continue\n  if not field.required:\n   continue\n'
                    '  acc.update(self._data[name].keys())\n return sorted(acc)')
    for a_ in ast.walk(ctl):
        for ch in ast.iter_child_nodes(a_):
            ch._parent = a_
    f = ctl.body[0]

    class _F:
        node = f
        params = ['self']
        qualname = 'species'
    call = next(c for c in ast.walk(f) if isinstance(c, ast.Call) and call_name(c) == 'acc.update')
    cats, problem = _site_conditions(_Site(_F, call, call.args[0], [f.body[0]]))
    ctx.control('C03-R9', problem is None and ('dim:SPECIES', True) in cats and ('meta:required', True) in cats,
                'embedded collection that skips optional fields is recognised as restricted')


# --------------------------------------------------------------- R10 -----
_NP_TYPES = {
    'float64': 'f8', 'double': 'f8', 'float32': 'f4', 'single': 'f4', 'float16': 'f2', 'half': 'f2',
    'int8': 'i1', 'byte': 'i1', 'int16': 'i2', 'short': 'i2', 'int32': 'i4', 'intc': 'i4', 'int64': 'i8',
    'longlong': 'i8', 'uint8': 'u1', 'ubyte': 'u1', 'uint16': 'u2', 'ushort': 'u2', 'uint32': 'u4', 'uintc': 'u4',
    'uint64': 'u8', 'ulonglong': 'u8',
}
_CHAR_CODES = {'d': 'f8', 'f': 'f4', 'e': 'f2', 'b': 'i1', 'h': 'i2', 'i': 'i4', 'q': 'i8', 'B': 'u1', 'H': 'u2',
               'I': 'u4', 'Q': 'u8'}
_CODE_NAMES = {'f8': 'float64', 'f4': 'float32', 'f2': 'float16', 'i1': 'int8', 'i2': 'int16', 'i4': 'int32',
               'i8': 'int64', 'u1': 'uint8', 'u2': 'uint16', 'u4': 'uint32', 'u8': 'uint64'}


def scalar_type_code(e):
    """'f8' / 'i4' / 'u2' / 'str' ... for an expression that names a scalar data type: a numpy scalar type
    (`np.int64`, `numpy.float32`, a bare imported name), `str`, `np.dtype(<such>)`, or a type string that numpy and
    netCDF4 read alike ('i8', '<f4', 'int64', 'd'); None when it is not such a constant (platform-dependent names
    such as `np.int_` / 'l' included: not decided)"""
    import re
    if isinstance(e, ast.Call) and call_name(e) in ('np.dtype', 'numpy.dtype', 'dtype') and len(e.args) == 1 and not e.keywords:
        return scalar_type_code(e.args[0])
    if isinstance(e, ast.Attribute) and e.attr in ('type', 'str', 'name') and isinstance(e.value, ast.Call) \
            and call_name(e.value) in ('np.dtype', 'numpy.dtype', 'dtype'):
        return scalar_type_code(e.value)
    if isinstance(e, ast.Attribute) and isinstance(e.value, ast.Name) and e.value.id in ('np', 'numpy'):
        return _NP_TYPES.get(e.attr)
    if isinstance(e, ast.Name):
        return 'str' if e.id == 'str' else _NP_TYPES.get(e.id)
    if isinstance(e, ast.Constant) and isinstance(e.value, str):
        v = e.value
        m_ = re.fullmatch(r'[<>=|]?([fiu])([1248])', v)
        if m_:
            return m_.group(1) + m_.group(2)
        if v in _NP_TYPES:
            return _NP_TYPES[v]
        if v in ('str', 'S1', 'U'):
            return None
        return _CHAR_CODES.get(v)
    return None


def _split_choices(e):
    """the values a conditional expression / `a or b` can have"""
    if isinstance(e, ast.IfExp):
        return _split_choices(e.body) + _split_choices(e.orelse)
    if isinstance(e, ast.BoolOp) and isinstance(e.op, ast.Or):
        return [y for v in e.values for y in _split_choices(v)]
    return [e]


def _lookup(e):
    """(table, key) for `T[K]`, `T.get(K)`, `T.get(K, None)`, `T.__getitem__(K)`"""
    if isinstance(e, ast.Subscript) and not isinstance(e.slice, (ast.Slice, ast.Tuple)):
        return e.value, e.slice
    if isinstance(e, ast.Call) and isinstance(e.func, ast.Attribute) and e.func.attr in ('get', '__getitem__') and e.args \
            and not e.keywords and (len(e.args) == 1 or (len(e.args) == 2 and isinstance(e.args[1], ast.Constant)
                                                         and e.args[1].value is None)):
        return e.func.value, e.args[0]
    return None


def _const_table(prog, fi, e):
    """(module, name, Dict node) when e names a module-level dict display (of this module, imported by name, or
    `module.NAME`) that nothing in the program stores into; None otherwise"""
    r = None
    if isinstance(e, ast.Name):
        if e.id in fi.params or e.id in {x.id for x in ast.walk(fi.node)
                                         if isinstance(x, ast.Name) and isinstance(x.ctx, ast.Store)}:
            return None         # a local of the function, not the module's table
        r = prog.resolve_name(fi.module, e.id)
    elif isinstance(e, ast.Attribute):
        d = dotted_name(e)
        head = d.split('.')[0] if d else None
        if head and head in fi.module.imports:
            r = prog.resolve_dotted(fi.module.imports[head] + d[len(head):])
    if not (isinstance(r, tuple) and r and r[0] == 'const'):
        return None
    _, mod, name = r
    tbl = mod.constants.get(name)
    if not isinstance(tbl, ast.Dict) or any(k is None for k in tbl.keys):
        return None
    nbind = sum(1 for s_ in ast.walk(mod.tree) if isinstance(s_, ast.Name) and s_.id == name and isinstance(s_.ctx, (ast.Store, ast.Del)))
    if nbind != 1:
        return None
    for mm in prog.modules.values():
        for x in ast.walk(mm.tree):
            b = None
            if isinstance(x, ast.Subscript) and isinstance(x.ctx, (ast.Store, ast.Del)):
                b = x.value
            elif isinstance(x, ast.Call) and isinstance(x.func, ast.Attribute) and x.func.attr in (
                    'update', 'pop', 'popitem', 'setdefault', 'clear', '__setitem__', '__delitem__'):
                b = x.func.value
            elif isinstance(x, ast.AugAssign):
                b = x.target
            if b is not None and (dotted_name(b) or '').split('.')[-1] == name:
                return None
    return mod, name, tbl


def rule_types(ctx, m):
    """R10 - the NetCDF type of a field's variable is the field's own data type (creation side)."""
    prog = ctx.prog
    cn = m.func('TrajectoryStore._create_nc_file')
    fl = Flow(prog, cn)

    def closure(f, depth):
        out, seen = [], set()

        def go(g, d):
            if id(g.node) in seen or d > depth:
                return
            seen.add(id(g.node))
            out.append(g)
            for c in calls_in(g.node):
                cal = resolve_call(prog, g, c)
                if cal is not None and isinstance(cal.node, (ast.FunctionDef, ast.AsyncFunctionDef)) \
                        and cal.file.startswith(('src/AEIC/storage/', 'src/AEIC/trajectories/')):
                    go(cal, d + 1)
        go(f, 0)
        return out
    scope = closure(cn, 2)

    # (a) every variable created for a field: its type argument
    n_var = 0
    for f in scope:
        ffl = fl if f is cn else Flow(prog, f)
        for c in calls_in(f.node):
            if not (isinstance(c.func, ast.Attribute) and c.func.attr == 'createVariable' and c.args):
                continue
            st = stmt_of(c)
            name_alts = ffl.alts(c.args[0], st)
            keys = [a for a in name_alts if isinstance(a, ast.Name) and '@' in a.id]
            lp = _loop_of_key(f.node, keys[0]) if len(keys) == len(name_alts) == 1 else None
            if lp is None or map_iteration(lp.target, lp.iter) is None:
                continue            # a coordinate / index variable with a fixed name: not a field
            targ = c.args[1] if len(c.args) > 1 else kwarg(c, 'datatype')
            if targ is None:
                ctx.undecided('C03-R10', f, norm(c)[:60], 'no data type argument')
            n_var += 1
            key = keys[0]
            bad = None
            work = [(y, 0) for a in ffl.alts(targ, st) for y in _split_choices(a)]
            while work:
                alt, depth = work.pop(0)
                if isinstance(alt, ast.Constant) and alt.value is None:
                    continue
                own = _own_type_of(alt, key)
                if own:
                    continue
                lk = _lookup(alt)
                if lk is not None and _own_type_of(lk[1], key):
                    continue
                if scalar_type_code(alt) is not None:
                    bad = bad or (f'`{norm(alt)}`', 'a fixed type')
                elif lk is not None and scalar_type_code(lk[1]) is not None:
                    bad = bad or (f'the variable-length type kept under `{norm(lk[1])}`', 'a fixed type')
                elif lk is not None and any(isinstance(x, ast.Attribute) and x.attr == 'field_type' for x in ast.walk(lk[1])):
                    bad = bad or (f'the variable-length type kept under `{untag(norm(lk[1]))[:50]}`', 'the type of another field')
                elif isinstance(alt, ast.Attribute) and alt.attr == 'field_type':
                    bad = bad or (f'`{untag(norm(alt))[:60]}`', 'the type of another field')
                else:
                    # a helper that picks the type: what it returns, in the caller's terms
                    ex = ffl.expand(alt) if depth < 2 and isinstance(alt, ast.Call) else None
                    if ex:
                        work += [(y, depth + 1) for a in ex for y in _split_choices(a)]
                        continue
                    ctx.undecided('C03-R10', f, untag(norm(alt))[:70], 'cannot tell which data type the variable of a field '
                                  'is created with')
            ctx.ob('C03-R10', f, 'variable of a field is created with the field\'s own data type', bad is None,
                   '`<field>.field_type`, or the variable-length type looked up under it' if bad is None else
                   f'the variable of field `{untag(norm(key))}` is created with {bad[0]} - {bad[1]}, not the data type the '
                   'field declares: its values are converted to that type on write and read back changed (another type; '
                   'out-of-range values wrapped, precision lost)', line=c.lineno)
    ctx.floor('C03-R10/variables', n_var, 1, 'createVariable calls for the fields of a field set')

    # (b) every variable-length type: registered under the scalar type it is made of
    n_vl = 0
    for f in scope:
        ffl = fl if f is cn else Flow(prog, f)
        for c in calls_in(f.node):
            if not (isinstance(c.func, ast.Attribute) and c.func.attr == 'createVLType'):
                continue
            base = c.args[0] if c.args else kwarg(c, 'datatype')
            st = stmt_of(c)
            par = getattr(c, '_parent', None)
            keyx = None
            if isinstance(par, ast.Assign) and par.value is c and len(par.targets) == 1 and \
                    isinstance(par.targets[0], ast.Subscript):
                keyx = par.targets[0].slice
            elif isinstance(par, ast.Dict):
                keyx = next((k_ for k_, v_ in zip(par.keys, par.values) if v_ is c), None)
            elif isinstance(par, ast.DictComp) and par.value is c:
                keyx = par.key
            elif isinstance(par, ast.Call) and isinstance(par.func, ast.Attribute) and par.func.attr == 'setdefault' \
                    and len(par.args) == 2 and par.args[1] is c:
                keyx = par.args[0]
            if base is None or keyx is None:
                ctx.undecided('C03-R10', f, norm(c)[:60], 'cannot tell under which scalar type the variable-length type is kept')
            n_vl += 1
            bad = None
            line = c.lineno
            where = f
            kalts = [untag(norm(a)) for a in ffl.alts(keyx, st)]
            for alt in [y for a in ffl.alts(base, st) for y in _split_choices(a)]:
                b = alt
                while isinstance(b, ast.Call) and call_name(b) in ('np.dtype', 'numpy.dtype') and len(b.args) == 1 and not b.keywords:
                    b = b.args[0]
                if untag(norm(b)) in kalts:
                    continue
                lk = _lookup(b)
                tb = _const_table(prog, f, lk[0]) if lk is not None and untag(norm(lk[1])) in kalts else None
                if tb is not None:
                    mod, tname, tbl = tb
                    prog.consulted.add(mod.relpath)
                    for k_, v_ in zip(tbl.keys, tbl.values):
                        kc, vc = scalar_type_code(k_), scalar_type_code(v_)
                        if kc is None or vc is None:
                            ctx.undecided('C03-R10', (mod.relpath, tname), f'{norm(k_)}: {norm(v_)}',
                                          'row of the type table not understood')
                        if kc != vc and bad is None:
                            bad = (f'row `{norm(k_)}: {norm(v_)}` of `{tname}`: the variable-length type registered for '
                                   f'per-point {norm(k_)} fields is made of {_CODE_NAMES.get(vc, vc)} elements, not '
                                   f'{_CODE_NAMES.get(kc, kc)}: the values of such fields are converted to '
                                   f'{_CODE_NAMES.get(vc, vc)} on write and read back changed (out-of-range values wrapped / '
                                   'precision lost), and the file no longer matches the field definition')
                            line, where = v_.lineno, (mod.relpath, tname)
                    continue
                bc = scalar_type_code(b)
                if bc is not None:
                    kcs = {scalar_type_code(a) for a in ffl.alts(keyx, st)}
                    if kcs == {bc}:
                        continue
                    bad = bad or (f'the variable-length type kept under `{kalts[0]}` is made of `{untag(norm(b))}` elements '
                                  'whatever the field\'s type: per-point values of other types are converted on write')
                    continue
                if any(isinstance(x, ast.Attribute) and x.attr == 'field_type' for x in ast.walk(b)) and lk is None:
                    bad = bad or (f'the variable-length type kept under `{kalts[0]}` is made of `{untag(norm(b))}`, the type of '
                                  'another field')
                    continue
                ctx.undecided('C03-R10', f, untag(norm(b))[:70], 'cannot tell which scalar type the variable-length type is made of')
            ctx.ob('C03-R10', where, 'variable-length type is made of the scalar type it is registered under', bad is None,
                   'base type = key' if bad is None else bad, line=line)
    ctx.floor('C03-R10/vlen', n_vl, 1, 'createVLType calls reachable from _create_nc_file')
    # entries put into the table without a call (`{str: str}`): type for type
    for f in scope:
        for d in ast.walk(f.node):
            if isinstance(d, ast.Dict) and d.keys and all(k is not None and scalar_type_code(k) is not None for k in d.keys) \
                    and all(scalar_type_code(v) is not None or isinstance(v, ast.Call) for v in d.values):
                wrong = [(k, v) for k, v in zip(d.keys, d.values)
                         if not isinstance(v, ast.Call) and scalar_type_code(k) != scalar_type_code(v)]
                ctx.ob('C03-R10', f, f'type table entries `{norm(d)[:40]}` map a type to itself', not wrong,
                       'key = value' if not wrong else f'`{norm(wrong[0][0])}` is stored as `{norm(wrong[0][1])}`',
                       line=d.lineno, nontrivial=False)


def _own_type_of(e, key) -> bool:
    """e is `<M[key]>.field_type` (possibly `np.dtype(…)` of it): the declared type of the very field whose name is
    the loop key `key`"""
    while isinstance(e, ast.Call) and call_name(e) in ('np.dtype', 'numpy.dtype') and len(e.args) == 1 and not e.keywords:
        e = e.args[0]
    if not (isinstance(e, ast.Attribute) and e.attr == 'field_type'):
        return False
    it = peel_item(e.value)
    return it is not None and norm(it[1]) == norm(key)


# ------------------------------------------------- parameter aliases -----
def unalias_parameters(prog, fi) -> list:
    """`L = P` / `L1, L2 = P1, P2` at the top level of a function body, with P a parameter that is bound nowhere else
    in the function and L a name that is bound by this statement only (not a parameter, not global / nonlocal, not
    bound in a nested function): L and P name one object wherever both exist, so the statement says nothing but "P
    is called L from here on" (what is left of `var, index = cell.var, cell.index` once the parameter object is
    dissolved).  The parameter takes the name the body uses - L - and the assignment goes, unless a call somewhere
    passes P by keyword (then L is replaced by P).  Sound by construction: neither name is rebound, every use of L
    lies after the statement (a use before it would be an UnboundLocalError).  -> [(L, P)] for what was done."""
    fn = fi.node
    params = fi.params
    done = []
    banned = set()
    for x in ast.walk(fn):
        if isinstance(x, (ast.Global, ast.Nonlocal)):
            banned |= set(x.names)
    stores = {}
    for x in ast.walk(fn):
        if isinstance(x, ast.Name) and isinstance(x.ctx, (ast.Store, ast.Del)):
            stores.setdefault(x.id, []).append(x)
        elif isinstance(x, ast.arg) and x is not fn and not any(x is a for a in _own_args(fn)):
            stores.setdefault(x.arg, []).append(x)
        elif isinstance(x, (ast.FunctionDef, ast.AsyncFunctionDef, ast.ClassDef)) and x is not fn:
            stores.setdefault(x.name, []).append(x)
        elif isinstance(x, (ast.MatchAs, ast.MatchStar)) and x.name:
            stores.setdefault(x.name, []).append(x)
        elif isinstance(x, ast.MatchMapping) and x.rest:
            stores.setdefault(x.rest, []).append(x)
        elif isinstance(x, ast.ExceptHandler) and x.name:
            stores.setdefault(x.name, []).append(x)
        elif isinstance(x, (ast.Import, ast.ImportFrom)):
            for a in x.names:
                stores.setdefault((a.asname or a.name).split('.')[0], []).append(x)
    for s in list(fn.body):
        if not (isinstance(s, ast.Assign) and len(s.targets) == 1) and \
                not (isinstance(s, ast.AnnAssign) and s.value is not None):
            continue
        t, v = (s.targets[0], s.value) if isinstance(s, ast.Assign) else (s.target, s.value)
        if isinstance(t, ast.Name) and isinstance(v, ast.Name):
            pairs = [(t, v)]
        elif isinstance(t, (ast.Tuple, ast.List)) and isinstance(v, (ast.Tuple, ast.List)) and len(t.elts) == len(v.elts) \
                and all(isinstance(a, ast.Name) for a in t.elts) and all(isinstance(b, ast.Name) for b in v.elts):
            pairs = list(zip(t.elts, v.elts))
        else:
            continue
        lefts, rights = [a.id for a, _ in pairs], [b.id for _, b in pairs]
        if len(set(lefts)) != len(lefts) or len(set(rights)) != len(rights) or set(lefts) & set(rights):
            continue
        ok = all(b in params and b not in stores and b not in banned and b not in ('self', 'cls') and
                 a not in params and a not in banned and len(stores.get(a, [])) == 1 and stores[a][0] is ta
                 for (ta, _), a, b in zip(pairs, lefts, rights))
        if not ok:
            continue
        by_kw = {k.arg for f in prog.all_functions(src_only=False) for c in ast.walk(f.node) if isinstance(c, ast.Call)
                 for k in c.keywords if k.arg in rights}
        ren = {}
        for a, b in zip(lefts, rights):
            ren.update({a: b} if b in by_kw else {b: a})
        for x in ast.walk(fn):
            if isinstance(x, ast.Name) and x.id in ren and not (x is s or any(x is q for q in ast.walk(s))):
                x.id = ren[x.id]
        for a in _own_args(fn):
            if a.arg in ren:
                a.arg = ren[a.arg]
        fn.body.remove(s)
        params = fi.params
        for a, b in zip(lefts, rights):
            stores.pop(a, None)
            done.append((a, b))
    return done


def _own_args(fn):
    a = fn.args
    return a.posonlyargs + a.args + a.kwonlyargs + [x for x in (a.vararg, a.kwarg) if x is not None]


def run(ctx):
    m = ctx.prog.module(STORE)
    for mod in (m, ctx.prog.module(FS)):
        for f in list(mod.functions.values()):
            if '<locals>' not in f.qualname:
                unalias_parameters(ctx.prog, f)
    rule_cast(ctx)
    legal = legal_combinations(ctx, ctx.prog)
    ctx.stats['legal_dimension_combinations'] = [
        ''.join(k[0] for k, v in c.items() if v) or 'scalar' for c in legal]
    if len(legal) != 6:
        ctx.note(f'Dimensions.__init__ now admits {len(legal)} combinations (6 when the rules were written)')
    arms = rule_tables(ctx, m, legal)
    rule_axis(ctx, m, arms)
    rule_field_flow(ctx, m)
    rule_accumulators(ctx, m)
    rule_absent(ctx, m, arms)
    rule_digest(ctx, m)
    rule_hash_gate(ctx, m)
    rule_index_use(ctx, m, arms)
    rule_species_domain(ctx, m)
    rule_types(ctx, m)
    ctx.assumptions += [
        'netCDF4 returns the fill value for cells never written and an empty array for unwritten VL cells',
        'values equal to the fill value are not legitimate data',
    ]
