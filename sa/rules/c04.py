"""C04 — gridding conserves every integrated quantity (structural clauses only).

The numeric bound ("never less, no more than the small great-circle excess")
is a real-valued inequality over geometry and is NOT decided.  Decided:

R1  antimeridian split (T-ALG + reaching definitions on the CFG + def-use across
    the calls).  For each of the two split functions and on EVERY path to a
    return, the integrated part built per variable v is exactly
    [elements before k] ++ [v[k]·share]  (first)  /  [v[k]·share] ++ [elements
    after k]  (second): the share term is passed exactly once (no return
    bypasses it), is a multiple of the crossing element only, and the kept
    slices tile the rest without overlap.  The part is found through
    comprehension / map / helper or loop-append forms and any of concatenate /
    hstack / append / r_ / list spellings.  Substituting the call arguments and
    the lengths as returned by _calculate_segment_lengths (A measured from
    element k to the antimeridian, B from there to k+1), share(first) ≡ A/(A+B),
    share(second) ≡ B/(A+B), and over every pair of paths the two sum to 1;
    lengths and both parts use one crossing index.
R2  degenerate-segment share (T-GUARD): the guarded division producing the
    sub-segment shares is guarded on its *denominator* and defaults to one
    where the denominator is zero (a zero-length segment has exactly one
    sub-segment, so its share must be 1).
R3  one repetition vector (T-AGREE): every np.repeat in the share computation
    uses the same, singly-defined count vector; numerator/denominator of the
    share are the sub-segment and the (repeated) whole-segment distances
    produced by the same distance function.
R4  part-suffix agreement (T-ROLE): names carrying a first/second marker are
    only combined with names of the same marker (the second split receives
    the second length); concatenations join first then second of one stem.
"""

from __future__ import annotations

import ast
import copy
import re

from ..algebra import AlgebraError, normal_form, poly_equal, Rat
from ..astutil import (MUTATING_METHODS, ancestors, assigned_names, call_name, calls_in, conjuncts, guards_of, is_within,
                       kwarg, names_in, norm, single_def_value, stmt_of, stores_to, walk_no_nested)
from ..cfg import CFG
from ..resolve import resolve_call

GRID = 'gridding/grid.py'
SHARE_FN = 'Gridder._cell_idxs_touched_by_trajectory_with_state_and_integrated_vars'


def marker(name: str) -> str | None:
    t = re.split(r'[_\W]+', name.lower())
    has1 = 'first' in t
    has2 = 'second' in t
    if has1 and not has2:
        return 'first'
    if has2 and not has1:
        return 'second'
    return None


def _flat(t):
    if isinstance(t, (ast.Tuple, ast.List)):
        for e in t.elts:
            yield from _flat(e)
    elif isinstance(t, ast.Starred):
        yield from _flat(t.value)
    else:
        yield t


def _root_name(e):
    while isinstance(e, (ast.Subscript, ast.Attribute, ast.Starred)):
        e = e.value
    return e.id if isinstance(e, ast.Name) else None


# ---------------------------------------------------------------------------------------------------------------
# Symbolic shape of 1-D arrays built from the array parameters of a function (path-aware).
#
# A *sequence* is a list of parts, in order:
#     ('slice', base, lo, hi)   base[lo:hi]; lo / hi are None (open) or (atom, offset) meaning `atom + offset`
#     ('whole', base)           the whole array `base`
#     ('elem', expr, at)        one element whose value is the scalar expression `expr` (evaluated at statement `at`)
# `base` is an array parameter or the variable of a loop / comprehension over a tuple-of-arrays parameter.
# A *collection* is "one sequence per member of a tuple-of-arrays parameter":
#     ('pervar', src, var, expr, at, bound)   for each `var` in parameter `src`: the sequence `expr`
#     ('empty',)                               no members
# Every evaluation returns *all alternatives* that can reach the statement it is asked at (reaching definitions
# on the CFG, both arms of conditional expressions), so a claim about the result holds on every path.
# Forms that are not understood raise Undecided (never guessed).
# ---------------------------------------------------------------------------------------------------------------

class Undecided(Exception):
    pass


_NP = ('np.', 'numpy.')
_CONCAT = {'concatenate', 'hstack'}
_ASARRAY = {'array', 'asarray', 'asanyarray', 'atleast_1d', 'copy', 'ascontiguousarray'}
_APPENDS = {'append', 'extend'}


def _np_name(c: ast.Call) -> str | None:
    n = call_name(c)
    for p in _NP:
        if n.startswith(p):
            return n[len(p):]
    return None


class _Subst(ast.NodeTransformer):
    def __init__(self, mapping):
        self.mapping = mapping

    def visit_Name(self, n):
        if isinstance(n.ctx, ast.Load) and n.id in self.mapping:
            return copy.deepcopy(self.mapping[n.id])
        return n


def _subst(e, mapping):
    return _Subst(mapping).visit(copy.deepcopy(e))


class SeqView:
    def __init__(self, fi, prog=None):
        self.fi = fi
        self.prog = prog
        self.fn = fi.node
        self.params = set(fi.params)
        self.cfg = CFG(fi.node)
        self.nested = {x.name: x for x in ast.walk(fi.node)
                       if isinstance(x, (ast.FunctionDef, ast.AsyncFunctionDef)) and x is not fi.node}
        self.lambdas = {}
        self._reaching()
        self.dom = self.cfg.dominators(edge_ok=lambda a, b, lab: lab != 'e')

    # ---- reaching definitions (mutations of a container count as additional, non-killing definitions) ----------
    @staticmethod
    def _effects(node):
        """(kill+gen names, gen-only names) of a CFG node"""
        s = node.stmt
        kill, gen = set(), set()
        if s is None or node.kind not in ('stmt', 'iter', 'with', 'test', 'case', 'match'):
            return kill, gen
        heads = []
        if node.kind == 'iter':
            kill.update(assigned_names(s.target))
            heads = [s.iter]
        elif node.kind == 'with':
            for it in s.items:
                if it.optional_vars is not None:
                    kill.update(assigned_names(it.optional_vars))
                heads.append(it.context_expr)
        elif node.kind == 'test':
            heads = [s.test]
        elif node.kind == 'stmt':
            if isinstance(s, ast.Assign):
                for t in s.targets:
                    for e in _flat(t):
                        if isinstance(e, ast.Name):
                            kill.add(e.id)
                        else:
                            r = _root_name(e)
                            if r:
                                gen.add(r)
            elif isinstance(s, ast.AnnAssign):
                if s.value is not None and isinstance(s.target, ast.Name):
                    kill.add(s.target.id)
            elif isinstance(s, ast.AugAssign):
                r = _root_name(s.target)
                if r:
                    gen.add(r)
            elif isinstance(s, (ast.FunctionDef, ast.AsyncFunctionDef, ast.ClassDef)):
                kill.add(s.name)
                return kill, gen
            elif isinstance(s, ast.Delete):
                for t in s.targets:
                    r = _root_name(t)
                    if r:
                        gen.add(r)
            elif isinstance(s, (ast.Import, ast.ImportFrom)):
                for a in s.names:
                    kill.add((a.asname or a.name).split('.')[0])
            heads = [s]
        for h in heads:
            for x in walk_no_nested(h):
                if isinstance(x, ast.NamedExpr):
                    kill.add(x.target.id)
                if isinstance(x, ast.Call) and isinstance(x.func, ast.Attribute) and x.func.attr in MUTATING_METHODS:
                    r = _root_name(x.func.value)
                    if r:
                        gen.add(r)
        return kill, gen - kill

    def _reaching(self):
        eff = {n.id: self._effects(n) for n in self.cfg.nodes}

        def transfer(node, st):
            kill, gen = eff[node.id]
            if not kill and not gen:
                return st
            out = {(nm, d) for nm, d in st if nm not in kill}
            out.update((nm, node.id) for nm in kill | gen)
            return frozenset(out)

        self.ins, _ = self.cfg.forward(frozenset(), transfer, lambda a, b: a | b, edge_ok=lambda a, b, lab: lab != 'e')

    def _node_of(self, stmt):
        ids = [i for i in self.cfg.nodes_of(stmt) if self.cfg.nodes[i].kind != 'join' and i in self.ins]
        if not ids:
            raise Undecided(f'statement at line {getattr(stmt, "lineno", "?")} is not on any path')
        return ids

    def defs(self, at, name):
        """statements whose binding / mutation of `name` can reach statement `at`"""
        out = []
        for nid in self._node_of(at):
            for nm, d in self.ins[nid]:
                if nm == name and self.cfg.nodes[d].stmt not in out:
                    out.append(self.cfg.nodes[d].stmt)
        return sorted(out, key=lambda s: (s.lineno, s.col_offset))

    def is_param(self, at, name):
        return name in self.params and not self.defs(at, name)

    def returns(self):
        return sorted((n for n in walk_no_nested(self.fn) if isinstance(n, ast.Return)), key=lambda r: r.lineno)

    # ---- local helpers (nested def / lambda) are opened by substitution -------------------------------------
    def _callable(self, f, at):
        """(parameter names, body expression) of a lambda / nested single-expression function named by `f`"""
        if isinstance(f, ast.Lambda):
            lam = f
            return [a.arg for a in lam.args.args], lam.body
        if isinstance(f, ast.Name) and not self.is_param(at, f.id):
            ds = self.defs(at, f.id)
            if len(ds) == 1 and isinstance(ds[0], ast.Assign) and isinstance(ds[0].value, ast.Lambda):
                return self._callable(ds[0].value, ds[0])
            if len(ds) == 1 and isinstance(ds[0], (ast.FunctionDef,)):
                h = ds[0]
                a = h.args
                if a.vararg or a.kwarg or a.kwonlyargs or h.decorator_list:
                    raise Undecided(f'local helper {h.name} has a signature that is not opened')
                env = {}
                body = [s for s in h.body if not (isinstance(s, ast.Expr) and isinstance(s.value, ast.Constant))]
                for s in body[:-1]:
                    if isinstance(s, ast.Assign) and len(s.targets) == 1 and isinstance(s.targets[0], ast.Name):
                        env[s.targets[0].id] = _subst(s.value, env)
                    else:
                        raise Undecided(f'local helper {h.name} is more than assignments and a return')
                if not body or not isinstance(body[-1], ast.Return) or body[-1].value is None:
                    raise Undecided(f'local helper {h.name} does not end in a return of a value')
                return [x.arg for x in a.posonlyargs + a.args], _subst(body[-1].value, env)
        return None

    def open_calls(self, e, at, depth=0):
        """copy of expression `e` with calls of local helpers replaced by their bodies"""
        if depth > 6:
            raise Undecided('local helpers nest too deeply')
        view = self

        class T(ast.NodeTransformer):
            def visit_Call(self, c):
                self.generic_visit(c)
                cb = view._callable(c.func, at) if isinstance(c.func, (ast.Name, ast.Lambda)) else None
                if cb is None:
                    return c
                ps, body = cb
                if c.keywords and any(k.arg is None or k.arg not in ps for k in c.keywords) or len(c.args) > len(ps) \
                        or any(isinstance(a, ast.Starred) for a in c.args):
                    raise Undecided(f'call of local helper `{norm(c)[:50]}` is not a plain positional/keyword call')
                m = dict(zip(ps, c.args))
                m.update({k.arg: k.value for k in c.keywords})
                if set(m) != set(ps):
                    raise Undecided(f'call of local helper `{norm(c)[:50]}` relies on defaults')
                return view.open_calls(_subst(body, m), at, depth + 1)
        return T().visit(copy.deepcopy(e))

    # ---- scalars ------------------------------------------------------------------------------------------
    def scalar_env(self, e, at, bound=(), env=None, depth=0):
        """name -> defining expression for the names of `e` that have exactly one reaching plain definition"""
        env = {} if env is None else env
        if depth > 12:
            return env
        for nm in sorted(names_in(e)):
            if nm in env or nm in bound or self.is_param(at, nm):
                continue
            ds = self.defs(at, nm)
            if len(ds) == 1 and isinstance(ds[0], ast.Assign) and len(ds[0].targets) == 1 \
                    and isinstance(ds[0].targets[0], ast.Name):
                v = self.open_calls(ds[0].value, ds[0])
                env[nm] = v
                self.scalar_env(v, ds[0], bound, env, depth + 1)
        return env

    def index(self, e, at, bound=()):
        """`atom + offset` form of an index expression: (atom, offset); a constant is (None, offset)"""
        if e is None:
            return None
        e = self.open_calls(e, at)
        try:
            r = normal_form(e, self.scalar_env(e, at, bound))
        except AlgebraError as ex:
            raise Undecided(f'index `{norm(e)[:50]}`: {ex}')
        if list(r.den.keys()) != [()] or r.den[()] != 1:
            raise Undecided(f'index `{norm(e)[:50]}` is not of the form name + constant')
        atom, off = None, 0
        for mono, c in r.num.items():
            if mono == ():
                if c.denominator != 1:
                    raise Undecided(f'index `{norm(e)[:50]}` is not integral')
                off = int(c)
            elif len(mono) == 1 and mono[0][1] == 1 and c == 1 and atom is None:
                atom = mono[0][0]
            else:
                raise Undecided(f'index `{norm(e)[:50]}` is not of the form name + constant')
        return (atom, off)

    def _slice_bounds(self, s, at, bound):
        """(lo, hi) of a slicing subscript, or None when `s` is an element index"""
        if isinstance(s, ast.Slice):
            if s.step is not None and norm(s.step) != '1':
                raise Undecided(f'strided slice `{norm(s)}`')
            return self.index(s.lower, at, bound), self.index(s.upper, at, bound)
        if isinstance(s, ast.Call) and call_name(s) == 'slice' and not s.keywords and 1 <= len(s.args) <= 3:
            a = list(s.args)
            if len(a) == 3 and norm(a[2]) not in ('None', '1'):
                raise Undecided(f'strided slice `{norm(s)}`')
            lo, hi = (None, a[0]) if len(a) == 1 else (a[0], a[1])
            none = lambda x: x is None or (isinstance(x, ast.Constant) and x.value is None)
            return (None if none(lo) else self.index(lo, at, bound)), (None if none(hi) else self.index(hi, at, bound))
        if isinstance(s, ast.Name) and s.id not in bound and not self.is_param(at, s.id):
            ds = self.defs(at, s.id)
            if len(ds) == 1 and isinstance(ds[0], ast.Assign) and isinstance(ds[0].value, ast.Call) \
                    and call_name(ds[0].value) == 'slice':
                return self._slice_bounds(ds[0].value, ds[0], bound)
        return None

    # ---- sequences -------------------------------------------------------------------------------------------
    def seq(self, e, at, bound=(), depth=0):
        """alternatives (list of part lists) for the 1-D array expression `e` evaluated at statement `at`"""
        if depth > 25:
            raise Undecided('array expression nests too deeply')
        rec = lambda x, a=at, b=bound: self.seq(x, a, b, depth + 1)
        if isinstance(e, ast.Name):
            if e.id in bound or self.is_param(at, e.id):
                return [[('whole', e.id)]]
            ds = self.defs(at, e.id)
            if not ds:
                raise Undecided(f'`{e.id}` has no definition reaching line {at.lineno}')
            out = []
            for d in ds:
                if isinstance(d, (ast.For, ast.AsyncFor)) and isinstance(d.target, ast.Name) and d.target.id == e.id:
                    out.append([('whole', e.id)])
                elif isinstance(d, ast.Assign) and len(d.targets) == 1 and isinstance(d.targets[0], ast.Name):
                    out += self.seq(d.value, d, (), depth + 1)
                else:
                    raise Undecided(f'`{e.id}` is bound or altered by `{norm(d)[:60]}` (line {d.lineno})')
            return out
        if isinstance(e, ast.IfExp):
            arms = [x for x in (e.body, e.orelse) if not (isinstance(x, ast.Constant) and x.value is None)]
            return [alt for x in arms for alt in rec(x)]
        if isinstance(e, ast.Subscript):
            if norm(e.value) in ('np.r_', 'numpy.r_'):
                items = e.slice.elts if isinstance(e.slice, ast.Tuple) else [e.slice]
                return self._join([self._seq_or_elem(x, at, bound, depth) for x in items])
            b = self._slice_bounds(e.slice, at, bound)
            if b is None:
                raise Undecided(f'`{norm(e)[:50]}` is one element where an array is expected')
            out = []
            for alt in rec(e.value):
                if len(alt) == 1 and alt[0][0] == 'whole':
                    out.append([('slice', alt[0][1], b[0], b[1])])
                else:
                    raise Undecided(f'slice of a composed array `{norm(e)[:60]}`')
            return out
        if isinstance(e, (ast.List, ast.Tuple)):
            return self._join([rec(x.value) if isinstance(x, ast.Starred) else [[('elem', x, at, bound)]] for x in e.elts])
        if isinstance(e, ast.Call):
            cb = self._callable(e.func, at) if isinstance(e.func, (ast.Name, ast.Lambda)) else None
            if cb is not None:
                return rec(self.open_calls(e, at))
            n = _np_name(e)
            if isinstance(e.func, ast.Attribute) and e.func.attr == 'copy' and not e.args:
                return rec(e.func.value)
            if n in _CONCAT and e.args and isinstance(e.args[0], (ast.Tuple, ast.List)):
                ax = kwarg(e, 'axis') or (e.args[1] if len(e.args) > 1 else None)
                if ax is not None and norm(ax) not in ('0', 'None', '-1'):
                    raise Undecided(f'concatenation along axis {norm(ax)}')
                if any(isinstance(x, ast.Starred) for x in e.args[0].elts):
                    raise Undecided('concatenation of a starred sequence')
                return self._join([rec(x) for x in e.args[0].elts])
            if n == 'append' and len(e.args) == 2:
                return self._join([rec(e.args[0]), self._seq_or_elem(e.args[1], at, bound, depth)])
            if n in _ASARRAY and e.args:
                a = e.args[0]
                if isinstance(a, (ast.List, ast.Tuple)):
                    return rec(a)
                if n == 'atleast_1d':
                    return self._seq_or_elem(a, at, bound, depth)
                return rec(a)
        raise Undecided(f'array expression `{norm(e)[:70]}` is not a slice / concatenation / one-element array')

    def _seq_or_elem(self, x, at, bound, depth):
        if isinstance(x, ast.Subscript) and self._slice_bounds(x.slice, at, bound) is None \
                and norm(x.value) not in ('np.r_', 'numpy.r_'):
            return [[('elem', x, at, bound)]]
        try:
            return self.seq(x, at, bound, depth + 1)
        except Undecided:
            return [[('elem', x, at, bound)]]

    @staticmethod
    def _join(groups):
        out = [[]]
        for g in groups:
            out = [a + b for a in out for b in g]
            if len(out) > 256:
                raise Undecided('too many alternatives')
        return [SeqView._merge(a) for a in out]

    @staticmethod
    def _merge(parts):
        out = []
        for p in parts:
            if out and p[0] == 'slice' and out[-1][0] == 'slice' and out[-1][1] == p[1] and out[-1][3] is not None \
                    and out[-1][3] == p[2]:
                out[-1] = ('slice', p[1], out[-1][2], p[3])
            else:
                out.append(p)
        return out

    # ---- collections ---------------------------------------------------------------------------------------
    def source(self, e, at):
        """the tuple-of-arrays parameter that `e` iterates, unaltered"""
        if isinstance(e, ast.Call) and call_name(e) in ('tuple', 'list', 'iter') and len(e.args) == 1 and not e.keywords:
            return self.source(e.args[0], at)
        if isinstance(e, ast.Name):
            if self.is_param(at, e.id):
                return e.id
            ds = self.defs(at, e.id)
            if len(ds) == 1 and isinstance(ds[0], ast.Assign) and len(ds[0].targets) == 1 \
                    and isinstance(ds[0].targets[0], ast.Name):
                return self.source(ds[0].value, ds[0])
        raise Undecided(f'`{norm(e)[:50]}` is not one of the tuple-of-arrays parameters as received')

    def coll(self, e, at, depth=0):
        """alternatives for a tuple/list with one array per member of a tuple-of-arrays parameter"""
        if depth > 12:
            raise Undecided('collection expression nests too deeply')
        if isinstance(e, ast.Name):
            if self.is_param(at, e.id):
                return [('pervar', e.id, '_member', ast.Name(id='_member', ctx=ast.Load()), at, ('_member',))]
            ds = self.defs(at, e.id)
            if not ds:
                raise Undecided(f'`{e.id}` has no definition reaching line {at.lineno}')
            self._members_untouched(e.id)
            plain = [d for d in ds if isinstance(d, ast.Assign) and len(d.targets) == 1
                     and isinstance(d.targets[0], ast.Name) and d.targets[0].id == e.id]
            if len(plain) == len(ds):
                return [alt for d in ds for alt in self.coll(d.value, d, depth + 1)]
            return self._accumulated(e.id, at, ds, plain)
        if isinstance(e, (ast.Tuple, ast.List)) and not e.elts:
            return [('empty',)]
        if isinstance(e, ast.IfExp):
            return self.coll(e.body, at, depth + 1) + self.coll(e.orelse, at, depth + 1)
        if isinstance(e, (ast.GeneratorExp, ast.ListComp)):
            if len(e.generators) != 1 or e.generators[0].ifs or e.generators[0].is_async \
                    or not isinstance(e.generators[0].target, ast.Name):
                raise Undecided(f'comprehension `{norm(e)[:60]}` filters, nests or unpacks')
            g = e.generators[0]
            return [('pervar', self.source(g.iter, at), g.target.id, e.elt, at, (g.target.id,))]
        if isinstance(e, ast.Call):
            n = call_name(e)
            if n in ('tuple', 'list') and not e.keywords:
                if not e.args:
                    return [('empty',)]
                if len(e.args) == 1:
                    return self.coll(e.args[0], at, depth + 1)
            if n == 'map' and len(e.args) == 2 and not e.keywords:
                cb = self._callable(e.args[0], at) if isinstance(e.args[0], (ast.Name, ast.Lambda)) else None
                if cb is not None and len(cb[0]) == 1:
                    return [('pervar', self.source(e.args[1], at), cb[0][0], cb[1], at, (cb[0][0],))]
        raise Undecided(f'`{norm(e)[:70]}` is not a per-variable tuple (comprehension, map, or loop that appends)')

    def _members_untouched(self, name):
        """the arrays held by the local collection `name` are not altered in place through a loop variable / alias"""
        for lp in walk_no_nested(self.fn):
            if isinstance(lp, (ast.For, ast.AsyncFor)) and name in names_in(lp.iter):
                tg = set(assigned_names(lp.target))
                for x in walk_no_nested(lp):
                    hit = None
                    if isinstance(x, (ast.Assign, ast.AugAssign, ast.AnnAssign, ast.Delete)):
                        ts = x.targets if isinstance(x, (ast.Assign, ast.Delete)) else [x.target]
                        for t in ts:
                            for el in _flat(t):
                                if (not isinstance(el, ast.Name) or isinstance(x, ast.AugAssign)) and _root_name(el) in tg:
                                    hit = x
                    if isinstance(x, ast.Call) and isinstance(x.func, ast.Attribute) and _root_name(x.func.value) in tg \
                            and (x.func.attr in MUTATING_METHODS or x.func.attr in ('fill', 'put', 'resize', 'itemset')):
                        hit = x
                    if isinstance(x, ast.Call) and any(k.arg == 'out' and _root_name(k.value) in tg for k in x.keywords):
                        hit = x
                    if hit is not None:
                        raise Undecided(f'the arrays in `{name}` are altered in place after they are built '
                                        f'(`{norm(hit)[:60]}`, line {hit.lineno})')
            if isinstance(lp, ast.Assign) and isinstance(lp.value, ast.Name) and lp.value.id == name:
                raise Undecided(f'`{name}` is aliased (`{norm(lp)[:50]}`)')

    def _accumulated(self, name, at, ds, plain):
        """`name = []` followed by one loop over a tuple-of-arrays parameter that appends once per iteration"""
        if len(plain) != 1:
            raise Undecided(f'`{name}` is re-bound and appended to on different paths')
        init = plain[0].value
        empty = (isinstance(init, (ast.List, ast.Tuple)) and not init.elts) or \
            (isinstance(init, ast.Call) and call_name(init) in ('list', 'tuple') and not init.args)
        if not empty:
            raise Undecided(f'`{name}` does not start empty (`{norm(init)[:40]}`)')
        muts = [d for d in ds if d is not plain[0]]
        loops = []
        for mstmt in muts:
            lp = next((a for a in ancestors(mstmt) if isinstance(a, (ast.For, ast.AsyncFor, ast.While))), None)
            if lp is None or not isinstance(lp, ast.For) or not is_within(lp, self.fn):
                raise Undecided(f'`{name}` is altered outside a for-loop (`{norm(mstmt)[:50]}`)')
            if not any(lp is x for x in loops):
                loops.append(lp)
        if len(loops) != 1:
            raise Undecided(f'`{name}` is filled by {len(loops)} loops')
        lp = loops[0]
        if not isinstance(lp.target, ast.Name) or lp.orelse:
            raise Undecided(f'loop `for {norm(lp.target)} in …` unpacks its target or has an else')
        src = self.source(lp.iter, lp)
        for x in walk_no_nested(lp):
            if isinstance(x, (ast.Break, ast.Continue, ast.Return, ast.Raise, ast.Try, ast.While)) or \
                    (isinstance(x, ast.For) and x is not lp):
                raise Undecided(f'loop over `{src}` leaves or nests (`{norm(x)[:40]}`)')
        head = next(i for i in self.cfg.nodes_of(lp) if self.cfg.nodes[i].kind == 'iter')
        if not all(head in self.dom.get(n, ()) for n in self._node_of(at)) or \
                not any(i in self.dom.get(head, ()) for i in self.cfg.nodes_of(plain[0])):
            raise Undecided(f'the loop filling `{name}` is not passed on every path to line {at.lineno}')

        def added(st):
            """element expression appended to `name` by statement st, else None"""
            if isinstance(st, ast.Expr) and isinstance(st.value, ast.Call) and isinstance(st.value.func, ast.Attribute) \
                    and norm(st.value.func.value) == name:
                c = st.value
                if c.func.attr == 'append' and len(c.args) == 1 and not c.keywords:
                    return c.args[0]
                if c.func.attr == 'extend' and len(c.args) == 1 and isinstance(c.args[0], (ast.List, ast.Tuple)) \
                        and len(c.args[0].elts) == 1 and not isinstance(c.args[0].elts[0], ast.Starred):
                    return c.args[0].elts[0]
            if isinstance(st, ast.AugAssign) and isinstance(st.op, ast.Add) and norm(st.target) == name \
                    and isinstance(st.value, (ast.List, ast.Tuple)) and len(st.value.elts) == 1 \
                    and not isinstance(st.value.elts[0], ast.Starred):
                return st.value.elts[0]
            return None

        def paths(body):
            """per path through `body`: the list of (element, statement) appended"""
            out = [[]]
            for st in body:
                if any(st is mm for mm in muts):
                    el = added(st)
                    if el is None:
                        raise Undecided(f'`{norm(st)[:60]}` does not add exactly one element to `{name}`')
                    out = [p + [(el, st)] for p in out]
                elif isinstance(st, ast.If) and any(is_within(mm, st) for mm in muts):
                    out = [p + q for p in out for q in paths(st.body) + paths(st.orelse)]
                elif any(is_within(mm, st) for mm in muts):
                    raise Undecided(f'`{name}` is altered inside `{norm(st)[:40]}`')
            return out
        alts = []
        for p in paths(lp.body):
            if len(p) != 1:
                raise Undecided(f'a pass of the loop over `{src}` adds {len(p)} elements to `{name}` (expected one per variable)')
            alts.append(('pervar', src, lp.target.id, p[0][0], p[0][1], ()))
        return alts


# ---- analysis of one inserted element ----------------------------------------------------------------------------
_ELEM = 'ELEM__'
_KEEP = {'np', 'numpy', 'math', 'self'}


def _ph(atom, off):
    return f'{_ELEM}{re.sub(r"[^0-9A-Za-z]", "_", atom or "")}__{"m" if off < 0 else "p"}{abs(off)}'


def closed(view, e, at, bound=()):
    """copy of `e` with local helper calls opened and singly-defined locals substituted as far as they go"""
    e = view.open_calls(e, at)
    env = view.scalar_env(e, at, bound)
    for _ in range(12):
        if not (names_in(e) & set(env)):
            break
        e = _subst(e, env)
    return e


def _rename(e, prefix):
    e = copy.deepcopy(e)
    for x in ast.walk(e):
        if isinstance(x, ast.Name) and x.id not in _KEEP:
            x.id = prefix + x.id
    return e


def elem_form(view, part, base):
    """An inserted element as a rational function of the elements `base[k + off]` it is computed from:
    (normal form, {placeholder: (atom, off)}, expression with placeholders, closed expression)."""
    _, x, at, bound = part
    e = closed(view, x, at, bound)
    marks = {}

    class T(ast.NodeTransformer):
        def visit_Subscript(self, n):
            if isinstance(n.value, ast.Name) and n.value.id == base and view._slice_bounds(n.slice, at, bound) is None:
                a, off = view.index(n.slice, at, bound)
                marks[_ph(a, off)] = (a, off)
                return ast.copy_location(ast.Name(id=_ph(a, off), ctx=ast.Load()), n)
            self.generic_visit(n)
            return n
    shown = norm(e)
    e2 = T().visit(e)
    try:
        r = normal_form(e2, {})
    except AlgebraError as ex:
        raise Undecided(f'inserted element `{shown[:60]}`: {ex}')
    return r, marks, e2, shown


def is_multiple_of(r, ph, base):
    """r ≡ ph · f where f mentions neither ph nor any other element of `base`"""
    if not r.num or any(a == ph for mono in r.den for a, _ in mono):
        return False
    if not all(dict(mono).get(ph) == 1 for mono in r.num):
        return False
    return not any(a != ph and (_ELEM in a or re.search(rf'\b{re.escape(base)}\b', a)) for a in r.atoms())


def _ix(i):
    if i is None:
        return ''
    a, off = i
    return (a or '') + (f' {"+" if off > 0 else "-"} {abs(off)}' if off and a else (str(off) if not a else ''))


def show_parts(parts):
    out = []
    for p in parts:
        if p[0] == 'slice':
            out.append(f'{p[1]}[{_ix(p[2])}:{_ix(p[3])}]')
        elif p[0] == 'whole':
            out.append(p[1])
        else:
            out.append(f'[{norm(p[1])[:48]}]')
    return ' ++ '.join(out) if out else '(nothing)'


def ret_elts(view, r):
    """components of the tuple returned by `r`: [(expr, statement it is evaluated at)]"""
    v, at = r.value, r
    for _ in range(4):
        if isinstance(v, ast.Name) and not view.is_param(at, v.id):
            ds = view.defs(at, v.id)
            if len(ds) == 1 and isinstance(ds[0], ast.Assign) and len(ds[0].targets) == 1 and isinstance(ds[0].targets[0], ast.Name):
                v, at = ds[0].value, ds[0]
                continue
        break
    if isinstance(v, ast.Call) and view.prog is not None:
        # a record (NamedTuple / dataclass) built from the parts: components in field order
        from ..resolve import resolve_class_call
        ci = resolve_class_call(view.prog, view.fi, v)
        if ci is not None and not any(isinstance(a, ast.Starred) for a in v.args) and all(k.arg for k in v.keywords):
            fields = list(ci.annotated_fields())
            got = dict(zip(fields, v.args))
            got.update({k.arg: k.value for k in v.keywords})
            if len(v.args) <= len(fields) and set(got) == set(fields):
                return [(got[f], at) for f in fields]
    if not isinstance(v, ast.Tuple):
        raise Undecided(f'return at line {r.lineno} does not return a tuple of parts')
    if any(isinstance(x, ast.Starred) for x in v.elts):
        raise Undecided(f'return at line {r.lineno} returns a starred tuple')
    return [(x, at) for x in v.elts]


def index_param(view, seqs):
    """the one parameter that every slice bound / element index of these sequences is an offset of"""
    atoms = set()
    for parts, base in seqs:
        for p in parts:
            if p[0] == 'slice':
                atoms |= {i[0] for i in p[2:4] if i is not None and i[0] is not None}
            elif p[0] == 'elem':
                _, marks, _, _ = elem_form(view, p, base)
                atoms |= {a for a, _ in marks.values() if a is not None}
    return atoms


def guarded_empty(r, name):
    """return statement r is only reached when the tuple parameter `name` is empty"""
    for test, pol, _ in guards_of(r):
        for e, p in conjuncts(test, pol):
            if isinstance(e, ast.Name) and e.id == name and not p:
                return True
            if isinstance(e, ast.Call) and call_name(e) == 'len' and e.args and norm(e.args[0]) == name and not p:
                return True
            if isinstance(e, ast.Compare) and len(e.ops) == 1 and norm(e.left) == f'len({name})' and norm(e.comparators[0]) == '0':
                if (isinstance(e.ops[0], ast.Eq) and p) or (isinstance(e.ops[0], (ast.NotEq, ast.Gt)) and not p):
                    return True
    return False


SPLITS = (('first', 'Gridder._dateline_split_first_segment'), ('second', 'Gridder._dateline_split_second_segment'))
IV = 'integrated_variables'


def _same_fn(a, b):
    return a is not None and (a == b or a.node is b.node)


def split_call(ctx, rule, gc, fn):
    prog = ctx.prog
    call = next((c for c in calls_in(gc.node) if _same_fn(resolve_call(prog, gc, c), fn)), None)
    if call is None:
        ctx.undecided(rule, gc, fn.qualname, 'split call not found')
    if any(isinstance(a, ast.Starred) for a in call.args) or any(k.arg is None for k in call.keywords):
        ctx.undecided(rule, gc, fn.qualname, 'split call uses * / ** arguments')
    params = [p for p in fn.params if p not in ('self', 'cls')]
    binding = dict(zip(params, call.args))
    binding.update({k.arg: k.value for k in call.keywords})
    return call, binding


def rule_split_sum(ctx, m):
    try:
        _rule_split_sum(ctx, m)
    except Undecided as e:
        ctx.undecided('C04-R1', (GRID, 'Gridder._dateline_split_*'), 'antimeridian split', str(e))


def _rule_split_sum(ctx, m):
    prog = ctx.prog
    cs = m.func('Gridder._calculate_segment_lengths')
    gc = m.func('Gridder._grid_trajectory_with_dateline_crossing')
    csv, gcv = SeqView(cs, prog), SeqView(gc, prog)
    # ---- the two lengths: from element k to the antimeridian (A) and from there to element k+1 (B) -----------------
    rets = csv.returns()
    if len(rets) != 1:
        ctx.undecided('C04-R1', cs, 'return', f'{len(rets)} return statements')
    lens = [closed(csv, x, at) for x, at in ret_elts(csv, rets[0])]
    side = {}
    kcs = set()
    for j, e in enumerate(lens):
        offs = set()
        for x in ast.walk(e):
            if isinstance(x, ast.Subscript) and csv._slice_bounds(x.slice, rets[0], ()) is None:
                a, off = csv.index(x.slice, rets[0])
                offs.add(off)
                kcs.add(a)
        try:
            r = normal_form(e, {})
        except AlgebraError as ex:
            ctx.undecided('C04-R1', cs, norm(e)[:60], str(ex))
        prim = len(r.num) == 1 and list(r.den.keys()) == [()] and all(len(mo) == 1 and mo[0][1] == 1 and c == 1 for mo, c in r.num.items())
        if prim and offs == {0}:
            side.setdefault('first', []).append(j)
        elif prim and 1 in offs:
            side.setdefault('second', []).append(j)
    ok = all(len(side.get(s, [])) == 1 for s in ('first', 'second')) and len(kcs) == 1
    ctx.ob('C04-R1', cs, 'one length measured from element k to the antimeridian, one from there to element k+1', ok,
           f'returned components {side.get("first")} and {side.get("second")}' if ok else
           'the two part lengths of the crossing segment are not both returned as measured lengths', line=rets[0].lineno)
    if not ok:
        return
    kcs = kcs.pop()
    A = _rename(lens[side['first'][0]], 'cs__')
    B = _rename(lens[side['second'][0]], 'cs__')
    total = ast.BinOp(left=A, op=ast.Add(), right=B)
    want = {'first': ast.BinOp(left=A, op=ast.Div(), right=total), 'second': ast.BinOp(left=B, op=ast.Div(), right=total)}
    # ---- caller: the returned lengths under the names they are unpacked to ------------------------------------
    unpack = None
    for t_, st, how in stores_to(gc.node):
        if isinstance(st, ast.Assign) and isinstance(st.value, ast.Call) and _same_fn(resolve_call(prog, gc, st.value), cs):
            unpack = st
    if unpack is None or not isinstance(unpack.targets[0], ast.Tuple) or len(unpack.targets[0].elts) != len(lens) \
            or not all(isinstance(x, ast.Name) for x in unpack.targets[0].elts):
        ctx.undecided('C04-R1', gc, '_calculate_segment_lengths', 'result is not unpacked into one name per returned length')
    genv = {'caller__' + x.id: _rename(e, 'cs__') for x, e in zip(unpack.targets[0].elts, lens)}
    cs_params = [p for p in cs.params if p not in ('self', 'cls')]
    cs_bind = dict(zip(cs_params, unpack.value.args))
    cs_bind.update({k.arg: k.value for k in unpack.value.keywords if k.arg})
    kbind = {'lengths': norm(closed(gcv, cs_bind[kcs], unpack)) if kcs in cs_bind else None}

    shares = {}
    nshare = 0
    for part, qn in SPLITS:
        fn = m.func(qn)
        view = SeqView(fn, prog)
        call, binding = split_call(ctx, 'C04-R1', gc, fn)
        if IV not in binding:
            ctx.undecided('C04-R1', fn, IV, 'the split function has no such parameter')
        env = dict(genv)
        for p, a_ in binding.items():
            env[p] = _rename(closed(gcv, a_, stmt_of(call)), 'caller__')
        returns = view.returns()
        evaluated = []
        for r in returns:
            row = []
            for x, at in ret_elts(view, r):
                try:
                    row.append(view.coll(x, at))
                except Undecided as e:
                    row.append(e)
            evaluated.append(row)
        pos = {j for row in evaluated for j, alts in enumerate(row) if isinstance(alts, list)
               and any(a[0] == 'pervar' and a[1] == IV for a in alts)}
        if len(pos) != 1:
            why = '; '.join(sorted({str(a) for row in evaluated for a in row if isinstance(a, Undecided) and IV in str(a)}))
            ctx.undecided('C04-R1', fn, 'returned parts', f'{len(pos)} returned components are recognised as built from {IV}'
                          + (f' ({why[:300]})' if why else ''))
        pos = pos.pop()
        shares[part] = []
        for ri, (r, row) in enumerate(zip(returns, evaluated)):
            tag = f'{part} part, return #{ri + 1}'
            if pos >= len(row):
                ctx.undecided('C04-R1', fn, tag, 'returns fewer parts')
            if isinstance(row[pos], Undecided):
                ctx.undecided('C04-R1', fn, tag, str(row[pos]))
            for alt in row[pos]:
                if alt[0] == 'empty':
                    if not guarded_empty(r, IV):
                        ctx.undecided('C04-R1', fn, tag, f'returns no integrated arrays on a path where {IV} is not known to be empty')
                    continue
                _, src, var, expr, at, bound = alt
                if src != IV:
                    ctx.ob('C04-R1', fn, f'{tag}: integrated part built from {src}', False,
                           f'the integrated part of the split is computed from `{src}`, not from `{IV}`', line=r.lineno)
                    continue
                for parts in view.seq(expr, at, bound):
                    nshare += _check_share(ctx, fn, view, part, tag, r, var, parts, env, want[part], shares[part], kbind)
    ctx.floor('C04-R1', nshare, 2, 'return paths of the two split functions examined for the crossing-segment share')
    # ---- the two parts are cut at the same element the lengths were measured at ---------------------------------------
    ok = len({v for v in kbind.values()}) == 1 and None not in kbind.values()
    ctx.ob('C04-R1', gc, f'lengths and both parts use crossing element {sorted(set(map(str, kbind.values())))}', ok,
           'one crossing index' if ok else 'the lengths are measured at a different element than the one that is split', nontrivial=False)
    # ---- over every pair of paths the two shares add up to one -----------------------------------------------------
    for d1, s1 in shares['first']:
        for d2, s2 in shares['second']:
            ok = poly_equal(s1 + s2, normal_form(ast.Constant(1), {}))
            ctx.ob('C04-R1', gc, f'{d1} + {d2} ≡ 1', ok,
                   'with the lengths as returned by _calculate_segment_lengths the two shares sum to one identically' if ok else
                   'the two shares of the crossing segment sum to ' + re.sub(r'\b(caller|cs)__', '', str(s1 + s2))[:160] + ', not 1', line=gc.node.lineno)


def _check_share(ctx, fn, view, part, tag, r, var, parts, env, want, shares, kbind):
    """one return path of one split function: [kept elements] + [crossing element × share], each exactly once"""
    desc = show_parts(parts)
    elems = [p for p in parts if p[0] == 'elem']
    katoms = index_param(view, [(parts, var)])
    if len(katoms) != 1 or not katoms <= set(fn.params):
        ctx.undecided('C04-R1', fn, tag, f'`{desc}` is not cut at one index parameter ({sorted(map(str, katoms))})')
    k = next(iter(katoms))
    call_arg = env.get(k)
    kbind[part] = norm(call_arg).replace('caller__', '') if call_arg is not None else None
    # (a) the share term is there, once
    if len(elems) != 1:
        ctx.ob('C04-R1', fn, f'{tag}: crossing share included once in {desc}', False,
               (f'on the path that returns at line {r.lineno} the {part} part is `{desc}`: the crossing segment\'s share for this '
                'part (value × part length / total length) is not added — the other part still receives only its own share, '
                'so the quantity is lost') if not elems else
               f'the {part} part `{desc}` contains {len(elems)} inserted elements: the crossing segment is counted more than once',
               line=r.lineno)
        return 1
    f, marks, e2, shown = elem_form(view, elems[0], var)
    ph = _ph(k, 0)
    ok = ph in marks and is_multiple_of(f, ph, var)
    ctx.ob('C04-R1', fn, f'{tag}: inserted element is {var}[{k}] × share', ok,
           f'`{shown[:70]}`' if ok else
           f'the inserted element `{shown[:70]}` is not the crossing element {var}[{k}] times a share',
           line=getattr(elems[0][1], 'lineno', r.lineno))
    # (b) the kept elements are exactly those on this side of the crossing element
    rest = [p for p in parts if p[0] != 'elem']
    zero = (None, (None, 0))
    if part == 'first':
        okk = len(rest) == 1 and rest[0][0] == 'slice' and rest[0][1] == var and rest[0][2] in zero and rest[0][3] == (k, 0) \
            and parts[-1][0] == 'elem'
    else:
        okk = len(rest) == 1 and rest[0][0] == 'slice' and rest[0][1] == var and rest[0][2] == (k, 1) and rest[0][3] is None \
            and parts[0][0] == 'elem'
    ctx.ob('C04-R1', fn, f'{tag}: keeps unsplit elements {show_parts(rest)}', okk,
           'all elements before (after) the crossing one, the crossing one only as its share' if okk else
           f'`{desc}`: the unsplit elements overlap with or miss the crossing element {var}[{k}]: quantity is duplicated or lost',
           line=r.lineno)
    if not ok:
        return 1
    # (c) the share is this part's own length over the sum of both
    env2 = dict(env)
    env2[ph] = ast.Constant(1)
    try:
        share = normal_form(e2, env2)
        wanted = normal_form(want, {})
    except AlgebraError as ex:
        raise Undecided(f'share `{shown[:60]}`: {ex}')
    oks = poly_equal(share, wanted)
    txt = norm(_subst(_subst(e2, {ph: ast.Name(id='ONE__', ctx=ast.Load())}), {p: v for p, v in env.items() if not p.startswith('caller__')}))
    txt = re.sub(r'\b(caller|cs)__', '', txt.replace('ONE__ * ', '').replace(' * ONE__', '').replace('ONE__', '1'))
    ctx.ob('C04-R1', fn, f'{tag}: share = {txt[:80]}', oks,
           f'share of the {part} part = its own length over the sum of both lengths' if oks else
           (f'the {part} part of the crossing segment is scaled by `{txt[:80]}`, which is not the {part} length over the '
            'sum of both lengths: the two shares no longer add up to the segment value'), line=getattr(elems[0][1], 'lineno', r.lineno))
    shares.append((f'{part}#{tag[-1]} {txt[:60]}', share))
    return 1


def rule_share(ctx, m):
    fn = m.func(SHARE_FN)
    d = single_def_value(fn.node, 'subsegment_distance_fractions')
    if not (isinstance(d, ast.Call) and call_name(d) in ('np.divide', 'numpy.divide')):
        if isinstance(d, ast.Call) and call_name(d) in ('np.where', 'numpy.where') and len(d.args) == 3:
            c, a, b = d.args
            ok = isinstance(c, ast.Compare) and isinstance(c.ops[0], ast.NotEq) and norm(b) in ('1.0', '1', 'np.ones_like(subsegment_distances)')
            ctx.ob('C04-R2', fn, f'share = {norm(d)[:80]}', ok, 'np.where form defaulting to one' if ok else
                   'share of a zero-length segment is not one', line=d.lineno)
            return
        ctx.undecided('C04-R2', fn, 'subsegment_distance_fractions', 'share is not a guarded np.divide / np.where')
    num, den = d.args[0], d.args[1]
    out, where = kwarg(d, 'out'), kwarg(d, 'where')
    ok_where = where is not None and isinstance(where, ast.Compare) and isinstance(where.ops[0], ast.NotEq) \
        and norm(where.left) == norm(den) and norm(where.comparators[0]) in ('0', '0.0')
    ctx.ob('C04-R2', fn, f'division guarded by where={norm(where) if where is not None else None}', ok_where,
           'guard tests the denominator' if ok_where else
           (f'the guard of the share division tests `{norm(where.left) if isinstance(where, ast.Compare) else None}` '
            f'instead of the denominator `{norm(den)}`: zero-length *pieces* of a real segment get the default '
            'share and the segment is counted again (or a zero denominator is divided by)'), line=d.lineno)
    ok_out = isinstance(out, ast.Call) and call_name(out) in ('np.ones_like', 'np.ones', 'numpy.ones_like')
    ctx.ob('C04-R2', fn, f'default share out={norm(out) if out is not None else None}', ok_out,
           'a zero-length segment keeps its whole quantity (share one)' if ok_out else
           'a repeated point (zero-length segment) gets share 0: its integrated quantity is lost from the gridded total',
           line=d.lineno)
    ok = norm(num) == 'subsegment_distances' and norm(den) == 'segment_distances_repeated'
    ctx.ob('C04-R3', fn, f'share = {norm(num)} / {norm(den)}', ok, 'piece length over whole-segment length' if ok else
           'numerator/denominator of the share changed', line=d.lineno)
    # R3 repeats
    reps = [c for c in calls_in(fn.node) if call_name(c) in ('np.repeat', 'numpy.repeat')]
    ctx.floor('C04-R3', len(reps), 5, 'np.repeat calls in the share computation')
    counts = {norm(c.args[1]) for c in reps if len(c.args) > 1}
    cd = [st for t, st, how in stores_to(fn.node) if isinstance(t, ast.Name) and t.id in counts]
    ok = len(counts) == 1 and len(cd) == 1
    ctx.ob('C04-R3', fn, f'{len(reps)} expansions use count vector(s) {sorted(counts)}', ok,
           'one singly-defined repetition vector for cells, state, numerators and denominators' if ok else
           'outputs are expanded by different count vectors: lengths / attribution disagree', line=reps[0].lineno)
    cdef = cd[0].value if cd else None
    ok = cdef is not None and norm(cdef) == 'np.count_nonzero(~np.isnan(all_subsegment_lat_indices), axis=1)'
    ctx.ob('C04-R3', fn, f'count vector = {norm(cdef) if cdef is not None else "?"}', ok,
           'number of touched cells per segment' if ok else 'count vector definition changed', nontrivial=False)
    sd = [st for t, st, how in stores_to(fn.node) if isinstance(t, ast.Name) and t.id == 'segment_distances']
    ok = len(sd) == 1 and norm(sd[0].value) == 'great_circle_distance(lats[:-1], lons[:-1], lats[1:], lons[1:])'
    ctx.ob('C04-R3', fn, 'whole-segment length between consecutive points', ok, norm(sd[0].value) if ok else
           'segment length is not measured between consecutive trajectory points')
    rp = single_def_value(fn.node, 'segment_distances_repeated')
    ok = rp is not None and norm(rp) == 'np.repeat(segment_distances, count_subsegments)'
    ctx.ob('C04-R3', fn, 'denominator expanded with the count vector', ok, norm(rp) if ok else 'denominator expansion changed', nontrivial=False)
    iv = single_def_value(fn.node, 'integrated_variable_values')
    ivs = [st.value for t, st, how in stores_to(fn.node) if isinstance(t, ast.Name) and t.id == 'integrated_variable_values']
    gen = next((v for v in ivs if isinstance(v, ast.Call) and call_name(v) == 'tuple'), None)
    ok = gen is not None and 'np.repeat(variable, count_subsegments) * subsegment_distance_fractions' in norm(gen)
    ctx.ob('C04-R3', fn, 'piece value = repeated segment value × share', ok, 'value × share' if ok else
           'integrated values are not the segment value times its share')
    # sub-segment distances: consecutive flattened points, with the joints between segments removed
    ssd = [st for t, st, how in stores_to(fn.node) if isinstance(t, ast.Name) and t.id == 'subsegment_distances']
    ok = len(ssd) == 2 and 'all_segment_point_lats_flat[:-1]' in norm(ssd[0].value) and 'all_segment_point_lats_flat[1:]' in norm(ssd[0].value) \
        and norm(ssd[1].value) == 'np.delete(subsegment_distances, non_segment_idxs)'
    ctx.ob('C04-R3', fn, 'piece lengths between consecutive intersection points, joints removed', ok,
           'np.delete(…, non_segment_idxs)' if ok else 'piece length computation changed')
    ns = single_def_value(fn.node, 'non_segment_idxs')
    ok = ns is not None and norm(ns) == '(np.cumsum(count_subsegments + 1) - 1)[:-1]'
    ctx.ob('C04-R3', fn, 'joint positions from the same count vector', ok, norm(ns) if ok else 'joint index computation changed')


def rule_suffix(ctx, m, rule='C04-R4', only=None, name_filter=None):
    """first/second marker agreement in the antimeridian code."""
    prog = ctx.prog
    fns = [m.func(q) for q in ('Gridder._grid_trajectory_with_dateline_crossing',
                               'Gridder._dateline_split_first_segment', 'Gridder._dateline_split_second_segment',
                               'Gridder._cell_idxs_and_variables_for_dateline_split_trajectory',
                               'Gridder._calculate_segment_lengths')]
    n = 0
    for fn in fns:
        for st in walk_no_nested(fn.node):
            if isinstance(st, ast.Assign):
                tnames = [x for t in st.targets for x in ast.walk(t) if isinstance(x, ast.Name)]
                tm = {marker(x.id) for x in tnames} - {None}
                if len(tm) != 1:
                    continue
                want = tm.pop()
                # names used on the right-hand side (excluding the callee name itself)
                bad = []
                for x in ast.walk(st.value):
                    if isinstance(x, ast.Name) and marker(x.id) not in (None, want):
                        bad.append(x.id)
                    if isinstance(x, ast.Attribute) and isinstance(x.ctx, ast.Load) and marker(x.attr) not in (None, want) \
                            and not isinstance(getattr(x, '_parent', None), ast.Call):
                        bad.append(x.attr)
                    if isinstance(x, ast.Call) and isinstance(x.func, ast.Attribute) and marker(x.func.attr) not in (None, want):
                        bad.append(x.func.attr + '()')
                if name_filter is not None:
                    bad = [b for b in bad if name_filter(b)]
                n += 1
                ctx.ob(rule, fn, f'{want}-part assignment to {norm(st.targets[0])[:50]}', not bad,
                       f'only {want}-part inputs' if not bad else
                       f'the {want} part is computed from {sorted(set(bad))}: data of the other part is used',
                       line=st.lineno, nontrivial=bool(bad))
        # concatenations [X_first…, X_second…]
        for c in calls_in(fn.node):
            if call_name(c) == 'np.concatenate' and c.args and isinstance(c.args[0], (ast.List, ast.Tuple)) and len(c.args[0].elts) == 2:
                a, b = c.args[0].elts
                if isinstance(a, ast.Name) and isinstance(b, ast.Name) and marker(a.id) and marker(b.id):
                    if name_filter is not None and not (name_filter(a.id) or name_filter(b.id)):
                        continue
                    n += 1
                    stem = lambda s: re.sub(r'_?(first|second)', '', s)
                    ok = marker(a.id) == 'first' and marker(b.id) == 'second' and stem(a.id) == stem(b.id)
                    ctx.ob(rule, fn, f'concatenate [{a.id}, {b.id}]', ok, 'first then second of the same quantity' if ok else
                           'the two halves are joined in the wrong order or from different quantities', line=c.lineno)
    ctx.floor(rule, n, 12, 'first/second-marked statements')


def rule_passthrough(ctx, m):
    """R5/R6: nothing drops or re-orders pieces before the share computation."""
    hz = m.func('Gridder._trajectory_intersection_points_and_cells_horizontal')
    for ax, coord in (('lat', 'lats'), ('lon', 'lons')):
        d = single_def_value(hz.node, f'{ax}_change_signs')
        ok = d is not None and norm(d) == f'np.sign(np.diff({coord}))'
        ctx.ob('C04-R5', hz, f'{ax}_change_signs = {norm(d) if d is not None else "?"}', ok,
               'ordering direction from the coordinates themselves' if ok else
               ('the ordering direction of intersection points is not the sign of the coordinate difference: a leg '
                f'inside one {ax} band (index change 0) gets direction 0, its pieces zig-zag and its length '
                'fractions sum to more than one'), line=(d.lineno if d is not None else hz.node.lineno))
    rule_forwarding(ctx, m, 'C04-R6', ('integrated_variables', 'lats', 'lons'),
                    'points / per-segment quantities that are filtered out or moved here are missing from, or misplaced in, '
                    'the gridded total')


def rule_forwarding(ctx, m, rule, tracked, consequence):
    """the entry points hand their arguments to the gridding as received"""
    forwarding = ['Gridder.grid_trajectory', 'Gridder._grid_trajectory_without_dateline_crossing',
                  'Gridder._grid_trajectory_with_dateline_crossing']
    for qn in forwarding:
        fi = m.func(qn)
        for nm in tracked:
            if nm not in fi.params:
                continue
            rebinds = [st for t, st, how in stores_to(fi.node) for x in ast.walk(t) if isinstance(x, ast.Name) and x.id == nm]
            filt = [x for x in walk_no_nested(fi.node) if isinstance(x, ast.Subscript) and norm(x.value) == nm
                    and nm == 'integrated_variables']
            ok = not rebinds
            ctx.ob(rule, fi, f'`{nm}` reaches the gridding unmodified', ok,
                   'passed through as received' if ok else
                   (f'`{nm}` is rebound at line {rebinds[0].lineno} (`{norm(rebinds[0])[:70]}`) before the cells and shares are '
                    f'computed: {consequence}'), line=(rebinds[0].lineno if rebinds else fi.node.lineno))
        for c in calls_in(fi.node):
            callee = resolve_call(ctx.prog, fi, c)
            if callee is not None and 'integrated_variables' in callee.params:
                i = callee.params.index('integrated_variables') - 1
                a = c.args[i] if 0 <= i < len(c.args) else None
                ok = a is not None and norm(a) == 'integrated_variables'
                ctx.ob(rule, fi, f'{callee.name}(…, integrated_variables={norm(a) if a is not None else "?"})', ok,
                       'the caller\'s integrated variables, whole' if ok else
                       'a filtered / different value is passed as the integrated variables', line=c.lineno)


def run(ctx):
    m = ctx.prog.module(GRID)
    rule_passthrough(ctx, m)
    rule_split_sum(ctx, m)
    rule_share(ctx, m)
    # only names that bear on the integrated quantities: the values themselves, the split lengths and the geometry
    rule_suffix(ctx, m, name_filter=lambda nme: re.search(r'integrated|length|lat|lon', nme) is not None)
    # the horizontal cells a segment's pieces are cut at come from searching the axes themselves (shares sum to one
    # only if the start/end cells and the midpoint cells are found the same way)
    from .c05 import rule_lookup
    rule_lookup(ctx, m, 'C04-R7')
    ctx.note('NOT decided: the numeric conservation bound, grid-line intersection geometry, great-circle vs map-line lengths')
    ctx.assumptions += ['np.divide(out=, where=) leaves `out` untouched where the guard is false',
                        'np.repeat(a, counts) repeats element i counts[i] times']
