"""C04 — gridding conserves every integrated quantity (structural clauses only).

The numeric bound ("never less, no more than the small great-circle excess")
is a real-valued inequality over geometry and is NOT decided.  Decided:

R1  antimeridian split (T-ALG + reaching definitions on the CFG + def-use across
    the calls).  For each of the two split functions and on EVERY path to a
    return, the integrated part built per variable v is exactly
    [elements before k] ++ [v[k]·share]  (first)  /  [v[k]·share] ++ [elements
    after k]  (second): the share term is passed exactly once (no return
    bypasses it), is a multiple of the crossing element only, and the kept
    slices tile the rest without overlap.  The part is found through
    comprehension / map / helper or loop-append forms and any of concatenate /
    hstack / append / r_ / list spellings; straight-line repository helpers
    (assignments, guard clauses, if/elif/else with early returns) are opened by
    substitution.  Substituting the call arguments and the lengths as returned
    by _calculate_segment_lengths (A measured from element k to the
    antimeridian, B from there to k+1), share(first) ≡ A/(A+B),
    share(second) ≡ B/(A+B), and over every pair of paths the two sum to 1;
    lengths and both parts use one crossing index.  The interface is free: the
    inputs may arrive in RECORD parameters (a parameter the function only takes
    apart - `P[i]`, `P.field`, `a, b = P[:2]` -: NamedTuple, dataclass, tuple).
    The integrated variables are then the component that IS the driver's
    `integrated_variables` at the call, and every component the share reads
    (index, lengths, a property such as total_length - opened) is replaced by
    what the driver put into the record, so a length read from the wrong field,
    a record built with the lengths swapped and a wrong property are all
    decided by the same identity.
All rules read the module after one more preparation (open_module_value_objects): a local that holds an IMMUTABLE
    VALUE OBJECT of a class of the module - dataclass / NamedTuple of annotated fields, properties and methods that
    each return one expression, built once from names the function never rebinds, used only through its fields and
    members - is opened where it is read, in any expression position (arm of a conditional expression, element of a
    comprehension), so `c = _Crossing(k, sign); c.head(lats)` is the concatenation head() returns with k for the field.
    A wrong member (slice off by one, lengths swapped) is then judged like the hand-written expression.
R2-R7 are decided on CLOSED VALUES (class Values): a returned component is
    rewritten over the function's parameters as received, the grid axes and the
    arrays of the horizontal intersection - locals replaced by the definition
    that reaches the use (reaching definitions), tuple / record components
    taken apart, repository helpers with a straight-line body replaced by what
    they return - and put in one canonical spelling (np./numpy., method vs
    function, keyword vs positional, list vs tuple displays, `.flatten()` after
    boolean-mask indexing, `0 != x`, `np.logical_not`).  A local that holds an
    ACCUMULATOR OBJECT of a plain repository class (every instance creates its
    own empty list in __init__ / default_factory; `add(x)`-style methods only
    append their argument; bound once, filled by statements of the same block,
    never handed on) closes to a record with the list written out, so
    `parts.add(a); parts.add(b); parts.joined()` reads like the hand-written
    join (`zip(*rows)` taken apart by position).  A list in the class body is
    one shared object and is never closed that way.  A rule then reads the
    value, not the text, so extracting / inlining / renaming / hoisting /
    reordering cannot change its verdict.  A form that is not recognised is
    exit 2; a recognised value of the wrong kind in a slot is a violation.
R2  degenerate-segment share (T-GUARD): every integrated output is
    repeat(value, COUNT) × SHARE with SHARE = PIECE / WHOLE guarded EXACTLY on
    WHOLE != 0 (np.divide(out=, where=) -- also as a statement writing into a
    local -- or np.where with the quotient in either arm), default ONE where
    WHOLE is zero (a zero-length segment has exactly one piece, so its share is
    1).  The guard is decided by its truth table, not its spelling: the mask
    (any combination of & | ~ logical_and/or/not, comparisons, abs, isclose,
    minimum/maximum, products, a test made before the expansion) is evaluated
    on every kind of element -- WHOLE and PIECE each zero / tiny / ordinary, the
    piece no longer than the whole -- and must agree with WHOLE != 0 on all of
    them.  A mask that also tests the numerator (conjunction, product, minimum)
    is stricter: pieces of zero length get share 1 and their segment is counted
    again; a tolerance, a looser mask (division by zero), a default other than
    one or an unguarded quotient is reported likewise.  A share spelt in some
    other way over the same two length arrays (safe denominator, nan_to_num) is
    decided as a function of its elements against PIECE / WHOLE | 1.
R3  one repetition vector (T-AGREE): COUNT is the number of cells per segment
    (non-NaN cell indices per row, or non-NaN points per row − 1); values,
    WHOLE and the joint positions use that vector; PIECE = lengths between
    consecutive flattened intersection points (latitude array with latitude
    array, NaN padding masked out) with the joints between segments, at
    (cumsum(COUNT + 1) − 1)[:-1], deleted; WHOLE = repeat(length between
    consecutive way-points (lats, lons as received), COUNT); both by one
    distance function.
R4  part agreement by provenance (T-ROLE): what the antimeridian driver returns
    is closed over the two split calls and the two share computations
    (unpacking, the function that grids the halves, helpers, records opened).
    Every array (lats, lons, integrated variables) a share computation receives
    is a component of ONE split call's result, in the slot of its own role - the
    role of a component is read from its value (what it is cut from), never
    from a name; the two share computations are fed by the two different split
    functions; the latitude / longitude / integrated outputs join the half of
    the first split with the half of the second, in that order.  A component
    cut from a field of a record parameter has the role of the driver's
    parameter that field is at the call; split results may be handed on
    unpacked, by field, or splatted (`*split(..)`, `*astuple(..)`).  That the
    second split scales with the second length is R1 (shares ≡ A/(A+B),
    B/(A+B) through whatever carries the lengths).
R5  ordering direction (shared with C05-R5): the rows of intersection
    coordinates that are sorted descending are those where the way-point
    coordinate of the SAME axis decreases, read from the coordinates (never
    from cell-index changes); which array is which axis is decided by the
    returned array it flows into.
R6  forwarding: at every call into the module made by the three entry points,
    the value bound to lats / lons / integrated_variables closes to the
    caller's own parameter as received (np.asarray(x) / x.copy() are still
    that value; a filter, a re-ordering, arithmetic is not).  When the inputs
    travel in a record, the same holds for every field of the record that an
    array returned by the callee is cut from.
R7  cell look-ups (shared with C05-R8): see c05.rule_lookup.
R8  crossing segment (shared with C05-R10, c05.rule_crossing_index, run under
    this property's rule id): the element that R1 splits in proportion to the
    two part lengths is the segment that crosses.  The crossing flags are signed
    (+1 westward, -1 eastward), so every position derived from them - in the
    entry point, in a helper that returns (count, index, sign), passed on as a
    parameter - is the position of the first NON-ZERO flag, the sign is read at
    that same position and whole-array tests of the flags test `!= 0`.
    argmax / argmin of the signed flags or a one-sided test finds one direction
    only: for the other the trajectory is cut at a segment that does not cross
    and the real crossing segment is gridded as a map line around the globe,
    whose pieces add up to many times the segment's value.
"""

from __future__ import annotations

import ast
import copy
import re

from ..algebra import AlgebraError, normal_form, poly_equal, Rat
from ..astutil import (MUTATING_METHODS, ancestors, assigned_names, call_name, calls_in, conjuncts, const_value, guards_of,
                       is_within, kwarg, names_in, norm, open_value_objects, single_def_value, stmt_of, stores_to,
                       walk_no_nested)
from ..cfg import CFG
from ..loader import parent as _parent
from ..resolve import resolve_call

GRID = 'gridding/grid.py'
SHARE_FN = 'Gridder._cell_idxs_touched_by_trajectory_with_state_and_integrated_vars'


def _flat(t):
    if isinstance(t, (ast.Tuple, ast.List)):
        for e in t.elts:
            yield from _flat(e)
    elif isinstance(t, ast.Starred):
        yield from _flat(t.value)
    else:
        yield t


def _root_name(e):
    while isinstance(e, (ast.Subscript, ast.Attribute, ast.Starred)):
        e = e.value
    return e.id if isinstance(e, ast.Name) else None


# ---------------------------------------------------------------------------------------------------------------
# Symbolic shape of 1-D arrays built from the array parameters of a function (path-aware).
#
# A *sequence* is a list of parts, in order:
#     ('slice', base, lo, hi)   base[lo:hi]; lo / hi are None (open) or (atom, offset) meaning `atom + offset`
#     ('whole', base)           the whole array `base`
#     ('elem', expr, at)        one element whose value is the scalar expression `expr` (evaluated at statement `at`)
# `base` is an array parameter or the variable of a loop / comprehension over a tuple-of-arrays parameter.
# A *collection* is "one sequence per member of a tuple-of-arrays parameter":
#     ('pervar', src, var, expr, at, bound)   for each `var` in parameter `src`: the sequence `expr`
#     ('empty',)                               no members
# Every evaluation returns *all alternatives* that can reach the statement it is asked at (reaching definitions
# on the CFG, both arms of conditional expressions), so a claim about the result holds on every path.
# Forms that are not understood raise Undecided (never guessed).
# ---------------------------------------------------------------------------------------------------------------

def out_rebinding(s):
    """name of the local X when statement s is `ufunc(..., out=X)` on its own: X then holds the value of that call (with the
    elements the call leaves alone taken from what X held before), which is how the statement is read"""
    if isinstance(s, ast.Expr) and isinstance(s.value, ast.Call) and isinstance(kwarg(s.value, 'out'), ast.Name):
        return kwarg(s.value, 'out').id
    return None


class Undecided(Exception):
    pass


_NP = ('np.', 'numpy.')
_CONCAT = {'concatenate', 'hstack'}
_ASARRAY = {'array', 'asarray', 'asanyarray', 'atleast_1d', 'copy', 'ascontiguousarray'}
_APPENDS = {'append', 'extend'}


def _np_name(c: ast.Call) -> str | None:
    n = call_name(c)
    for p in _NP:
        if n.startswith(p):
            return n[len(p):]
    return None


ARRAY_INPLACE_METHODS = {'fill', 'put', 'partition', 'resize', 'itemset', 'byteswap'}      # ndarray methods that write the array itself


_SINGLETONS = (ast.expr_context, ast.operator, ast.unaryop, ast.cmpop, ast.boolop)


def tcopy(n):
    """copy of an AST (sub-)tree: fields, positions and the two reporting tags; parent links are not followed (a copy of a
    node of the parsed program is a free-standing tree) and nothing is shared with the original"""
    if isinstance(n, list):
        return [tcopy(x) for x in n]
    if not isinstance(n, ast.AST) or isinstance(n, _SINGLETONS):
        return n
    new = type(n)()
    for f in n._fields:
        try:
            setattr(new, f, tcopy(getattr(n, f)))
        except AttributeError:
            pass
    for a in n._attributes:
        if hasattr(n, a):
            setattr(new, a, getattr(n, a))
    d = n.__dict__
    if '_ck' in d:
        new._ck = d['_ck']
    if '_nm' in d:
        new._nm = d['_nm']
    return new


class _Subst(ast.NodeTransformer):
    def __init__(self, mapping):
        self.mapping = mapping

    def visit_Name(self, n):
        if isinstance(n.ctx, ast.Load) and n.id in self.mapping:
            return tcopy(self.mapping[n.id])
        return n


def _subst(e, mapping):
    return _Subst(mapping).visit(tcopy(e))


def plain_value(d, name=None):
    """value bound by statement `d` when it is `name = value` / `name: T = value` (one plain name target), else None"""
    if isinstance(d, ast.Assign) and len(d.targets) == 1 and isinstance(d.targets[0], ast.Name) \
            and (name is None or d.targets[0].id == name):
        return d.value
    if isinstance(d, ast.AnnAssign) and isinstance(d.target, ast.Name) and d.value is not None and (name is None or d.target.id == name):
        return d.value
    return None


def unpacked_value(d, name):
    """expression for the value statement `d` binds `name` to when `d` unpacks a tuple: the element of the display on the
    right (`a, b = x, y`), or the component `R[lo + i]` when the right side is a name / a slice with constant bounds of a
    name (`a, b = R[:2]`, `a, b = R`); else None.  (The unpacking itself guarantees that the counts agree.)"""
    if not isinstance(d, ast.Assign) or len(d.targets) != 1 or not isinstance(d.targets[0], (ast.Tuple, ast.List)):
        return None
    path = Values._target_path(d.targets[0], name)
    if path is None:
        return None
    v = d.value
    for i in path:
        if isinstance(v, (ast.Tuple, ast.List)):
            if any(isinstance(x, ast.Starred) for x in v.elts) or i >= len(v.elts):
                return None
            v = v.elts[i]
            continue
        lo = 0
        if isinstance(v, ast.Subscript) and isinstance(v.slice, ast.Slice) and v.slice.step is None:
            lo = 0 if v.slice.lower is None else const_value(v.slice.lower)
            hi = None if v.slice.upper is None else const_value(v.slice.upper)
            if not isinstance(lo, int) or isinstance(lo, bool) or lo < 0 or (v.slice.upper is not None and
                                                                              (not isinstance(hi, int) or isinstance(hi, bool))):
                return None
            v = v.value
        if not isinstance(v, (ast.Name, ast.Subscript, ast.Attribute)) or (isinstance(v, ast.Subscript) and
                                                                           not isinstance(const_value(v.slice), int)):
            return None
        v = ast.copy_location(ast.Subscript(value=tcopy(v), slice=ast.Constant(lo + i), ctx=ast.Load()), d)
    return v


def bound_value(d, name):
    """the expression statement `d` binds the plain name `name` to (plain assignment or tuple unpacking), else None"""
    v = plain_value(d, name)
    return v if v is not None else unpacked_value(d, name)


class SeqView:
    PRIMITIVES = {'great_circle_distance'}      # repository functions that stand for themselves (a measured length)

    def __init__(self, fi, prog=None):
        self.fi = fi
        self.prog = prog
        self.fn = fi.node
        self.params = set(fi.params)
        self.cfg = CFG(fi.node)
        self.nested = {x.name: x for x in ast.walk(fi.node)
                       if isinstance(x, (ast.FunctionDef, ast.AsyncFunctionDef)) and x is not fi.node}
        self.lambdas = {}
        self._reaching()
        self.dom = self.cfg.dominators(edge_ok=lambda a, b, lab: lab != 'e')

    # ---- reaching definitions (mutations of a container count as additional, non-killing definitions) ----------
    @staticmethod
    def _effects(node):
        """(kill+gen names, gen-only names) of a CFG node"""
        s = node.stmt
        kill, gen = set(), set()
        if s is None or node.kind not in ('stmt', 'iter', 'with', 'test', 'case', 'match'):
            return kill, gen
        heads = []
        if node.kind == 'iter':
            kill.update(assigned_names(s.target))
            heads = [s.iter]
        elif node.kind == 'with':
            for it in s.items:
                if it.optional_vars is not None:
                    kill.update(assigned_names(it.optional_vars))
                heads.append(it.context_expr)
        elif node.kind == 'test':
            heads = [s.test]
        elif node.kind == 'stmt':
            if isinstance(s, ast.Assign):
                for t in s.targets:
                    for e in _flat(t):
                        if isinstance(e, ast.Name):
                            kill.add(e.id)
                        else:
                            r = _root_name(e)
                            if r:
                                gen.add(r)
            elif isinstance(s, ast.AnnAssign):
                if s.value is not None and isinstance(s.target, ast.Name):
                    kill.add(s.target.id)
            elif isinstance(s, ast.AugAssign):
                r = _root_name(s.target)
                if r:
                    gen.add(r)
            elif isinstance(s, (ast.FunctionDef, ast.AsyncFunctionDef, ast.ClassDef)):
                kill.add(s.name)
                return kill, gen
            elif isinstance(s, ast.Delete):
                for t in s.targets:
                    r = _root_name(t)
                    if r:
                        gen.add(r)
            elif isinstance(s, (ast.Import, ast.ImportFrom)):
                for a in s.names:
                    kill.add((a.asname or a.name).split('.')[0])
            heads = [s]
            ob = out_rebinding(s)
            if ob is not None:
                kill.add(ob)
        for h in heads:
            for x in walk_no_nested(h):
                if isinstance(x, ast.NamedExpr):
                    kill.add(x.target.id)
                if isinstance(x, ast.Call) and kwarg(x, 'out') is not None:
                    r = _root_name(kwarg(x, 'out'))     # ufunc(..., out=local): the local is written in place
                    if r:
                        gen.add(r)
                if isinstance(x, ast.Call) and isinstance(x.func, ast.Attribute) and \
                        (x.func.attr in MUTATING_METHODS or x.func.attr in ARRAY_INPLACE_METHODS):
                    r = _root_name(x.func.value)
                    # np.sort(x) / np.append(a, b) / np.put(...) are functions of the module, not alterations of it
                    if r and r not in ('np', 'numpy', 'math') and not (x.func.attr in ARRAY_INPLACE_METHODS and r in ('self', 'cls')):
                        gen.add(r)
        return kill, gen - kill

    def _reaching(self):
        eff = {n.id: self._effects(n) for n in self.cfg.nodes}

        def transfer(node, st):
            kill, gen = eff[node.id]
            if not kill and not gen:
                return st
            out = {(nm, d) for nm, d in st if nm not in kill}
            out.update((nm, node.id) for nm in kill | gen)
            return frozenset(out)

        # the value a parameter has on entry is a pseudo-definition (node -1): `defs` does not list it,
        # `entry_reaches` tells whether it can still be the value at a statement
        init = frozenset((p, -1) for p in self.params)
        self.ins, _ = self.cfg.forward(init, transfer, lambda a, b: a | b, edge_ok=lambda a, b, lab: lab != 'e')

    def _node_of(self, stmt):
        ids = [i for i in self.cfg.nodes_of(stmt) if self.cfg.nodes[i].kind != 'join' and i in self.ins]
        if not ids:
            raise Undecided(f'statement at line {getattr(stmt, "lineno", "?")} is not on any path')
        return ids

    def defs(self, at, name):
        """statements whose binding / mutation of `name` can reach statement `at`"""
        out = []
        for nid in self._node_of(at):
            for nm, d in self.ins[nid]:
                if nm == name and d >= 0 and self.cfg.nodes[d].stmt not in out:
                    out.append(self.cfg.nodes[d].stmt)
        return sorted(out, key=lambda s: (s.lineno, s.col_offset))

    def entry_reaches(self, at, name):
        """the value parameter `name` had on entry can still be its value at statement `at`"""
        return any((name, -1) in self.ins[nid] for nid in self._node_of(at))

    def is_param(self, at, name):
        return name in self.params and not self.defs(at, name)

    def returns(self):
        return sorted((n for n in walk_no_nested(self.fn) if isinstance(n, ast.Return)), key=lambda r: r.lineno)

    # ---- record parameters: a parameter that is only ever read by component ----------------------------------------
    def record_params(self):
        """parameters (not the receiver) that the function only takes apart: every occurrence is `P[constant]`, `P.field`
        (not a method call) or the right side of a tuple unpacking (`a, b = P` / `a, b = P[:2]`), and the parameter is never
        re-bound or written through (`isinstance(P, ..)` / `P is None` tests aside).  Such a parameter is a record of values; its
        components stand where parameters stand."""
        if '_recs' not in self.__dict__:
            recs = {p: True for p in self.params if p not in ('self', 'cls')}
            up = {}
            for x in ast.walk(self.fn):
                for ch in ast.iter_child_nodes(x):
                    up[id(ch)] = x
            seen = set()

            def unpacks(st, v):
                nm = assigned_names(st.targets[0]) if isinstance(st, ast.Assign) and len(st.targets) == 1 and st.value is v else []
                return bool(nm) and unpacked_value(st, nm[0]) is not None
            for x in ast.walk(self.fn):
                if not isinstance(x, ast.Name) or x.id not in recs:
                    continue
                seen.add(x.id)
                par = up.get(id(x))
                ok = isinstance(x.ctx, ast.Load)
                if ok and isinstance(par, ast.Subscript) and par.value is x and isinstance(par.ctx, ast.Load):
                    if isinstance(par.slice, ast.Slice):
                        ok = unpacks(up.get(id(par)), par)
                    else:
                        ok = isinstance(const_value(par.slice), int) and not isinstance(const_value(par.slice), bool)
                elif ok and isinstance(par, ast.Attribute) and par.value is x and isinstance(par.ctx, ast.Load):
                    call = up.get(id(par))
                    ok = not (isinstance(call, ast.Call) and call.func is par) and not par.attr.startswith('_')
                elif ok and isinstance(par, ast.Call) and call_name(par) == 'isinstance' and par.args and par.args[0] is x:
                    pass        # a test of what it is does not take it apart (nor alter it)
                elif ok and isinstance(par, ast.Compare) and len(par.ops) == 1 and isinstance(par.ops[0], (ast.Is, ast.IsNot)) \
                        and any(isinstance(o, ast.Constant) and o.value is None for o in (par.left, par.comparators[0])):
                    pass
                elif ok:
                    ok = unpacks(par, x)
                if not ok:
                    recs[x.id] = False
            self._recs = {p for p, ok in recs.items() if ok and p in seen}
        return self._recs

    def component(self, e, at, bound=()):
        """text of `e` when it is a component (`P[i]`, `P.field`, also nested) of a record parameter as received, else None"""
        if not isinstance(e, (ast.Subscript, ast.Attribute)):
            return None
        b = e
        while isinstance(b, (ast.Subscript, ast.Attribute)):
            if isinstance(b, ast.Subscript) and (not isinstance(const_value(b.slice), int) or isinstance(const_value(b.slice), bool)):
                return None
            b = b.value
        if isinstance(b, ast.Name) and b.id not in bound and b.id in self.record_params() and self.is_param(at, b.id):
            return norm(e)
        return None

    # ---- local helpers (nested def / lambda) are opened by substitution -------------------------------------
    def _callable(self, f, at):
        """(parameter names, body expression) of a lambda / nested single-expression function named by `f`"""
        if isinstance(f, ast.Lambda):
            lam = f
            return [a.arg for a in lam.args.args], lam.body
        if isinstance(f, ast.Name) and not self.is_param(at, f.id):
            ds = self.defs(at, f.id)
            if len(ds) == 1 and isinstance(ds[0], ast.Assign) and isinstance(ds[0].value, ast.Lambda):
                return self._callable(ds[0].value, ds[0])
            if len(ds) == 1 and isinstance(ds[0], (ast.FunctionDef,)):
                if ds[0].decorator_list:
                    raise Undecided(f'local helper {ds[0].name} has a signature that is not opened')
                return self._straight_line(ds[0], 'local helper')
        return None

    @staticmethod
    def _straight_line(h, what):
        """(parameter names, returned expression over them) of a function made of assignments, guard clauses that raise,
        and if / elif / else with (early) returns: the returned value as one (conditional) expression"""
        a = h.args
        if a.vararg or a.kwarg or isinstance(h, ast.AsyncFunctionDef):
            raise Undecided(f'{what} {h.name} has a signature that is not opened')
        noise = lambda s: isinstance(s, ast.Pass) or (isinstance(s, ast.Expr) and (isinstance(s.value, ast.Constant) or (
            isinstance(s.value, ast.Call) and call_name(s.value).startswith(('logger.', 'logging.', 'warnings.warn')))))
        budget = [0]

        def value(stmts, env):
            budget[0] += 1
            if budget[0] > 40:
                raise Undecided(f'{what} {h.name} branches too much')
            for i, s in enumerate(stmts):
                if noise(s):
                    continue
                v = plain_value(s)
                if v is not None:
                    env = dict(env)
                    env[s.targets[0].id if isinstance(s, ast.Assign) else s.target.id] = _subst(v, env)
                elif isinstance(s, ast.Return) and s.value is not None:
                    return _subst(s.value, env)
                elif isinstance(s, ast.If):
                    raises = lambda body: bool(body) and isinstance(body[-1], ast.Raise) and all(
                        isinstance(x, ast.Raise) or noise(x) for x in body)
                    rest = list(stmts[i + 1:])
                    if raises(s.body):
                        return value(list(s.orelse) + rest, env)        # on the path that returns, the guard did nothing
                    if raises(s.orelse):
                        return value(list(s.body) + rest, env)
                    return ast.IfExp(test=_subst(s.test, env), body=value(list(s.body) + rest, env),
                                     orelse=value(list(s.orelse) + rest, env))
                else:
                    raise Undecided(f'{what} {h.name} is more than assignments, guard clauses, if/else and returns')
            raise Undecided(f'{what} {h.name} does not end in a return of a value')
        return [x.arg for x in a.posonlyargs + a.args + a.kwonlyargs], value(list(h.body), {})

    def _repo_callable(self, c):
        """(parameter names, returned expression, receiver or None) of a resolved repository function called by `c`
        (module-level function, or method of the class under analysis called on self / the class), when its body is
        straight-line; None when `c` is not such a call"""
        if self.prog is None or not isinstance(c.func, (ast.Name, ast.Attribute)):
            return None
        try:
            callee = resolve_call(self.prog, self.fi, c)
        except Exception:
            callee = None
        if callee is None or callee.node is self.fn or callee.node.name in ('__init__', '__post_init__') \
                or callee.node.name in self.PRIMITIVES:
            return None
        decos = callee.decorators()
        if any(d not in ('staticmethod',) for d in decos):
            return None
        try:
            ps, body = self._straight_line(callee.node, 'helper')
        except Undecided:
            return None
        if callee.cls is not None and 'staticmethod' not in decos:
            if not (isinstance(c.func, ast.Attribute) and isinstance(c.func.value, ast.Name) and c.func.value.id == 'self') or not ps:
                return None
            if ps[0] != 'self':
                body = _subst(body, {ps[0]: ast.Name(id='self', ctx=ast.Load())})
            ps = ps[1:]
        a = callee.node.args
        names = [x.arg for x in a.posonlyargs + a.args]
        defaults = dict(zip(reversed(names), reversed(a.defaults)))
        defaults.update({x.arg: d for x, d in zip(a.kwonlyargs, a.kw_defaults) if d is not None})
        return ps, body, defaults

    def open_calls(self, e, at, depth=0):
        """copy of expression `e` with calls of local helpers (lambda, nested def) and of straight-line repository
        helpers replaced by what they return, arguments substituted"""
        if depth > 6:
            raise Undecided('local helpers nest too deeply')
        view = self

        class T(ast.NodeTransformer):
            def visit_Call(self, c):
                self.generic_visit(c)
                cb = view._callable(c.func, at) if isinstance(c.func, (ast.Name, ast.Lambda)) else None
                if cb is None:
                    rc = view._repo_callable(c)
                    if rc is not None and not any(isinstance(a, ast.Starred) for a in c.args) and all(k.arg for k in c.keywords):
                        ps, body, defaults = rc
                        if len(c.args) <= len(ps) and all(k.arg in ps for k in c.keywords):
                            mm = dict(zip(ps, c.args))
                            mm.update({k.arg: k.value for k in c.keywords})
                            for p_ in ps:
                                if p_ not in mm and p_ in defaults:
                                    mm[p_] = copy.deepcopy(defaults[p_])
                            if set(mm) == set(ps):
                                return view.open_calls(_subst(body, mm), at, depth + 1)
                    return c
                ps, body = cb
                if c.keywords and any(k.arg is None or k.arg not in ps for k in c.keywords) or len(c.args) > len(ps) \
                        or any(isinstance(a, ast.Starred) for a in c.args):
                    raise Undecided(f'call of local helper `{norm(c)[:50]}` is not a plain positional/keyword call')
                m = dict(zip(ps, c.args))
                m.update({k.arg: k.value for k in c.keywords})
                if set(m) != set(ps):
                    raise Undecided(f'call of local helper `{norm(c)[:50]}` relies on defaults')
                return view.open_calls(_subst(body, m), at, depth + 1)
        return T().visit(copy.deepcopy(e))

    # ---- scalars ------------------------------------------------------------------------------------------
    def scalar_env(self, e, at, bound=(), env=None, depth=0):
        """name -> defining expression for the names of `e` that have exactly one reaching plain definition"""
        env = {} if env is None else env
        if depth > 12:
            return env
        for nm in sorted(names_in(e)):
            if nm in env or nm in bound or self.is_param(at, nm):
                continue
            ds = self.defs(at, nm)
            if len(ds) == 1 and bound_value(ds[0], nm) is not None:
                v = self.open_calls(bound_value(ds[0], nm), ds[0])
                env[nm] = v
                self.scalar_env(v, ds[0], bound, env, depth + 1)
        return env

    def index(self, e, at, bound=()):
        """`atom + offset` form of an index expression: (atom, offset); a constant is (None, offset)"""
        if e is None:
            return None
        e = self.open_calls(e, at)
        try:
            r = normal_form(e, self.scalar_env(e, at, bound))
        except AlgebraError as ex:
            raise Undecided(f'index `{norm(e)[:50]}`: {ex}')
        if list(r.den.keys()) != [()] or r.den[()] != 1:
            raise Undecided(f'index `{norm(e)[:50]}` is not of the form name + constant')
        atom, off = None, 0
        for mono, c in r.num.items():
            if mono == ():
                if c.denominator != 1:
                    raise Undecided(f'index `{norm(e)[:50]}` is not integral')
                off = int(c)
            elif len(mono) == 1 and mono[0][1] == 1 and c == 1 and atom is None:
                atom = mono[0][0]
            else:
                raise Undecided(f'index `{norm(e)[:50]}` is not of the form name + constant')
        return (atom, off)

    def _slice_bounds(self, s, at, bound):
        """(lo, hi) of a slicing subscript, or None when `s` is an element index"""
        if isinstance(s, ast.Slice):
            if s.step is not None and norm(s.step) != '1':
                raise Undecided(f'strided slice `{norm(s)}`')
            return self.index(s.lower, at, bound), self.index(s.upper, at, bound)
        if isinstance(s, ast.Call) and call_name(s) == 'slice' and not s.keywords and 1 <= len(s.args) <= 3:
            a = list(s.args)
            if len(a) == 3 and norm(a[2]) not in ('None', '1'):
                raise Undecided(f'strided slice `{norm(s)}`')
            lo, hi = (None, a[0]) if len(a) == 1 else (a[0], a[1])
            none = lambda x: x is None or (isinstance(x, ast.Constant) and x.value is None)
            return (None if none(lo) else self.index(lo, at, bound)), (None if none(hi) else self.index(hi, at, bound))
        if isinstance(s, ast.Name) and s.id not in bound and not self.is_param(at, s.id):
            ds = self.defs(at, s.id)
            if len(ds) == 1 and isinstance(ds[0], ast.Assign) and isinstance(ds[0].value, ast.Call) \
                    and call_name(ds[0].value) == 'slice':
                return self._slice_bounds(ds[0].value, ds[0], bound)
        return None

    # ---- sequences -------------------------------------------------------------------------------------------
    def seq(self, e, at, bound=(), depth=0):
        """alternatives (list of part lists) for the 1-D array expression `e` evaluated at statement `at`"""
        if depth > 25:
            raise Undecided('array expression nests too deeply')
        rec = lambda x, a=at, b=bound: self.seq(x, a, b, depth + 1)
        if isinstance(e, ast.Name):
            if e.id in bound or self.is_param(at, e.id):
                return [[('whole', e.id)]]
            ds = self.defs(at, e.id)
            if not ds:
                raise Undecided(f'`{e.id}` has no definition reaching line {at.lineno}')
            out = []
            for d in ds:
                if isinstance(d, (ast.For, ast.AsyncFor)) and isinstance(d.target, ast.Name) and d.target.id == e.id:
                    out.append([('whole', e.id)])
                elif plain_value(d, e.id) is not None:
                    if isinstance(plain_value(d), ast.Constant) and plain_value(d).value is None:
                        continue        # "absent": the alternative in which there is no such array
                    out += self.seq(plain_value(d), d, (), depth + 1)
                elif unpacked_value(d, e.id) is not None:
                    out += self.seq(unpacked_value(d, e.id), d, (), depth + 1)
                else:
                    raise Undecided(f'`{e.id}` is bound or altered by `{norm(d)[:60]}` (line {d.lineno})')
            return out
        if isinstance(e, ast.IfExp):
            arms = [x for x in (e.body, e.orelse) if not (isinstance(x, ast.Constant) and x.value is None)]
            return [alt for x in arms for alt in rec(x)]
        if self.component(e, at, bound) is not None:
            return [[('whole', self.component(e, at, bound))]]       # an array held by a record parameter, as received
        if isinstance(e, ast.Subscript):
            if norm(e.value) in ('np.r_', 'numpy.r_'):
                items = e.slice.elts if isinstance(e.slice, ast.Tuple) else [e.slice]
                return self._join([self._seq_or_elem(x, at, bound, depth) for x in items])
            b = self._slice_bounds(e.slice, at, bound)
            if b is None:
                raise Undecided(f'`{norm(e)[:50]}` is one element where an array is expected')
            out = []
            for alt in rec(e.value):
                if len(alt) == 1 and alt[0][0] == 'whole':
                    out.append([('slice', alt[0][1], b[0], b[1])])
                else:
                    raise Undecided(f'slice of a composed array `{norm(e)[:60]}`')
            return out
        if isinstance(e, (ast.List, ast.Tuple)):
            return self._join([rec(x.value) if isinstance(x, ast.Starred) else [[('elem', x, at, bound)]] for x in e.elts])
        if isinstance(e, ast.Call):
            cb = self._callable(e.func, at) if isinstance(e.func, (ast.Name, ast.Lambda)) else None
            if cb is not None or (_np_name(e) is None and self._repo_callable(e) is not None):
                opened = self.open_calls(e, at)
                if ast.dump(opened) != ast.dump(e):
                    return rec(opened)
            n = _np_name(e)
            if isinstance(e.func, ast.Attribute) and e.func.attr == 'copy' and not e.args:
                return rec(e.func.value)
            if n in _CONCAT and e.args and isinstance(e.args[0], (ast.Tuple, ast.List)):
                ax = kwarg(e, 'axis') or (e.args[1] if len(e.args) > 1 else None)
                if ax is not None and norm(ax) not in ('0', 'None', '-1'):
                    raise Undecided(f'concatenation along axis {norm(ax)}')
                if any(isinstance(x, ast.Starred) for x in e.args[0].elts):
                    raise Undecided('concatenation of a starred sequence')
                return self._join([rec(x) for x in e.args[0].elts])
            if n == 'append' and len(e.args) == 2:
                return self._join([rec(e.args[0]), self._seq_or_elem(e.args[1], at, bound, depth)])
            if n in _ASARRAY and e.args:
                a = e.args[0]
                if isinstance(a, (ast.List, ast.Tuple)):
                    return rec(a)
                if n == 'atleast_1d':
                    return self._seq_or_elem(a, at, bound, depth)
                return rec(a)
        raise Undecided(f'array expression `{norm(e)[:70]}` is not a slice / concatenation / one-element array')

    def _seq_or_elem(self, x, at, bound, depth):
        if isinstance(x, ast.Subscript) and self._slice_bounds(x.slice, at, bound) is None \
                and norm(x.value) not in ('np.r_', 'numpy.r_') and self.component(x, at, bound) is None:
            return [[('elem', x, at, bound)]]
        try:
            return self.seq(x, at, bound, depth + 1)
        except Undecided:
            return [[('elem', x, at, bound)]]

    @staticmethod
    def _join(groups):
        out = [[]]
        for g in groups:
            out = [a + b for a in out for b in g]
            if len(out) > 256:
                raise Undecided('too many alternatives')
        return [SeqView._merge(a) for a in out]

    @staticmethod
    def _merge(parts):
        out = []
        for p in parts:
            if out and p[0] == 'slice' and out[-1][0] == 'slice' and out[-1][1] == p[1] and out[-1][3] is not None \
                    and out[-1][3] == p[2]:
                out[-1] = ('slice', p[1], out[-1][2], p[3])
            else:
                out.append(p)
        return out

    # ---- collections ---------------------------------------------------------------------------------------
    def source(self, e, at):
        """the tuple-of-arrays parameter that `e` iterates, unaltered"""
        if isinstance(e, ast.Call) and call_name(e) in ('tuple', 'list', 'iter') and len(e.args) == 1 and not e.keywords:
            return self.source(e.args[0], at)
        if self.component(e, at) is not None:
            return self.component(e, at)
        if isinstance(e, ast.Name):
            if self.is_param(at, e.id):
                return e.id
            ds = self.defs(at, e.id)
            if len(ds) == 1 and bound_value(ds[0], e.id) is not None:
                return self.source(bound_value(ds[0], e.id), ds[0])
        raise Undecided(f'`{norm(e)[:50]}` is not one of the tuple-of-arrays parameters as received')

    def coll(self, e, at, depth=0):
        """alternatives for a tuple/list with one array per member of a tuple-of-arrays parameter"""
        if depth > 12:
            raise Undecided('collection expression nests too deeply')
        if isinstance(e, ast.Name):
            if self.is_param(at, e.id):
                return [('pervar', e.id, '_member', ast.Name(id='_member', ctx=ast.Load()), at, ('_member',))]
            ds = self.defs(at, e.id)
            if not ds:
                raise Undecided(f'`{e.id}` has no definition reaching line {at.lineno}')
            self._members_untouched(e.id)
            plain = [d for d in ds if plain_value(d, e.id) is not None]
            if all(bound_value(d, e.id) is not None for d in ds):
                return [alt for d in ds for alt in self.coll(bound_value(d, e.id), d, depth + 1)]
            return self._accumulated(e.id, at, ds, plain)
        if isinstance(e, (ast.Tuple, ast.List)) and not e.elts:
            return [('empty',)]
        if self.component(e, at) is not None:
            return [('pervar', self.component(e, at), '_member', ast.Name(id='_member', ctx=ast.Load()), at, ('_member',))]
        if isinstance(e, ast.IfExp):
            return self.coll(e.body, at, depth + 1) + self.coll(e.orelse, at, depth + 1)
        if isinstance(e, (ast.GeneratorExp, ast.ListComp)):
            if len(e.generators) != 1 or e.generators[0].ifs or e.generators[0].is_async \
                    or not isinstance(e.generators[0].target, ast.Name):
                raise Undecided(f'comprehension `{norm(e)[:60]}` filters, nests or unpacks')
            g = e.generators[0]
            return [('pervar', self.source(g.iter, at), g.target.id, e.elt, at, (g.target.id,))]
        if isinstance(e, ast.Call):
            n = call_name(e)
            if n in ('tuple', 'list') and not e.keywords:
                if not e.args:
                    return [('empty',)]
                if len(e.args) == 1:
                    return self.coll(e.args[0], at, depth + 1)
            if n == 'map' and len(e.args) == 2 and not e.keywords:
                cb = self._callable(e.args[0], at) if isinstance(e.args[0], (ast.Name, ast.Lambda)) else None
                if cb is not None and len(cb[0]) == 1:
                    return [('pervar', self.source(e.args[1], at), cb[0][0], cb[1], at, (cb[0][0],))]
        raise Undecided(f'`{norm(e)[:70]}` is not a per-variable tuple (comprehension, map, or loop that appends)')

    def _members_untouched(self, name):
        """the arrays held by the local collection `name` are not altered in place through a loop variable / alias"""
        for lp in walk_no_nested(self.fn):
            if isinstance(lp, (ast.For, ast.AsyncFor)) and name in names_in(lp.iter):
                tg = set(assigned_names(lp.target))
                for x in walk_no_nested(lp):
                    hit = None
                    if isinstance(x, (ast.Assign, ast.AugAssign, ast.AnnAssign, ast.Delete)):
                        ts = x.targets if isinstance(x, (ast.Assign, ast.Delete)) else [x.target]
                        for t in ts:
                            for el in _flat(t):
                                if (not isinstance(el, ast.Name) or isinstance(x, ast.AugAssign)) and _root_name(el) in tg:
                                    hit = x
                    if isinstance(x, ast.Call) and isinstance(x.func, ast.Attribute) and _root_name(x.func.value) in tg \
                            and (x.func.attr in MUTATING_METHODS or x.func.attr in ('fill', 'put', 'resize', 'itemset')):
                        hit = x
                    if isinstance(x, ast.Call) and any(k.arg == 'out' and _root_name(k.value) in tg for k in x.keywords):
                        hit = x
                    if hit is not None:
                        raise Undecided(f'the arrays in `{name}` are altered in place after they are built '
                                        f'(`{norm(hit)[:60]}`, line {hit.lineno})')
            if isinstance(lp, ast.Assign) and isinstance(lp.value, ast.Name) and lp.value.id == name:
                raise Undecided(f'`{name}` is aliased (`{norm(lp)[:50]}`)')

    def _accumulated(self, name, at, ds, plain):
        """`name = []` followed by one loop over a tuple-of-arrays parameter that appends once per iteration"""
        if len(plain) != 1:
            raise Undecided(f'`{name}` is re-bound and appended to on different paths')
        init = plain_value(plain[0])
        empty = (isinstance(init, (ast.List, ast.Tuple)) and not init.elts) or \
            (isinstance(init, ast.Call) and call_name(init) in ('list', 'tuple') and not init.args)
        if not empty:
            raise Undecided(f'`{name}` does not start empty (`{norm(init)[:40]}`)')
        muts = [d for d in ds if d is not plain[0]]
        loops = []
        for mstmt in muts:
            lp = next((a for a in ancestors(mstmt) if isinstance(a, (ast.For, ast.AsyncFor, ast.While))), None)
            if lp is None or not isinstance(lp, ast.For) or not is_within(lp, self.fn):
                raise Undecided(f'`{name}` is altered outside a for-loop (`{norm(mstmt)[:50]}`)')
            if not any(lp is x for x in loops):
                loops.append(lp)
        if len(loops) != 1:
            raise Undecided(f'`{name}` is filled by {len(loops)} loops')
        lp = loops[0]
        if not isinstance(lp.target, ast.Name) or lp.orelse:
            raise Undecided(f'loop `for {norm(lp.target)} in …` unpacks its target or has an else')
        src = self.source(lp.iter, lp)
        for x in walk_no_nested(lp):
            if isinstance(x, (ast.Break, ast.Continue, ast.Return, ast.Raise, ast.Try, ast.While)) or \
                    (isinstance(x, ast.For) and x is not lp):
                raise Undecided(f'loop over `{src}` leaves or nests (`{norm(x)[:40]}`)')
        head = next(i for i in self.cfg.nodes_of(lp) if self.cfg.nodes[i].kind == 'iter')
        if not all(head in self.dom.get(n, ()) for n in self._node_of(at)) or \
                not any(i in self.dom.get(head, ()) for i in self.cfg.nodes_of(plain[0])):
            raise Undecided(f'the loop filling `{name}` is not passed on every path to line {at.lineno}')

        def added(st):
            """element expression appended to `name` by statement st, else None"""
            if isinstance(st, ast.Expr) and isinstance(st.value, ast.Call) and isinstance(st.value.func, ast.Attribute) \
                    and norm(st.value.func.value) == name:
                c = st.value
                if c.func.attr == 'append' and len(c.args) == 1 and not c.keywords:
                    return c.args[0]
                if c.func.attr == 'extend' and len(c.args) == 1 and isinstance(c.args[0], (ast.List, ast.Tuple)) \
                        and len(c.args[0].elts) == 1 and not isinstance(c.args[0].elts[0], ast.Starred):
                    return c.args[0].elts[0]
            if isinstance(st, ast.AugAssign) and isinstance(st.op, ast.Add) and norm(st.target) == name \
                    and isinstance(st.value, (ast.List, ast.Tuple)) and len(st.value.elts) == 1 \
                    and not isinstance(st.value.elts[0], ast.Starred):
                return st.value.elts[0]
            return None

        def paths(body):
            """per path through `body`: the list of (element, statement) appended"""
            out = [[]]
            for st in body:
                if any(st is mm for mm in muts):
                    el = added(st)
                    if el is None:
                        raise Undecided(f'`{norm(st)[:60]}` does not add exactly one element to `{name}`')
                    out = [p + [(el, st)] for p in out]
                elif isinstance(st, ast.If) and any(is_within(mm, st) for mm in muts):
                    out = [p + q for p in out for q in paths(st.body) + paths(st.orelse)]
                elif any(is_within(mm, st) for mm in muts):
                    raise Undecided(f'`{name}` is altered inside `{norm(st)[:40]}`')
            return out
        alts = []
        for p in paths(lp.body):
            if len(p) != 1:
                raise Undecided(f'a pass of the loop over `{src}` adds {len(p)} elements to `{name}` (expected one per variable)')
            alts.append(('pervar', src, lp.target.id, p[0][0], p[0][1], ()))
        return alts


# ---- analysis of one inserted element ----------------------------------------------------------------------------
_ELEM = 'ELEM__'
_KEEP = {'np', 'numpy', 'math', 'self'}


def _ph(atom, off):
    return f'{_ELEM}{re.sub(r"[^0-9A-Za-z]", "_", atom or "")}__{"m" if off < 0 else "p"}{abs(off)}'


def closed(view, e, at, bound=()):
    """copy of `e` with local helper calls opened and singly-defined locals substituted as far as they go"""
    e = view.open_calls(e, at)
    env = view.scalar_env(e, at, bound)
    for _ in range(12):
        if not (names_in(e) & set(env)):
            break
        e = _subst(e, env)
    return e


def _rename_back(e):
    e = tcopy(e)
    for x in ast.walk(e):
        if isinstance(x, ast.Name):
            x.id = re.sub(r'^(caller|cs)__', '', x.id)
    return e


def _rename(e, prefix):
    e = tcopy(e)
    for x in ast.walk(e):
        if isinstance(x, ast.Name) and x.id not in _KEEP:
            x.id = prefix + x.id
    return e


def elem_form(view, part, base):
    """An inserted element as a rational function of the elements `base[k + off]` it is computed from:
    (normal form, {placeholder: (atom, off)}, expression with placeholders, closed expression)."""
    _, x, at, bound = part
    e = closed(view, x, at, bound)
    marks = {}

    class T(ast.NodeTransformer):
        def visit_Subscript(self, n):
            if (n.value.id == base if isinstance(n.value, ast.Name) else norm(n.value) == base) \
                    and view._slice_bounds(n.slice, at, bound) is None:
                a, off = view.index(n.slice, at, bound)
                marks[_ph(a, off)] = (a, off)
                return ast.copy_location(ast.Name(id=_ph(a, off), ctx=ast.Load()), n)
            self.generic_visit(n)
            return n
    shown = norm(e)
    e2 = T().visit(e)
    try:
        r = normal_form(e2, {})
    except AlgebraError as ex:
        raise Undecided(f'inserted element `{shown[:60]}`: {ex}')
    return r, marks, e2, shown


def is_multiple_of(r, ph, base):
    """r ≡ ph · f where f mentions neither ph nor any other element of `base`"""
    if not r.num or any(a == ph for mono in r.den for a, _ in mono):
        return False
    if not all(dict(mono).get(ph) == 1 for mono in r.num):
        return False
    return not any(a != ph and (_ELEM in a or re.search(rf'\b{re.escape(base)}\b', a)) for a in r.atoms())


def _ix(i):
    if i is None:
        return ''
    a, off = i
    return (a or '') + (f' {"+" if off > 0 else "-"} {abs(off)}' if off and a else (str(off) if not a else ''))


def show_parts(parts):
    out = []
    for p in parts:
        if p[0] == 'slice':
            out.append(f'{p[1]}[{_ix(p[2])}:{_ix(p[3])}]')
        elif p[0] == 'whole':
            out.append(p[1])
        else:
            out.append(f'[{norm(p[1])[:48]}]')
    return ' ++ '.join(out) if out else '(nothing)'


def ret_elts(view, r):
    """components of the tuple returned by `r`: [(expr, statement it is evaluated at)]"""
    v, at = r.value, r
    cut = []
    for _ in range(6):
        if isinstance(v, ast.Name) and not view.is_param(at, v.id):
            ds = view.defs(at, v.id)
            if len(ds) == 1 and plain_value(ds[0]) is not None:
                v, at = plain_value(ds[0]), ds[0]
                continue
        if isinstance(v, ast.Subscript) and isinstance(v.slice, ast.Slice) and v.slice.step is None and all(
                b is None or (isinstance(const_value(b), int) and not isinstance(const_value(b), bool))
                for b in (v.slice.lower, v.slice.upper)):
            # `record[:6]`: the leading / trailing components of what is built
            cut.append(slice(None if v.slice.lower is None else const_value(v.slice.lower),
                             None if v.slice.upper is None else const_value(v.slice.upper)))
            v = v.value
            continue
        break
    elts = ret_elts_of(view, v, at, r)
    for c in reversed(cut):
        elts = elts[c]
    return elts


def ret_elts_of(view, v, at, r):
    """components of the display / record expression `v` evaluated at statement `at` (see ret_elts)"""
    if isinstance(v, ast.Call) and view.prog is not None:
        # a record (NamedTuple / dataclass) built from the parts: components in field order
        from ..resolve import resolve_class_call
        ci = resolve_class_call(view.prog, view.fi, v)
        if ci is not None and not any(isinstance(a, ast.Starred) for a in v.args) and all(k.arg for k in v.keywords):
            fields = list(ci.annotated_fields())
            got = dict(zip(fields, v.args))
            got.update({k.arg: k.value for k in v.keywords})
            if len(v.args) <= len(fields) and set(got) == set(fields):
                return [(got[f], at) for f in fields]
    if not isinstance(v, ast.Tuple):
        raise Undecided(f'return at line {r.lineno} does not return a tuple of parts')
    if any(isinstance(x, ast.Starred) for x in v.elts):
        raise Undecided(f'return at line {r.lineno} returns a starred tuple')
    return [(x, at) for x in v.elts]


def index_param(view, seqs):
    """the one parameter that every slice bound / element index of these sequences is an offset of"""
    atoms = set()
    for parts, base in seqs:
        for p in parts:
            if p[0] == 'slice':
                atoms |= {i[0] for i in p[2:4] if i is not None and i[0] is not None}
            elif p[0] == 'elem':
                _, marks, _, _ = elem_form(view, p, base)
                atoms |= {a for a, _ in marks.values() if a is not None}
    return atoms


def guarded_empty(r, name):
    """return statement r is only reached when the tuple parameter `name` is empty"""
    for test, pol, _ in guards_of(r):
        for e, p in conjuncts(test, pol):
            if isinstance(e, (ast.Name, ast.Subscript, ast.Attribute)) and norm(e) == name and not p:
                return True
            if isinstance(e, ast.Call) and call_name(e) == 'len' and e.args and norm(e.args[0]) == name and not p:
                return True
            if isinstance(e, ast.Compare) and len(e.ops) == 1 and norm(e.left) == f'len({name})' and norm(e.comparators[0]) == '0':
                if (isinstance(e.ops[0], ast.Eq) and p) or (isinstance(e.ops[0], (ast.NotEq, ast.Gt)) and not p):
                    return True
    return False


# ---------------------------------------------------------------------------------------------------------------
# Closed values.  `Values.close(fi, e, at)` is the expression `e` of function `fi`, evaluated at statement `at`,
# written over the function's parameters (as received), `self.<attribute>`s, module-level names and calls that
# are not opened - nothing else:
#   * a local is replaced by the value of the definition that reaches `at` (reaching definitions on the CFG); several
#     reaching definitions give `ALT__(v1, v2, ...)`; a local that is also changed in place (element store, augmented
#     assignment, mutating method) gives `MUT__(v...)` - the value as bound, altered afterwards;
#   * a component of a tuple assignment is taken out of the tuple (or out of what the called helper returns);
#   * a call of a repository function whose body is straight-line (assignments, guard clauses that raise, if/else,
#     no loop / try / with) is replaced by what that function returns, with the arguments substituted - so a value
#     is followed through helpers, however many there are and wherever they were moved;
#   * a record built by a repository class is `REC__('<file>::<class>', field=value, ...)`; reading a field selects the
#     value, reading a read-only property opens the property's straight-line body over the fields; `*record` /
#     `*astuple(record)` / `*call` of a function whose returned structure is visible passes the components themselves;
#   * a component of the result of a function that is NOT opened is `RES__(call, 'axis kind')` when the callee's
#     returned structure names that leaf (by position or field), else `call[i]...`.
# Nothing is evaluated; forms that are not understood are left as they are written (rules then do not recognise
# them and say so) or raise Undecided.
# ---------------------------------------------------------------------------------------------------------------
ALT, MUT, RES, FLAT = 'ALT__', 'MUT__', 'RES__', 'FLAT__'
_REC_CLASSES = {}       # tag carried by a REC__ node -> the repository class the record is an instance of


def _mk(name, *args):
    return ast.Call(func=ast.Name(id=name, ctx=ast.Load()), args=list(args), keywords=[])


def is_mk(e, name):
    return isinstance(e, ast.Call) and isinstance(e.func, ast.Name) and e.func.id == name


def alts(e):
    """the alternatives of a closed value (ALT__ and conditional expressions flattened)"""
    if is_mk(e, ALT):
        return [y for x in e.args for y in alts(x)]
    if isinstance(e, ast.IfExp):
        return alts(e.body) + alts(e.orelse)
    return [e]


def _axis_word(name):
    t = re.split(r'[_\W]+', name.lower())
    hits = []
    for a, words in (('lat', ('lat', 'lats', 'latitude', 'latitudes')), ('lon', ('lon', 'lons', 'longitude', 'longitudes')),
                     ('altitude', ('altitude', 'altitudes', 'alt', 'alts')), ('time', ('time', 'times'))):
        if any(w in t for w in words):
            hits.append(a)
    return hits[0] if len(hits) == 1 else None


def _kind_word(name):
    t = re.split(r'[_\W]+', name.lower())
    return 'index' if any(w in t for w in ('indices', 'index', 'idx', 'idxs', 'cells', 'cell')) else 'coordinate'


def leaf_role(name):
    a = _axis_word(name)
    return f'{a} {_kind_word(name)}' if a else None


class Values:
    def __init__(self, prog, keep=()):
        self.prog = prog
        self.keep = set(keep)        # names of repository functions treated as primitives (never opened)
        self._views = {}
        self._memo = {}
        self._opened = {}
        self._muts = {}
        self._work = 0

    def view(self, fi):
        k = id(fi.node)
        if k not in self._views:
            self._views[k] = SeqView(fi, self.prog)
        return self._views[k]

    def speak_for(self, fi):
        """(kept for callers) values are worded in the locals that hold them: see `show`"""

    def callee_of(self, call):
        ck = getattr(call, '_ck', None)
        return self.prog.func(*ck) if ck else None

    # ---- expressions ------------------------------------------------------------------------------------------
    BUDGET = 300_000     # expression nodes visited per run: a closure that needs more is not decided (never a hang)

    def close(self, fi, e, at, bound=frozenset(), stack=(), depth=0):
        if depth > 80:
            raise Undecided('value expression nests too deeply')
        self._work += 1
        if self._work > self.BUDGET:
            raise Undecided('closed value grows too large')
        rec = lambda x, b=bound: self.close(fi, x, at, b, stack, depth + 1)
        if e is None:
            return None
        if isinstance(e, ast.Constant):
            return ast.Constant(value=e.value)
        if isinstance(e, ast.Name):
            return self._name(fi, e, at, bound, stack, depth) if isinstance(e.ctx, ast.Load) else ast.Name(id=e.id, ctx=e.ctx)
        if isinstance(e, (ast.GeneratorExp, ast.ListComp, ast.SetComp, ast.DictComp)):
            b = set(bound)
            gens = []
            for g in e.generators:
                it = self.close(fi, g.iter, at, frozenset(b), stack, depth + 1)
                b |= set(assigned_names(g.target))
                fb = frozenset(b)
                gens.append(ast.comprehension(target=tcopy(g.target), iter=it, is_async=g.is_async,
                                              ifs=[self.close(fi, i, at, fb, stack, depth + 1) for i in g.ifs]))
            fb = frozenset(b)
            if isinstance(e, ast.DictComp):
                return ast.DictComp(key=self.close(fi, e.key, at, fb, stack, depth + 1),
                                    value=self.close(fi, e.value, at, fb, stack, depth + 1), generators=gens)
            return type(e)(elt=self.close(fi, e.elt, at, fb, stack, depth + 1), generators=gens)
        if isinstance(e, ast.Lambda):
            a = tcopy(e.args)
            b = frozenset(bound | {x.arg for x in a.posonlyargs + a.args + a.kwonlyargs} |
                          ({a.vararg.arg} if a.vararg else set()) | ({a.kwarg.arg} if a.kwarg else set()))
            return ast.Lambda(args=a, body=self.close(fi, e.body, at, b, stack, depth + 1))
        if isinstance(e, ast.NamedExpr):
            return rec(e.value)
        if isinstance(e, ast.Call):
            return self._call(fi, e, at, bound, stack, depth)
        if isinstance(e, ast.Attribute):
            v = rec(e.value)
            sel = self._select(v, e.attr)
            return sel if sel is not None else ast.Attribute(value=v, attr=e.attr, ctx=ast.Load())
        if isinstance(e, ast.Subscript):
            v = rec(e.value)
            if isinstance(e.slice, ast.Constant) and isinstance(e.slice.value, int):
                sel = self._select(v, e.slice.value)
                if sel is not None:
                    return sel
            return ast.Subscript(value=v, slice=rec(e.slice), ctx=ast.Load())
        kw = {}
        for f, v in ast.iter_fields(e):
            if isinstance(v, ast.expr):
                kw[f] = rec(v)
            elif isinstance(v, list):
                kw[f] = [rec(x) if isinstance(x, ast.expr) else
                         (ast.keyword(arg=x.arg, value=rec(x.value)) if isinstance(x, ast.keyword) else x) for x in v]
            else:
                kw[f] = v
        return type(e)(**kw)

    # ---- names -----------------------------------------------------------------------------------------------
    def plain_of(self, mut):
        """what a local that is altered in place (MUT__ node) was bound to, closed; the alterations are ignored"""
        fi, name, ds, stack = self._muts[mut.args[0].value]
        vals = [v for v in (self._bound_value(fi, name, d, stack, 0) for d in ds) if v is not None and v != 'loop']
        return vals[0] if len(vals) == 1 else _mk(ALT, *vals)

    def alterations_of(self, mut):
        """the statements that alter the local behind a MUT__ node in place"""
        fi, name, ds, stack = self._muts[mut.args[0].value]
        return fi, [d for d in ds if self._binds(d, name) is None]

    @staticmethod
    def _viewed(v):
        """the local that expression `v` is (a view of), else None"""
        base = v
        for _ in range(6):
            if isinstance(base, (ast.Subscript, ast.Attribute)) and not (isinstance(base, ast.Subscript) and is_mask(base.slice)):
                base = base.value
            elif isinstance(base, ast.Call) and call_name(base) in ('np.asarray', 'np.asanyarray', 'np.ravel', 'np.atleast_1d',
                                                                   'np.transpose', 'np.squeeze') and base.args:
                base = base.args[0]
            elif isinstance(base, ast.Call) and isinstance(base.func, ast.Attribute) and base.func.attr in ('ravel', 'reshape', 'view',
                                                                                                      'squeeze', 'transpose'):
                base = base.func.value
            else:
                break
        return base.id if isinstance(base, ast.Name) and base.id not in ('self', 'np', 'numpy') else None

    def _aliased_then_altered(self, view, name, ds, at=None):
        """what `name` holds is not the value it was bound to: it is bound to (a view of) another local that is altered in
        place afterwards, or another local that is (a view of) it is altered in place before the use"""
        muts = self._mutations(view)
        ok_edge = lambda x, y, lab: lab != 'e'
        for d in ds:
            base = self._viewed(plain_value(d, name))
            if base is None or base == name or not muts.get(base):
                continue
            dn = [i for i in view.cfg.nodes_of(d) if view.cfg.nodes[i].kind != 'join']
            if any(view.cfg.reaches(a, b, edge_ok=ok_edge) for a in dn for b in muts[base]):
                return True
        through = self._opened[('alias', id(view.fn))].get(name)
        if through and at is not None:
            own = {i for d in ds for i in view.cfg.nodes_of(d)}
            an = [i for i in view.cfg.nodes_of(at) if view.cfg.nodes[i].kind != 'join']
            if any(b not in own and view.cfg.reaches(b, a, edge_ok=ok_edge) for b in through for a in an):
                return True
        return False

    def _mutations(self, view):
        """{local: CFG nodes that alter it in place}; ('alias', fn): {local: nodes that alter it through another local that is
        (a view of) it}"""
        k = ('mut', id(view.fn))
        if k not in self._opened:
            out = {}
            for node in view.cfg.nodes:
                kill, gen = view._effects(node)
                for nm in gen:
                    out.setdefault(nm, []).append(node.id)
            alias = {}
            for st in walk_no_nested(view.fn):
                v = plain_value(st)
                if v is not None:
                    b = self._viewed(v)
                    w = st.targets[0].id if isinstance(st, ast.Assign) else st.target.id
                    if b is not None and b != w:
                        alias.setdefault(w, set()).add(b)
            via = {}
            for _ in range(3):
                for w, bases in alias.items():
                    nodes = list(out.get(w, [])) + list(via.get(w, []))
                    for b in bases:
                        for nid in nodes:
                            if nid not in via.setdefault(b, []):
                                via[b].append(nid)
            self._opened[k] = out
            self._opened[('alias', id(view.fn))] = via
        return self._opened[k]

    @staticmethod
    def _binds(d, name):
        """True / 'loop' when statement d (re)binds `name`, None when it alters the object in place"""
        if isinstance(d, (ast.For, ast.AsyncFor)) and name in assigned_names(d.target):
            return 'loop'
        if isinstance(d, (ast.With, ast.AsyncWith, ast.FunctionDef, ast.AsyncFunctionDef, ast.ClassDef, ast.Import, ast.ImportFrom)):
            return 'loop'
        if isinstance(d, ast.AnnAssign) and isinstance(d.target, ast.Name) and d.target.id == name and d.value is not None:
            return True
        if isinstance(d, ast.Assign) and any(name in assigned_names(t) for t in d.targets):
            return True
        if any(isinstance(x, ast.NamedExpr) and x.target.id == name for x in walk_no_nested(d)):
            return True
        if out_rebinding(d) == name:
            return True
        return None

    def _name(self, fi, n, at, bound, stack, depth, plain_only=None):
        keep = ast.Name(id=n.id, ctx=ast.Load())
        if n.id in bound:
            return keep
        view = self.view(fi)
        ds = view.defs(at, n.id)
        if not ds:
            return keep
        key = (id(fi.node), n.id, tuple(sorted(id(d) for d in ds)), n.id in view.params and view.entry_reaches(at, n.id), stack)
        if key in self._memo:
            return tcopy(self._memo[key])
        vals, changed = [], False
        if n.id in view.params and view.entry_reaches(at, n.id):
            vals.append(keep)
        if plain_only is None and (any(self._binds(d, n.id) is None for d in ds) or self._aliased_then_altered(view, n.id, ds, at)):
            # altered in place after it was bound: opaque (rules that know what the alteration is ask `plain_of`) - unless
            # it is an accumulator object of a repository class whose whole life is visible here
            acc = self._accumulator(fi, n.id, ds, at, stack, depth)
            if acc is not None:
                self._memo[key] = acc
                return tcopy(acc)
            mk = f'{n.id}@{fi.qualname}:{",".join(str(d.lineno) for d in ds)}'
            self._muts[mk] = (fi, n.id, ds, stack)
            out = _mk(MUT, ast.Constant(mk))
            self._memo[key] = out
            return tcopy(out)
        for d in ds:
            v = self._bound_value(fi, n.id, d, stack, depth)
            if v is None:
                changed = True
            elif v == 'loop':
                self._memo[key] = keep
                return keep
            else:
                vals.append(v)
        uniq = []
        for v in vals:
            if not any(ast.dump(v) == ast.dump(u) for u in uniq):
                uniq.append(v)
        if len(uniq) == 1:
            out = uniq[0]
            if not isinstance(out, (ast.Name, ast.Constant)):
                out._nm = n.id          # reporting aid: the local that holds this value (see show)
        else:
            out = _mk(ALT, *uniq)
        self._memo[key] = out
        return tcopy(out)

    # ---- accumulator objects ----------------------------------------------------------------------------------
    @staticmethod
    def _fresh_list(v):
        return (isinstance(v, ast.List) and not v.elts) or (isinstance(v, ast.Call) and call_name(v) == 'list' and not v.args and not v.keywords)

    def _accumulator_class(self, ci):
        """{'fresh': fields that every instance of the repository class `ci` creates as its own empty list, 'ctor': the
        constructor's parameters, 'appenders': {method: (field, parameter)} for the methods that do nothing but append their
        one argument to such a field, 'readers': methods that neither write a field nor alter one in place}; None when the
        class is not of that plain kind.  A list in the CLASS body (`parts: list = []`) is one object shared by all
        instances: it is not a fresh field."""
        k = ('acc', id(ci.node))
        if k in self._opened:
            return self._opened[k]
        out = self._opened[k] = None
        if len(ci.mro()) != 1 or any(b not in ('object',) for b in ci.base_exprs) or ci.node.keywords:
            return None
        decos = [ast.unparse(d) for d in ci.node.decorator_list]
        fresh, init = set(), ci.methods.get('__init__')
        if any(nm in ci.methods for nm in ('__post_init__', '__new__', '__getattr__', '__getattribute__', '__setattr__')):
            return None
        if init is not None:
            if decos or len(init.params) != 1 or init.decorators():
                return None
            me = init.params[0]
            for st in init.node.body:
                if isinstance(st, ast.Expr) and isinstance(st.value, ast.Constant):
                    continue
                t = st.targets[0] if isinstance(st, ast.Assign) and len(st.targets) == 1 else (st.target if isinstance(st, ast.AnnAssign) else None)
                if not (isinstance(t, ast.Attribute) and isinstance(t.value, ast.Name) and t.value.id == me and self._fresh_list(st.value)):
                    return None
                fresh.add(t.attr)
            if fresh & set(ci.class_assignments()):
                return None
        elif any(d.split('(')[0] in ('dataclass', 'dataclasses.dataclass') for d in decos) and len(decos) == 1:
            for st in ci.node.body:
                if isinstance(st, (ast.FunctionDef, ast.AsyncFunctionDef)) or (isinstance(st, ast.Expr) and isinstance(st.value, ast.Constant)):
                    continue
                v = st.value if isinstance(st, ast.AnnAssign) and isinstance(st.target, ast.Name) else None
                if not (isinstance(v, ast.Call) and call_name(v) in ('field', 'dataclasses.field') and not v.args and len(v.keywords) == 1
                        and v.keywords[0].arg == 'default_factory' and norm(v.keywords[0].value) == 'list'):
                    return None
                fresh.add(st.target.id)
        if not fresh:
            return None
        appenders, readers = {}, set()
        for nm, meth in ci.methods.items():
            if nm == '__init__':
                continue
            if meth.decorators() or isinstance(meth.node, ast.AsyncFunctionDef) or not meth.params:
                return None
            me = meth.params[0]
            body = [st for st in meth.node.body if not (isinstance(st, ast.Expr) and isinstance(st.value, ast.Constant))]
            one = body[0] if len(body) == 1 else None
            app = None
            if len(meth.params) == 2 and not meth.node.args.defaults and one is not None:
                arg = meth.params[1]
                for f in fresh:
                    for pat in (f'{me}.{f}.append({arg})', f'{me}.{f} += [{arg}]', f'{me}.{f}.extend([{arg}])', f'{me}.{f} = {me}.{f} + [{arg}]',
                                f'{me}.{f} = [*{me}.{f}, {arg}]', f'{me}.{f} += ({arg},)', f'{me}.{f}.extend(({arg},))'):
                        if norm(one) == norm(ast.parse(pat).body[0]):
                            app = (f, arg)
            if app is not None:
                appenders[nm] = app
                continue
            # a reader: `self` is only read through its fields, no field is written or altered in place
            quiet = True
            for x in ast.walk(meth.node):
                if isinstance(x, ast.Name) and x.id == me and not (isinstance(_parent(x), ast.Attribute) and isinstance(_parent(x).ctx, ast.Load)):
                    quiet = False
                if isinstance(x, ast.Call) and isinstance(x.func, ast.Attribute) and _root_name(x.func.value) == me and \
                        (x.func.attr in MUTATING_METHODS or x.func.attr in ARRAY_INPLACE_METHODS or
                         (isinstance(x.func.value, ast.Name) and x.func.attr not in readers)):
                    quiet = False
                if isinstance(x, (ast.Subscript, ast.Attribute)) and isinstance(x.ctx, (ast.Store, ast.Del)) and _root_name(x) == me:
                    quiet = False
                if isinstance(x, ast.AugAssign) and _root_name(x.target) == me:
                    quiet = False
            if quiet:
                readers.add(nm)
        if appenders:
            out = self._opened[k] = {'fresh': fresh, 'appenders': appenders, 'readers': readers}
        return out

    def _accumulator(self, fi, name, ds, at, stack, depth):
        """the closed value - a record whose list fields are written out - of a local that holds an ACCUMULATOR OBJECT: bound
        once to `C()` of a plain repository class whose instances start with their own empty lists, then altered only by
        statements `name.add(x)` (methods of C that append their argument to such a list) that stand in the same block as
        the binding, so that each runs exactly once and in source order before the use; the object never leaves the local
        (every other use reads a field or calls a method of C that only reads).  Else None."""
        from ..resolve import resolve_class_call
        view = self.view(fi)
        binders = [d for d in ds if self._binds(d, name) is not None]
        if len(binders) != 1 or (name in view.params and view.entry_reaches(at, name)):
            return None
        d = binders[0]
        v = plain_value(d, name)
        if not isinstance(v, ast.Call) or v.args or v.keywords:
            return None
        ci = resolve_class_call(self.prog, fi, v)
        info = self._accumulator_class(ci) if ci is not None else None
        if info is None:
            return None
        block = next((b for x in ast.walk(fi.node) for f_ in ('body', 'orelse', 'finalbody') for b in [getattr(x, f_, None)]
                      if isinstance(b, list) and any(y is d for y in b)), None)
        if block is None:
            return None
        # every use of the local in the function: receiver of an appender (a statement of the block) or of a reader, or a field read
        alters = []
        for x in walk_no_nested(fi.node):
            if not (isinstance(x, ast.Name) and x.id == name):
                continue
            if isinstance(x.ctx, ast.Store):
                if stmt_of(x) is not d:
                    return None
                continue
            par = _parent(x)
            if not (isinstance(par, ast.Attribute) and isinstance(par.ctx, ast.Load)):
                return None
            call = _parent(par)
            if isinstance(call, ast.Call) and call.func is par:
                if par.attr in info['appenders']:
                    st = stmt_of(call)
                    if not (isinstance(st, ast.Expr) and st.value is call and any(y is st for y in block) and len(call.args) == 1
                            and not call.keywords and not isinstance(call.args[0], ast.Starred)):
                        return None
                    alters.append(st)
                elif par.attr not in info['readers']:
                    return None
            elif par.attr not in info['fresh']:
                return None
        reaching = [x for x in ds if x is not d]
        if any(not any(x is a for a in alters) for x in reaching):
            return None
        fields = {f: [] for f in sorted(info['fresh'])}
        for st in sorted(reaching, key=lambda s_: (s_.lineno, s_.col_offset)):
            f, _ = info['appenders'][st.value.func.attr]
            fields[f].append(self.close(fi, st.value.args[0], st, frozenset(), stack, depth + 1))
        tag = f'{ci.file}::{ci.name}'
        _REC_CLASSES[tag] = ci
        r = _mk('REC__', ast.Constant(tag))
        r.keywords = [ast.keyword(arg=f, value=ast.List(elts=vals, ctx=ast.Load())) for f, vals in fields.items()]
        return r

    def _reselect(self, v):
        """closed value `v` after a record has been put in the place of a method's `self`: field reads, positions of displays
        and of `zip(*rows)`, and `*display` arguments are taken apart again (bottom-up)"""
        values = self

        class T(ast.NodeTransformer):
            def visit_Attribute(self, n):
                self.generic_visit(n)
                sel = values._select(n.value, n.attr) if is_mk(n.value, 'REC__') else None
                return tcopy(sel) if sel is not None else n

            def visit_Subscript(self, n):
                self.generic_visit(n)
                if isinstance(n.slice, ast.Constant) and isinstance(n.slice.value, int) and not isinstance(n.slice.value, bool):
                    sel = values._select(n.value, n.slice.value)
                    if sel is not None:
                        return tcopy(sel)
                return n

            def visit_Call(self, n):
                self.generic_visit(n)
                if any(isinstance(a, ast.Starred) and isinstance(a.value, (ast.Tuple, ast.List)) and
                       not any(isinstance(y, ast.Starred) for y in a.value.elts) for a in n.args):
                    args = []
                    for a in n.args:
                        if isinstance(a, ast.Starred) and isinstance(a.value, (ast.Tuple, ast.List)) and \
                                not any(isinstance(y, ast.Starred) for y in a.value.elts):
                            args += a.value.elts
                        else:
                            args.append(a)
                    n.args = args
                return n
        return T().visit(v)

    def _bound_value(self, fi, name, d, stack, depth):
        """closed value that statement `d` binds `name` to; None when `d` changes the object in place; 'loop' for
        an iteration variable"""
        if isinstance(d, (ast.For, ast.AsyncFor)) and name in assigned_names(d.target):
            return 'loop'
        if isinstance(d, (ast.With, ast.AsyncWith, ast.FunctionDef, ast.AsyncFunctionDef, ast.ClassDef, ast.Import, ast.ImportFrom)):
            return 'loop'
        if isinstance(d, ast.AnnAssign) and isinstance(d.target, ast.Name) and d.target.id == name and d.value is not None:
            return self.close(fi, d.value, d, frozenset(), stack, depth + 1)
        if isinstance(d, ast.Assign):
            for t in d.targets:
                if isinstance(t, ast.Name) and t.id == name:
                    return self.close(fi, d.value, d, frozenset(), stack, depth + 1)
                path = self._target_path(t, name)
                if path is not None:
                    v = d.value
                    path = list(path)
                    while path and isinstance(v, (ast.Tuple, ast.List)) and not any(isinstance(x, ast.Starred) for x in v.elts) \
                            and path[0] < len(v.elts):
                        v = v.elts[path.pop(0)]
                    v = self.close(fi, v, d, frozenset(), stack, depth + 1)
                    for step in path:
                        sel = self._select(v, step)
                        v = sel if sel is not None else ast.Subscript(value=v, slice=ast.Constant(step), ctx=ast.Load())
                    return v
        for x in walk_no_nested(d):
            if isinstance(x, ast.NamedExpr) and x.target.id == name:
                return self.close(fi, x.value, d, frozenset(), stack, depth + 1)
        if out_rebinding(d) == name:
            return self.close(fi, d.value, d, frozenset(), stack, depth + 1)      # `out=name` closes to what it held before
        return None

    @staticmethod
    def _target_path(t, name, path=()):
        if isinstance(t, ast.Name):
            return path if t.id == name and path else None
        if isinstance(t, (ast.Tuple, ast.List)):
            if any(isinstance(x, ast.Starred) for x in t.elts):
                return None
            for i, x in enumerate(t.elts):
                p = Values._target_path(x, name, path + (i,))
                if p is not None:
                    return p
        return None

    # ---- components of a value ----------------------------------------------------------------------------------
    def _select(self, v, step):
        """component `step` (position or field name) of closed value `v`, or None when it is not visible"""
        if is_mk(v, ALT):
            parts = [self._select(x, step) for x in v.args]
            return _mk(ALT, *parts) if all(p is not None for p in parts) else None
        if isinstance(v, ast.IfExp):
            a, b = self._select(v.body, step), self._select(v.orelse, step)
            return ast.IfExp(test=v.test, body=a, orelse=b) if a is not None and b is not None else None
        if isinstance(step, int) and isinstance(v, (ast.Tuple, ast.List)) and not any(isinstance(x, ast.Starred) for x in v.elts):
            return v.elts[step] if -len(v.elts) <= step < len(v.elts) else None
        if isinstance(step, int) and isinstance(v, ast.Call) and isinstance(v.func, ast.Name) and v.func.id == 'zip' and not v.keywords \
                and v.args:
            # position `step` of what `zip(*rows)` / `zip(row, row, ...)` is unpacked into: that position of every row
            rows = v.args
            if len(rows) == 1 and isinstance(rows[0], ast.Starred) and isinstance(rows[0].value, (ast.Tuple, ast.List)):
                rows = rows[0].value.elts
            if rows and not any(isinstance(x, ast.Starred) for x in rows):
                sel = [self._select(x, step) for x in rows]
                if all(x is not None for x in sel):
                    return ast.Tuple(elts=sel, ctx=ast.Load())
            return None
        if is_mk(v, 'REC__'):
            fields = [k.arg for k in v.keywords]
            if isinstance(step, int) and -len(fields) <= step < len(fields):
                return v.keywords[step].value
            if isinstance(step, str) and step in fields:
                return v.keywords[fields.index(step)].value
            if isinstance(step, str):
                return self._property(v, step)
            return None
        if is_mk(v, 'PART__'):
            return self._leaf(v.args[0], tuple(c.value for c in v.args[1:]) + (step,), self.callee_of(v))
        if isinstance(v, ast.Call) and getattr(v, '_ck', None) is not None:
            return self._leaf(v, (step,), self.callee_of(v))
        return None

    def _property(self, rec, name, depth=0):
        """value of the read-only property `name` of the record `rec` (REC__ of a repository class): what the property's
        straight-line body returns with the fields of the record in place of `self.<field>`; None when there is no such
        property or its body reads anything but fields / other properties of the record"""
        ci = _REC_CLASSES.get(rec.args[0].value) if rec.args and isinstance(rec.args[0], ast.Constant) else None
        meth = ci.find_method(name) if ci is not None and depth < 4 else None
        if meth is None or len(meth.decorators()) != 1 or meth.decorators()[0] not in ('property', 'cached_property', 'functools.cached_property'):
            return None
        try:
            ps, body = SeqView._straight_line(meth.node, 'property')
        except Undecided:
            return None
        if len(ps) != 1:
            return None
        values, me, ok = self, ps[0], [True]

        class T(ast.NodeTransformer):
            def visit_Attribute(self, n):
                if isinstance(n.value, ast.Name) and n.value.id == me:
                    sel = values._select(rec, n.attr)
                    if sel is None:
                        ok[0] = False
                        return n
                    return tcopy(sel)
                return self.generic_visit(n)

            def visit_Name(self, n):
                if n.id == me:
                    ok[0] = False
                return n
        out = T().visit(tcopy(body))
        return out if ok[0] else None

    def _leaf(self, call, path, callee):
        """the part of the result of the un-opened `call` reached by `path`: RES__(call, role) for a named leaf,
        PART__(call, *path) for an inner node of the returned structure, None when the structure does not show it"""
        shape = self._result_shape(callee)
        if shape is None:
            return None
        node = shape
        for step in path:
            if not isinstance(node, dict):
                return None
            nxt = None
            for (i, f), sub in node.items():
                if step == i or (isinstance(step, str) and step == f) or (isinstance(step, int) and step < 0 and step + len(node) == i):
                    nxt = sub
            if nxt is None:
                return None
            node = nxt
        if isinstance(node, dict):
            p = _mk('PART__', call, *[ast.Constant(s) for s in path])
            p._ck = (callee.file, callee.qualname)
            return p
        role = leaf_role(node)
        return _mk(RES, call, ast.Constant(role if role else node))

    def _result_shape(self, callee):
        """nested {(position, field): sub-shape | local name} of what `callee` returns (single return)"""
        k = id(callee.node)
        if k in self._opened and 'shape' in self._opened[k]:
            return self._opened[k]['shape']
        from ..resolve import resolve_class_call
        rets = [r for r in walk_no_nested(callee.node) if isinstance(r, ast.Return) and r.value is not None]
        shape = None
        if len(rets) == 1:
            def build(e, depth=0):
                if depth > 6:
                    return None
                if isinstance(e, ast.Name):
                    d = single_def_value(callee.node, e.id)
                    if isinstance(d, ast.Tuple) or (isinstance(d, ast.Call) and resolve_class_call(self.prog, callee, d) is not None):
                        return build(d, depth + 1)
                    return e.id
                if isinstance(e, ast.Constant):
                    return f'<{e.value!r}>'
                if isinstance(e, ast.Subscript) and isinstance(e.slice, ast.Slice) and e.slice.step is None and all(
                        b is None or (isinstance(const_value(b), int) and not isinstance(const_value(b), bool))
                        for b in (e.slice.lower, e.slice.upper)):
                    whole = build(e.value, depth + 1)       # `record[:n]`: the leading / trailing components, re-numbered
                    if not isinstance(whole, dict):
                        return None
                    items = sorted(whole.items(), key=lambda kv: kv[0][0])
                    items = items[slice(None if e.slice.lower is None else const_value(e.slice.lower),
                                        None if e.slice.upper is None else const_value(e.slice.upper))]
                    return {(i, None): sub for i, (_, sub) in enumerate(items)}
                if isinstance(e, ast.Tuple) and not any(isinstance(x, ast.Starred) for x in e.elts):
                    out = {}
                    for i, x in enumerate(e.elts):
                        sub = build(x, depth + 1)
                        if sub is None:
                            return None
                        out[(i, None)] = sub
                    return out
                if isinstance(e, ast.Call):
                    ci = resolve_class_call(self.prog, callee, e)
                    if ci is None or any(isinstance(a, ast.Starred) for a in e.args) or any(kk.arg is None for kk in e.keywords):
                        return None
                    fields = list(ci.annotated_fields())
                    got = dict(zip(fields, e.args))
                    got.update({kk.arg: kk.value for kk in e.keywords})
                    out = {}
                    for i, f in enumerate(fields):
                        if f not in got:
                            return None
                        sub = build(got[f], depth + 1)
                        if sub is None and leaf_role(f) is not None and not isinstance(got[f], (ast.Tuple, ast.List)):
                            sub = f         # an array built in place: the field it is stored under names it
                        if sub is None:
                            return None
                        out[(i, f)] = sub
                    return out
                return None
            shape = build(rets[0].value)
        self._opened.setdefault(k, {})['shape'] = shape
        return shape

    def _spread(self, v):
        """the elements `*v` passes when the closed value `v` is a record, or the result of an un-opened repository call
        whose returned structure (one tuple / record of known length) is visible; else None"""
        if is_mk(v, 'REC__'):
            return [k.value for k in v.keywords]
        if isinstance(v, ast.Call) and call_name(v) in ('tuple', 'list', 'astuple', 'dataclasses.astuple') and len(v.args) == 1 \
                and not v.keywords:
            return self._spread(v.args[0])      # the fields of a record, in order (astuple copies them: same values)
        if isinstance(v, ast.Call) and getattr(v, '_ck', None) is not None and not is_mk(v, 'PART__'):
            callee = self.callee_of(v)
            shape = self._result_shape(callee) if callee is not None else None
            if isinstance(shape, dict) and shape:
                parts = [self._select(v, i) for i in range(len(shape))]
                if all(p is not None for p in parts):
                    return parts
        return None

    # ---- calls ---------------------------------------------------------------------------------------------------
    def _openable(self, callee):
        k = id(callee.node)
        info = self._opened.setdefault(k, {})
        if 'openable' not in info:
            ok = not callee.node.args.vararg and not callee.node.args.kwarg and \
                not any(d not in ('staticmethod', 'classmethod') for d in callee.decorators()) and \
                not isinstance(callee.node, ast.AsyncFunctionDef)
            nret = 0
            for x in walk_no_nested(callee.node):
                if isinstance(x, (ast.For, ast.AsyncFor, ast.While, ast.Try, ast.With, ast.AsyncWith, ast.Yield, ast.YieldFrom,
                                  ast.Await, ast.Global, ast.Nonlocal, ast.Match, ast.Delete)) or \
                        (hasattr(ast, 'TryStar') and isinstance(x, ast.TryStar)):
                    ok = False
                if isinstance(x, (ast.FunctionDef, ast.AsyncFunctionDef, ast.ClassDef)) and x is not callee.node:
                    ok = False
                if isinstance(x, ast.Return):
                    nret += 1
                    if x.value is None:
                        ok = False
            info['openable'] = ok and 1 <= nret <= 4 and len(list(walk_no_nested(callee.node))) < 900
        return info['openable']

    def _call(self, fi, c, at, bound, stack, depth):
        view = self.view(fi)
        rec = lambda x: self.close(fi, x, at, bound, stack, depth + 1)
        if isinstance(c.func, (ast.Name, ast.Lambda)) and (isinstance(c.func, ast.Lambda) or c.func.id not in bound):
            cb = view._callable(c.func, at)
            if cb is not None:
                return rec(view.open_calls(c, at))
        try:
            callee = resolve_call(self.prog, fi, c)
        except Exception:
            callee = None
        args = []
        for a in (rec(a) for a in c.args):
            # `*t` where t closes to a tuple display: the elements themselves
            if isinstance(a, ast.Starred) and isinstance(a.value, (ast.Tuple, ast.List)) and \
                    not any(isinstance(x, ast.Starred) for x in a.value.elts):
                args += a.value.elts
            elif isinstance(a, ast.Starred) and self._spread(a.value) is not None:
                args += self._spread(a.value)
            else:
                args.append(a)
        starred = any(isinstance(a, ast.Starred) for a in args)
        kws = [ast.keyword(arg=k.arg, value=rec(k.value)) for k in c.keywords]
        from ..resolve import resolve_class_call
        ci = resolve_class_call(self.prog, fi, c) if isinstance(c.func, (ast.Name, ast.Attribute)) else None
        if ci is not None:
            if not starred and all(k.arg for k in c.keywords):
                fields = list(ci.annotated_fields())
                got = dict(zip(fields, args))
                got.update({k.arg: k.value for k in kws})
                if len(args) <= len(fields) and set(got) == set(fields):
                    tag = f'{ci.file}::{ci.name}'
                    _REC_CLASSES[tag] = ci
                    r = _mk('REC__', ast.Constant(tag))
                    r.keywords = [ast.keyword(arg=f, value=got[f]) for f in fields]
                    return r
            callee = None
        # (never embed a node of the parsed tree: its parent link would drag the whole module into every copy)
        if isinstance(c.func, ast.Attribute):
            func = ast.Attribute(value=rec(c.func.value), attr=c.func.attr, ctx=ast.Load())
        elif isinstance(c.func, ast.Name):
            func = ast.Name(id=c.func.id, ctx=ast.Load())
        else:
            func = rec(c.func)
        plain = ast.Call(func=func, args=args, keywords=kws)
        if callee is None or isinstance(fi.node, ast.Lambda):
            return plain
        plain._ck = (callee.file, callee.qualname)
        key = id(callee.node)
        if key in stack or len(stack) > 8 or callee.node.name in self.keep or not self._openable(callee) or \
                starred or any(k.arg is None for k in c.keywords):
            return plain
        # ---- open the callee: bind parameters, take what it returns ----
        a = callee.node.args
        ps = [x.arg for x in a.posonlyargs + a.args]
        defaults = dict(zip(reversed(ps), reversed(a.defaults)))
        for x, dflt in zip(a.kwonlyargs, a.kw_defaults):
            if dflt is not None:
                defaults[x.arg] = dflt
        binding = {}
        decos = callee.decorators()
        if callee.cls is not None and 'staticmethod' not in decos and ps:
            recv = ps.pop(0)
            if isinstance(c.func, ast.Attribute):
                binding[recv] = rec(c.func.value)
                if 'classmethod' in decos or (isinstance(c.func.value, ast.Name) and c.func.value.id not in ('self', 'cls')
                                              and self.prog.resolve_class_expr(fi.module, c.func.value) is not None):
                    return plain
            else:
                return plain
        if len(args) > len(ps):
            return plain
        binding.update(zip(ps, args))
        for k in kws:
            if k.arg in binding or k.arg not in ps + [x.arg for x in a.kwonlyargs]:
                return plain
            binding[k.arg] = k.value
        cview = self.view(callee)
        for p_ in ps + [x.arg for x in a.kwonlyargs]:
            if p_ not in binding:
                if p_ not in defaults:
                    return plain
                binding[p_] = tcopy(defaults[p_])
        rets = cview.returns()
        live = []
        for r in rets:
            try:
                cview._node_of(r)
                live.append(r)
            except Undecided:
                pass
        if not live:
            return plain
        outs = []
        for r in live:
            v = self.close(callee, r.value, r, frozenset(), stack + (key,), depth + 1)
            # a callee that alters one of its parameters in place: what it returns (MUT__ of the parameter) no longer says
            # which argument it was given - the call stands for itself
            for x in ast.walk(v):
                if is_mk(x, MUT):
                    f2, n2, _, _ = self._muts[x.args[0].value]
                    if f2.node is callee.node and n2 in cview.params:
                        return plain
            v = _subst(v, binding)
            if any(is_mk(b_, 'REC__') for b_ in binding.values()):
                v = self._reselect(v)
            outs.append(v)
        uniq = []
        for v in outs:
            if not any(ast.dump(v) == ast.dump(u) for u in uniq):
                uniq.append(v)
        return uniq[0] if len(uniq) == 1 else _mk(ALT, *uniq)


# ---- canonical spelling of closed values --------------------------------------------------------------------------
_NP_SIG = {
    'repeat': ('a', 'repeats'), 'delete': ('arr', 'obj'), 'divide': ('x1', 'x2'), 'true_divide': ('x1', 'x2'),
    'count_nonzero': ('a',), 'searchsorted': ('a', 'v'), 'where': ('condition', 'x', 'y'), 'cumsum': ('a',), 'sum': ('a',),
    'ones_like': ('a',), 'zeros_like': ('a',), 'full_like': ('a', 'fill_value'), 'sign': ('x',), 'diff': ('a',),
    'argmax': ('a',), 'argmin': ('a',), 'nonzero': ('a',), 'flatnonzero': ('a',), 'isnan': ('x',), 'abs': ('x',),
    'any': ('a',), 'all': ('a',), 'not_equal': ('x1', 'x2'), 'logical_not': ('x',),
}
_METHOD_AS_FUNCTION = {'sum', 'cumsum', 'repeat', 'searchsorted', 'argmax', 'argmin', 'nonzero', 'any', 'all'}
_ABS = {'np.abs', 'np.absolute', 'np.fabs', 'abs'}
_FLIP = {ast.Lt: ast.Gt, ast.Gt: ast.Lt, ast.LtE: ast.GtE, ast.GtE: ast.LtE, ast.Eq: ast.Eq, ast.NotEq: ast.NotEq}


def is_mask(e):
    """`e` is written as a boolean array (what boolean-mask indexing takes)"""
    if isinstance(e, ast.UnaryOp) and isinstance(e.op, ast.Invert):
        return is_mask(e.operand)
    if isinstance(e, ast.Compare):
        return True
    if isinstance(e, ast.BinOp) and isinstance(e.op, (ast.BitAnd, ast.BitOr, ast.BitXor)):
        return is_mask(e.left) and is_mask(e.right)
    if isinstance(e, ast.Call):
        return call_name(e) in ('np.isnan', 'np.isfinite', 'np.isinf', 'np.logical_and', 'np.logical_or', 'np.logical_not',
                                'np.isclose')
    return False


class _Canon(ast.NodeTransformer):
    def visit(self, n):
        r = super().visit(n)
        if r is not n and isinstance(r, ast.AST) and isinstance(n, ast.AST):
            nm = n.__dict__.get('_nm')
            if nm and '_nm' not in r.__dict__ and not isinstance(r, (ast.Name, ast.Constant)):
                r._nm = nm
        return r

    def visit_Attribute(self, n):
        self.generic_visit(n)
        if isinstance(n.value, ast.Name) and n.value.id == 'numpy':
            n.value = ast.Name(id='np', ctx=ast.Load())
        return n

    def visit_List(self, n):
        self.generic_visit(n)
        return ast.Tuple(elts=n.elts, ctx=ast.Load()) if isinstance(n.ctx, ast.Load) else n

    def visit_Compare(self, n):
        self.generic_visit(n)
        if len(n.ops) == 1 and type(n.ops[0]) in _FLIP and const_value(n.left) is not None and const_value(n.comparators[0]) is None:
            return ast.Compare(left=n.comparators[0], ops=[_FLIP[type(n.ops[0])]()], comparators=[n.left])
        return n

    def visit_Call(self, n):
        self.generic_visit(n)
        nm = call_name(n)
        callee = getattr(n, '_ck', None)
        # method spelling -> function spelling
        if isinstance(n.func, ast.Attribute) and not nm.startswith('np.') and n.func.attr in _METHOD_AS_FUNCTION \
                and not (isinstance(n.func.value, ast.Name) and n.func.value.id in ('self', 'cls', 'math')) and callee is None:
            n = ast.Call(func=ast.Attribute(value=ast.Name(id='np', ctx=ast.Load()), attr=n.func.attr, ctx=ast.Load()),
                         args=[n.func.value] + n.args, keywords=n.keywords)
            nm = call_name(n)
        if isinstance(n.func, ast.Attribute) and n.func.attr in ('flatten', 'ravel') and not n.args and not nm.startswith('np.'):
            n = _mk(FLAT, n.func.value)
            nm = FLAT
        elif nm == 'np.ravel' and len(n.args) == 1:
            n = _mk(FLAT, n.args[0])
            nm = FLAT
        elif isinstance(n.func, ast.Attribute) and n.func.attr == 'reshape' and len(n.args) == 1 and const_value(n.args[0]) == -1:
            n = _mk(FLAT, n.func.value)
            nm = FLAT
        if nm == FLAT:
            x = n.args[0]
            # indexing with a boolean mask already gives a fresh 1-D array; flattening a flat array gives it again
            if (isinstance(x, ast.Subscript) and is_mask(x.slice)) or is_mk(x, FLAT):
                return x
            return n
        if nm.startswith('np.'):
            sig = _NP_SIG.get(nm[3:])
            if sig:
                args = list(n.args)
                kws = list(n.keywords)
                while len(args) < len(sig):
                    k = next((k for k in kws if k.arg == sig[len(args)]), None)
                    if k is None:
                        break
                    args.append(k.value)
                    kws.remove(k)
                n = ast.Call(func=n.func, args=args, keywords=kws)
        if nm in ('sum', 'math.fsum', 'np.sum') and len(n.args) == 1 and not n.keywords and isinstance(n.args[0], ast.Tuple) \
                and n.args[0].elts and not any(isinstance(x, ast.Starred) for x in n.args[0].elts):
            acc = n.args[0].elts[0]
            for x in n.args[0].elts[1:]:
                acc = ast.BinOp(left=acc, op=ast.Add(), right=x)
            return acc
        if nm in _ABS and len(n.args) == 1:
            n = ast.Call(func=ast.parse('np.abs', mode='eval').body, args=n.args, keywords=[])
        if nm == 'np.logical_not' and len(n.args) == 1 and not n.keywords:
            return ast.UnaryOp(op=ast.Invert(), operand=n.args[0])
        if nm == 'np.not_equal' and len(n.args) == 2 and not n.keywords:
            return self.visit_Compare(ast.Compare(left=n.args[0], ops=[ast.NotEq()], comparators=[n.args[1]]))
        if callee is not None:
            n._ck = callee
        return n

    def visit_UnaryOp(self, n):
        self.generic_visit(n)
        if isinstance(n.op, ast.Invert) and isinstance(n.operand, ast.UnaryOp) and isinstance(n.operand.op, ast.Invert):
            return n.operand.operand
        if isinstance(n.op, ast.Invert) and isinstance(n.operand, ast.Compare) and len(n.operand.ops) == 1:
            inv = {ast.Eq: ast.NotEq, ast.NotEq: ast.Eq}.get(type(n.operand.ops[0]))
            if inv:
                return ast.Compare(left=n.operand.left, ops=[inv()], comparators=n.operand.comparators)
        return n


def canon(e):
    return _Canon().visit(tcopy(e))


# ---- patterns: Python expressions in which names like `X_` (capitals + trailing underscore) stand for anything ----------
_PATS = {}


def _pat(src):
    if src not in _PATS:
        _PATS[src] = canon(ast.parse(src, mode='eval').body)
    return _PATS[src]


def same(a, b):
    return ast.dump(a) == ast.dump(b)


def pm(pat, e, binds=None):
    """bindings of the pattern's place-holders when closed value `e` has the shape `pat`, else None.  `+`, `*`, `&`, `|`
    match in either order; a place-holder that occurs twice must stand for the same value both times."""
    b = dict(binds or {})
    p = _pat(pat) if isinstance(pat, str) else pat
    return b if _pm(p, e, b) else None


def pm_any(pats, e, binds=None):
    for p in pats:
        b = pm(p, e, binds)
        if b is not None:
            return b
    return None


def _pm(p, e, b):
    if isinstance(p, ast.Name) and re.fullmatch(r'[A-Z][A-Z0-9]*_', p.id):
        if p.id in b:
            return same(b[p.id], e)
        b[p.id] = e
        return True
    if isinstance(p, ast.Constant):
        return isinstance(e, ast.Constant) and type(p.value) is type(e.value) and p.value == e.value or \
            (isinstance(e, ast.Constant) and isinstance(p.value, (int, float)) and not isinstance(p.value, bool)
             and isinstance(e.value, (int, float)) and not isinstance(e.value, bool) and p.value == e.value)
    if type(p) is not type(e):
        return False
    if isinstance(p, ast.BinOp):
        if type(p.op) is not type(e.op):
            return False
        trial = dict(b)
        if _pm(p.left, e.left, trial) and _pm(p.right, e.right, trial):
            b.clear(); b.update(trial)
            return True
        if isinstance(p.op, (ast.Add, ast.Mult, ast.BitAnd, ast.BitOr)):
            trial = dict(b)
            if _pm(p.left, e.right, trial) and _pm(p.right, e.left, trial):
                b.clear(); b.update(trial)
                return True
        return False
    if isinstance(p, ast.Call):
        if len(p.args) != len(e.args) or sorted(k.arg or '' for k in p.keywords) != sorted(k.arg or '' for k in e.keywords):
            return False
        if not _pm(p.func, e.func, b):
            return False
        if not all(_pm(x, y, b) for x, y in zip(p.args, e.args)):
            return False
        ek = {k.arg: k.value for k in e.keywords}
        return all(_pm(k.value, ek[k.arg], b) for k in p.keywords)
    for f, pv in ast.iter_fields(p):
        if f == 'ctx':
            continue
        ev = getattr(e, f, None)
        if isinstance(pv, ast.AST):
            if not isinstance(ev, ast.AST) or not _pm(pv, ev, b):
                return False
        elif isinstance(pv, list):
            if not isinstance(ev, list) or len(pv) != len(ev):
                return False
            for x, y in zip(pv, ev):
                if isinstance(x, ast.AST):
                    if not isinstance(y, ast.AST) or not _pm(x, y, b):
                        return False
                elif x != y:
                    return False
        elif pv != ev:
            return False
    return True


def mentions(e, pred):
    return any(pred(x) for x in ast.walk(e))


class _Abbrev(ast.NodeTransformer):
    def visit_Call(self, n):
        if is_mk(n, MUT) and n.args and isinstance(n.args[0], ast.Constant):
            nm, _, where = str(n.args[0].value).partition('@')
            return ast.Name(id=f'<{nm}, altered in place (lines {where.rpartition(":")[2]})>', ctx=ast.Load())
        if is_mk(n, RES) and isinstance(n.args[0], ast.Call):
            f = n.args[0].func
            return ast.Name(id=f'<{n.args[1].value} of {f.attr if isinstance(f, ast.Attribute) else norm(f)}()>', ctx=ast.Load())
        self.generic_visit(n)
        return n


class _Renamer(ast.NodeTransformer):
    def visit(self, n):
        nm = getattr(n, '_nm', None)
        if nm and isinstance(n, ast.expr):
            return ast.Name(id=nm, ctx=ast.Load())
        return super().visit(n)


def show(e, n=80, top=False):
    """short text of a closed value: a sub-value that was reached through a local is shown by that local's name (the
    value itself when it is the whole of `e` and `top`), arrays of an un-opened call's result by their role"""
    try:
        e = tcopy(e)
        if top and getattr(e, '_nm', None):
            e._nm = None
        return norm(_Abbrev().visit(_Renamer().visit(e)))[:n]
    except Exception:
        return type(e).__name__


SPLITS = (('first', 'Gridder._dateline_split_first_segment'), ('second', 'Gridder._dateline_split_second_segment'))
IV = 'integrated_variables'


def _same_fn(a, b):
    return a is not None and (a == b or a.node is b.node)


def split_call(ctx, rule, gc, fn):
    prog = ctx.prog
    call = next((c for c in calls_in(gc.node) if _same_fn(resolve_call(prog, gc, c), fn)), None)
    if call is None:
        ctx.undecided(rule, gc, fn.qualname, 'split call not found')
    if any(isinstance(a, ast.Starred) for a in call.args) or any(k.arg is None for k in call.keywords):
        ctx.undecided(rule, gc, fn.qualname, 'split call uses * / ** arguments')
    params = [p for p in fn.params if p not in ('self', 'cls')]
    binding = dict(zip(params, call.args))
    binding.update({k.arg: k.value for k in call.keywords})
    return call, binding


class CallSite:
    """What a split function's parameters - and the components of its record parameters - are at the call the driver
    makes: `raw[p]` is the argument closed over the driver's own values (see Values), `value(key)` the value of the
    parameter / component written `key` in the split function (`lats`, `trajectory[5]`, `crossing.first_length`), found by
    taking the record the driver passes apart.  None when the driver's value does not show the component."""

    def __init__(self, ctx, V, gc, fn, view, call, binding):
        self.V, self.view, self.fn, self.gc, self.call = V, view, fn, gc, call
        self.raw = {p: canon(V.close(gc, a_, stmt_of(call))) for p, a_ in binding.items()}
        self._memo = {}

    def value(self, key):
        if key not in self._memo:
            self._memo[key] = self._value(ast.parse(key, mode='eval').body) if isinstance(key, str) else None
        v = self._memo[key]
        return tcopy(v) if v is not None else None

    def _value(self, e):
        if isinstance(e, ast.Name):
            return self.raw.get(e.id)
        if isinstance(e, (ast.Subscript, ast.Attribute)):
            v = self._value(e.value)
            step = e.attr if isinstance(e, ast.Attribute) else const_value(e.slice)
            if v is None or isinstance(step, bool) or not isinstance(step, (int, str)):
                return None
            return self.V._select(v, step)
        return None

    def received(self, key):
        """name of the driver's own parameter that `key` is at the call, as received (value-preserving wrappers and
        re-tupling allowed); None when it is anything else"""
        v = self.value(key)
        if v is None:
            return None
        al = [a for a in alts(v)]
        names = set()
        for a in al:
            s_ = strip_casts(a)
            for _ in range(2):
                bt = pm_any(['tuple(X_)', 'list(X_)'], s_)
                if bt is not None:
                    s_ = strip_casts(bt['X_'])
            names.add(s_.id if isinstance(s_, ast.Name) and s_.id in self.gc.params else None)
        return names.pop() if len(names) == 1 else None

    def components(self, at):
        """{text: expression} of the record-parameter components the split function reads"""
        out = {}
        for x in ast.walk(self.fn.node):
            k = self.view.component(x, at) if isinstance(x, (ast.Subscript, ast.Attribute)) else None
            if k is not None:
                out[k] = x
        return out

    def substitute(self, e, at, prefix):
        """copy of `e` (an expression of the split function) with every component of a record parameter replaced by its value
        at the call (names prefixed); Undecided when a component the expression reads is not visible in what the driver passes"""
        site, view = self, self.view

        class T(ast.NodeTransformer):
            def visit_Subscript(self, n):
                k = view.component(n, at)
                if k is None:
                    return self.generic_visit(n)
                v = site.value(k)
                if v is None:
                    raise Undecided(f'`{k}` of {site.fn.name}: the record the driver passes (`{show(site.raw.get(_root_name(n)), 60, top=True)}`) '
                                    'does not show this component')
                return _rename(v, prefix)
            visit_Attribute = visit_Subscript
        return T().visit(tcopy(e))


def rule_split_sum(ctx, m):
    try:
        _rule_split_sum(ctx, m)
    except Undecided as e:
        ctx.undecided('C04-R1', (GRID, 'Gridder._dateline_split_*'), 'antimeridian split', str(e))


def _rule_split_sum(ctx, m):
    prog = ctx.prog
    cs = m.func('Gridder._calculate_segment_lengths')
    gc = m.func('Gridder._grid_trajectory_with_dateline_crossing')
    csv, gcv = SeqView(cs, prog), SeqView(gc, prog)
    # ---- the two lengths: from element k to the antimeridian (A) and from there to element k+1 (B) -----------------
    rets = csv.returns()
    if len(rets) != 1:
        ctx.undecided('C04-R1', cs, 'return', f'{len(rets)} return statements')
    V = grid_values(ctx)
    lens = [canon(V.close(cs, x, at)) for x, at in ret_elts(csv, rets[0])]
    for e_ in lens:
        for x_ in ast.walk(e_):
            x_.__dict__.pop('_nm', None)
    side = {}
    kcs = set()
    for j, e in enumerate(lens):
        offs = set()
        for x in ast.walk(e):
            if isinstance(x, ast.Subscript) and csv._slice_bounds(x.slice, rets[0], ()) is None:
                a, off = csv.index(x.slice, rets[0])
                offs.add(off)
                kcs.add(a)
        try:
            r = normal_form(e, {})
        except AlgebraError as ex:
            ctx.undecided('C04-R1', cs, norm(e)[:60], str(ex))
        prim = len(r.num) == 1 and list(r.den.keys()) == [()] and all(len(mo) == 1 and mo[0][1] == 1 and c == 1 for mo, c in r.num.items())
        if prim and offs == {0}:
            side.setdefault('first', []).append(j)
        elif prim and 1 in offs:
            side.setdefault('second', []).append(j)
    ok = all(len(side.get(s, [])) == 1 for s in ('first', 'second')) and len(kcs) == 1
    if not ok and not all(dist_args(x_) is not None for e_ in lens for x_ in ast.walk(e_)
                          if isinstance(x_, (ast.Call, ast.Subscript)) and not isinstance(getattr(x_, 'value', None), ast.Name)
                          and not (isinstance(x_, ast.Call) and call_name(x_).startswith(('np.', 'numpy.', 'math.')))):
        ctx.undecided('C04-R1', cs, 'returned lengths', 'the returned lengths are not recognised as measured lengths (distance between '
                      'two points) and sums of them: ' + '; '.join(norm(e_)[:60] for e_ in lens))
    ctx.ob('C04-R1', cs, 'one length measured from element k to the antimeridian, one from there to element k+1', ok,
           f'returned components {side.get("first")} and {side.get("second")}' if ok else
           'the two part lengths of the crossing segment are not both returned as measured lengths', line=rets[0].lineno)
    if not ok:
        return
    kcs = kcs.pop()
    # ---- caller: the lengths as the call of _calculate_segment_lengths returns them, over the caller's own values.  The
    # arguments of the split calls are closed the same way, so it does not matter how the lengths travel from one call to
    # the other (tuple unpacking, a record, an intermediate helper).
    from .c05 import _bind_args
    cs_call = next((c for caller, c, callee in module_calls(ctx, m) if caller == gc and _same_fn(callee, cs)), None)
    cs_bind = _bind_args(cs, cs_call) if cs_call is not None else None
    if cs_bind is None:
        ctx.undecided('C04-R1', gc, '_calculate_segment_lengths', 'plain call of the length computation not found')
    cs_closed = {p: canon(V.close(gc, a_, stmt_of(cs_call))) for p, a_ in cs_bind.items()}
    A = _rename(_subst(lens[side['first'][0]], cs_closed), 'caller__')
    B = _rename(_subst(lens[side['second'][0]], cs_closed), 'caller__')
    total = ast.BinOp(left=A, op=ast.Add(), right=B)
    want = {'first': ast.BinOp(left=A, op=ast.Div(), right=total), 'second': ast.BinOp(left=B, op=ast.Div(), right=total)}
    kbind = {'lengths': show(cs_closed[kcs], 200, top=True) if kcs in cs_closed else None}

    shares = {}
    nshare = 0
    for part, qn in SPLITS:
        fn = m.func(qn)
        view = SeqView(fn, prog)
        call, binding = split_call(ctx, 'C04-R1', gc, fn)
        site = CallSite(ctx, V, gc, fn, view, call, binding)
        env = {p: _rename(v, 'caller__') for p, v in site.raw.items()}
        returns = view.returns()
        evaluated = []
        for r in returns:
            row = []
            for x, at in ret_elts(view, r):
                try:
                    row.append(view.coll(x, at))
                except Undecided as e:
                    row.append(e)
            evaluated.append(row)
        # the integrated variables inside the split function: its parameter of that name, or - when the inputs travel in a
        # record - the component of a record parameter that IS the driver's `integrated_variables` at the call
        srcs = {a[1] for row in evaluated for alts_ in row if isinstance(alts_, list) for a in alts_ if a[0] == 'pervar'}
        ivsrc = {IV} if IV in binding else {s_ for s_ in srcs if s_ not in binding and site.received(s_) == IV}
        if not ivsrc:
            ctx.undecided('C04-R1', fn, IV, 'the split function has no such parameter, and no component of a record it receives is the '
                          f'driver\'s `{IV}` as received (per-variable parts are built from {sorted(srcs)})')
        pos = {j for row in evaluated for j, alts_ in enumerate(row) if isinstance(alts_, list)
               and any(a[0] == 'pervar' and a[1] in ivsrc for a in alts_)}
        if len(pos) != 1:
            why = '; '.join(sorted({str(a) for row in evaluated for a in row if isinstance(a, Undecided) and IV in str(a)}))
            ctx.undecided('C04-R1', fn, 'returned parts', f'{len(pos)} returned components are recognised as built from {IV}'
                          + (f' ({why[:300]})' if why else ''))
        pos = pos.pop()
        shares[part] = []
        for ri, (r, row) in enumerate(zip(returns, evaluated)):
            tag = f'{part} part, return #{ri + 1}'
            if pos >= len(row):
                ctx.undecided('C04-R1', fn, tag, 'returns fewer parts')
            if isinstance(row[pos], Undecided):
                ctx.undecided('C04-R1', fn, tag, str(row[pos]))
            for alt in row[pos]:
                if alt[0] == 'empty':
                    if not any(guarded_empty(r, s_) for s_ in ivsrc):
                        ctx.undecided('C04-R1', fn, tag, f'returns no integrated arrays on a path where {IV} is not known to be empty')
                    continue
                _, src, var, expr, at, bound = alt
                if src not in ivsrc:
                    ctx.ob('C04-R1', fn, f'{tag}: integrated part built from {src}', False,
                           f'the integrated part of the split is computed from `{src}`, not from `{IV}`', line=r.lineno)
                    continue
                for parts in view.seq(expr, at, bound):
                    nshare += _check_share(ctx, fn, view, part, tag, r, var, parts, env, want[part], shares[part], kbind, site)
    ctx.floor('C04-R1', nshare, 2, 'return paths of the two split functions examined for the crossing-segment share')
    # ---- the two parts are cut at the same element the lengths were measured at ---------------------------------------
    ok = len({v for v in kbind.values()}) == 1 and None not in kbind.values()
    ctx.ob('C04-R1', gc, f'lengths and both parts use crossing element {sorted(set(map(str, kbind.values())))}', ok,
           'one crossing index' if ok else 'the lengths are measured at a different element than the one that is split', nontrivial=False)
    # ---- over every pair of paths the two shares add up to one -----------------------------------------------------
    for d1, s1, w1 in shares['first']:
        for d2, s2, _ in shares['second']:
            ok = poly_equal(s1 + s2, normal_form(ast.Constant(1), {}))
            ctx.ob('C04-R1', gc, f'{d1} + {d2} ≡ 1', ok,
                   'with the lengths as returned by _calculate_segment_lengths the two shares sum to one identically' if ok else
                   'the two shares of the crossing segment sum to ' + in_lengths(s1 + s2, w1)[:160] + ', not 1', line=gc.node.lineno)


def in_lengths(r, want):
    """the rational function `r` written over FIRST / SECOND, the two lengths `want` (= X / (FIRST + SECOND)) is made of, when
    each of them is one measured length; else the function as it is, caller prefixes removed"""
    txt = str(r)
    try:
        for word, e in (('FIRST', want.right.left), ('SECOND', want.right.right)):
            at = normal_form(e, {}).atoms()
            if len(at) == 1:
                txt = txt.replace(next(iter(at)), word)
    except (AlgebraError, AttributeError):
        pass
    txt = re.sub(r'(?<![\w.])1\*', '', txt)
    return re.sub(r'\b(caller|cs)__', '', txt)


def _check_share(ctx, fn, view, part, tag, r, var, parts, env, want, shares, kbind, site=None):
    """one return path of one split function: [kept elements] + [crossing element × share], each exactly once"""
    desc = show_parts(parts)
    elems = [p for p in parts if p[0] == 'elem']
    katoms = index_param(view, [(parts, var)])
    comps = site.components(r) if site is not None else {}
    if len(katoms) != 1 or not katoms <= set(fn.params) | set(comps):
        ctx.undecided('C04-R1', fn, tag, f'`{desc}` is not cut at one index parameter ({sorted(map(str, katoms))})')
    k = next(iter(katoms))
    call_arg = env.get(k)
    if call_arg is None and k in comps and site.value(k) is not None:
        call_arg = _rename(site.value(k), 'caller__')
    kbind[part] = show(_rename_back(call_arg), 200, top=True) if call_arg is not None else None
    # (a) the share term is there, once
    if len(elems) != 1:
        ctx.ob('C04-R1', fn, f'{tag}: crossing share included once in {desc}', False,
               (f'on the path that returns at line {r.lineno} the {part} part is `{desc}`: the crossing segment\'s share for this '
                'part (value × part length / total length) is not added — the other part still receives only its own share, '
                'so the quantity is lost') if not elems else
               f'the {part} part `{desc}` contains {len(elems)} inserted elements: the crossing segment is counted more than once',
               line=r.lineno)
        return 1
    f, marks, e2, shown = elem_form(view, elems[0], var)
    ph = _ph(k, 0)
    ok = ph in marks and is_multiple_of(f, ph, var)
    ctx.ob('C04-R1', fn, f'{tag}: inserted element is {var}[{k}] × share', ok,
           f'`{shown[:70]}`' if ok else
           f'the inserted element `{shown[:70]}` is not the crossing element {var}[{k}] times a share',
           line=getattr(elems[0][1], 'lineno', r.lineno))
    # (b) the kept elements are exactly those on this side of the crossing element
    rest = [p for p in parts if p[0] != 'elem']
    zero = (None, (None, 0))
    if part == 'first':
        okk = len(rest) == 1 and rest[0][0] == 'slice' and rest[0][1] == var and rest[0][2] in zero and rest[0][3] == (k, 0) \
            and parts[-1][0] == 'elem'
    else:
        okk = len(rest) == 1 and rest[0][0] == 'slice' and rest[0][1] == var and rest[0][2] == (k, 1) and rest[0][3] is None \
            and parts[0][0] == 'elem'
    ctx.ob('C04-R1', fn, f'{tag}: keeps unsplit elements {show_parts(rest)}', okk,
           'all elements before (after) the crossing one, the crossing one only as its share' if okk else
           f'`{desc}`: the unsplit elements overlap with or miss the crossing element {var}[{k}]: quantity is duplicated or lost',
           line=r.lineno)
    if not ok:
        return 1
    # (c) the share is this part's own length over the sum of both
    env2 = dict(env)
    env2[ph] = ast.Constant(1)
    if site is not None and comps:
        e2 = site.substitute(e2, r, 'caller__')      # what travels in a record is what the driver put there
    try:
        share = normal_form(e2, env2)
        wanted = normal_form(want, {})
    except AlgebraError as ex:
        raise Undecided(f'share `{shown[:60]}`: {ex}')
    oks = poly_equal(share, wanted)
    txt = show(_subst(_subst(e2, {ph: ast.Name(id='ONE__', ctx=ast.Load())}), {p: v for p, v in env.items() if not p.startswith('caller__')}), 200)
    txt = re.sub(r'\b(caller|cs)__', '', txt.replace('ONE__ * ', '').replace(' * ONE__', '').replace('ONE__', '1'))
    ctx.ob('C04-R1', fn, f'{tag}: share = {txt[:80]}', oks,
           f'share of the {part} part = its own length over the sum of both lengths' if oks else
           (f'the {part} part of the crossing segment is scaled by `{txt[:80]}`' +
            (f' - with what the driver passes, {in_lengths(share, want)[:120]} (FIRST: from the crossing element to the antimeridian, '
             f'SECOND: from there to the next element) -' if len(in_lengths(share, want)) <= 120 else '') +
            f' which is not the {part} length over the '
            'sum of both lengths: the two shares no longer add up to the segment value'), line=getattr(elems[0][1], 'lineno', r.lineno))
    shares.append((f'{part}#{tag[-1]} {txt[:60]}', share, want))
    return 1


# ---------------------------------------------------------------------------------------------------------------
# What the share computation returns, by value.  Each of the six returned components is closed (see Values) and read
# as a value over: the way-points / variables as received, the arrays the horizontal intersection returns
# (RES__(call, 'lat index' | 'lon index' | 'lat coordinate' | 'lon coordinate')) and the grid axes.
# ---------------------------------------------------------------------------------------------------------------
HZ_FN = 'Gridder._trajectory_intersection_points_and_cells_horizontal'
DIST_FN = 'great_circle_distance'
INT_TYPES = ('int', 'np.int64', 'np.intp', 'np.int_', 'np.int32')


def grid_values(ctx):
    v = ctx.__dict__.get('_grid_values')
    if v is None:
        v = ctx._grid_values = Values(ctx.prog, keep=(DIST_FN, 'crosses_dateline', SHARE_FN.split('.')[-1], HZ_FN.split('.')[-1]))
    return v


def module_calls(ctx, m):
    """[(caller, call node, callee)] for every resolved call between functions of module `m` (computed once per run)"""
    key = '_module_calls_' + m.relpath
    if key not in ctx.__dict__:
        out = []
        for fi in m.functions.values():
            for c in calls_in(fi.node):
                nm = call_name(c)
                if nm.startswith(('np.', 'numpy.', 'math.', 'warnings.')) or nm in ('len', 'tuple', 'zip', 'range', 'print', 'int', 'set',
                                                                                  'max', 'min', 'list', 'float', 'abs'):
                    continue
                try:
                    callee = resolve_call(ctx.prog, fi, c)
                except Exception:
                    callee = None
                if callee is not None and callee.file == m.relpath:
                    out.append((fi, c, callee))
        ctx.__dict__[key] = out
    return ctx.__dict__[key]


def hz_leaf(e):
    """role of an array of the horizontal intersection's result ('lat index', ...), else None"""
    if is_mk(e, RES) and getattr(e.args[0], '_ck', (None, None))[1] == HZ_FN:
        return e.args[1].value
    return None


def strip_casts(e):
    """`e` without value-preserving wrappers: .astype(<integer type>) on an index, np.asarray(x) / x.copy() without dtype"""
    for _ in range(6):
        b = pm('X_.astype(T_)', e)
        if b is not None and show(b['T_']) in INT_TYPES:
            e = b['X_']
            continue
        b = pm_any(['np.asarray(X_)', 'np.asanyarray(X_)', 'np.array(X_)', 'X_.copy()', 'np.copy(X_)', 'np.ascontiguousarray(X_)'], e)
        if b is not None and not isinstance(b['X_'], ast.Tuple):
            e = b['X_']
            continue
        # a cast to double precision loses nothing (way-points, times, quantities are real numbers or smaller integers)
        b = pm_any(['np.asarray(X_, dtype=T_)', 'np.asanyarray(X_, dtype=T_)', 'np.array(X_, dtype=T_)', 'np.asarray(X_, T_)'], e)
        if b is not None and not isinstance(b['X_'], ast.Tuple) and show(b['T_']) in ('float', 'np.float64', "'float64'", 'np.double', "'f8'"):
            e = b['X_']
            continue
        b = pm('X_.astype(T_)', e)
        if b is not None and show(b['T_']) in ('float', 'np.float64', "'float64'", 'np.double'):
            e = b['X_']
            continue
        break
    return e


def count_of(e):
    """(X, k) when `e` is (the number of non-NaN entries per row of X) + k, else None"""
    k = 0
    for _ in range(3):
        b = pm('Y_ - K_', e)
        if b is not None and isinstance(const_value(b['K_']), int):
            e, k = b['Y_'], k - const_value(b['K_'])
            continue
        b = pm('Y_ + K_', e)
        if b is not None and isinstance(const_value(b['K_']), int):
            e, k = b['Y_'], k + const_value(b['K_'])
            continue
        break
    b = pm_any(['np.count_nonzero(~np.isnan(X_), axis=A_)', 'np.sum(~np.isnan(X_), axis=A_)',
                'np.count_nonzero(np.isfinite(X_), axis=A_)', 'np.sum(np.isfinite(X_), axis=A_)'], e)
    if b is not None and const_value(b['A_']) in (1, -1):
        return b['X_'], k
    b = pm_any(['X_.shape[1] - np.count_nonzero(np.isnan(X_), axis=A_)', 'X_.shape[1] - np.sum(np.isnan(X_), axis=A_)'], e)
    if b is not None and const_value(b['A_']) in (1, -1):
        return b['X_'], k
    return None


def describe_count(e):
    """(ok, text): `e` is the number of cells each segment touches: the non-NaN cell indices per row, or - the same
    number - the non-NaN intersection points per row minus one"""
    c = count_of(e)
    if c is None:
        return None, f'`{show(e, 60)}`'
    x, k = c
    role = hz_leaf(x)
    if role in ('lat index', 'lon index'):
        if k == 0:
            return True, f'non-NaN {role} entries per segment'
        return False, f'the number of cells per segment {"+" if k > 0 else "−"} {abs(k)}'
    if role in ('lat coordinate', 'lon coordinate'):
        if k == -1:
            return True, f'non-NaN {role} entries per segment − 1'
        return False, (f'non-NaN entries per row of the {role} array' + (f' {"+" if k > 0 else "−"} {abs(k)}' if k else '') +
                       ' (there is one point more than there are cells per segment)')
    return None, f'`{show(e, 60)}`'


def same_count(a, b):
    """two count vectors are the same vector: written the same, or both the number of cells per segment"""
    return same(a, b) or (describe_count(a)[0] is True and describe_count(b)[0] is True)


def parse_lookup(e):
    """{axis, coord, minus, trail, side, sorter, arith} of a cell look-up value: peels integer casts, slices (recorded in
    `trail`, outermost last) and `- 1`; None when there is no np.searchsorted underneath"""
    trail, minus = [], 0
    for _ in range(8):
        s = strip_casts(e)
        if s is not e:
            e = s
            continue
        if isinstance(e, ast.Subscript) and isinstance(e.slice, ast.Slice):
            trail.insert(0, show(e.slice))
            e = e.value
            continue
        b = pm('X_ - 1', e)
        if b is not None:
            minus += 1
            e = b['X_']
            continue
        b = pm('X_ + K_', e)
        if b is not None and const_value(b['K_']) == -1:
            minus += 1
            e = b['X_']
            continue
        break
    if isinstance(e, ast.Call) and call_name(e) == 'np.digitize' and len(e.args) >= 2:
        # np.digitize(x, bins, right=True) is np.searchsorted(bins, x, side='left') for increasing bins; right=False is side='right'
        right = kwarg(e, 'right') if kwarg(e, 'right') is not None else (e.args[2] if len(e.args) > 2 else ast.Constant(False))
        side = ast.Constant('left' if const_value(right) is True else ('right' if const_value(right) is False else None))
        e = ast.Call(func=ast.parse('np.searchsorted', mode='eval').body, args=[e.args[1], e.args[0]],
                     keywords=[ast.keyword(arg='side', value=side)])
    if isinstance(e, ast.Call) and call_name(e) == 'np.searchsorted' and len(e.args) >= 2:
        coord = e.args[1]
        # the search is element-wise: slicing the searched-for values first is slicing the result
        while isinstance(coord, ast.Subscript) and isinstance(coord.slice, ast.Slice):
            trail.insert(0, show(coord.slice))
            coord = coord.value
        return {'axis': e.args[0], 'coord': coord, 'minus': minus, 'trail': trail,
                'side': kwarg(e, 'side') if kwarg(e, 'side') is not None else (e.args[2] if len(e.args) > 2 else None),
                'sorter': kwarg(e, 'sorter') is not None or len(e.args) > 3}
    return None


def lookup_verdict(e, axis_attr, coord_ok):
    """(ok, why) for a value that has to be `np.searchsorted(self.<axis_attr>, <coordinates as given>) - 1`; ok is None
    when the form is not recognised.  `coord_ok(expr)` says whether the searched-for values are the right, unaltered ones."""
    lk = parse_lookup(e)
    if lk is None:
        # an offset from one grid line divided by something: position computed from a spacing, not found by search
        arith = mentions(e, lambda x: isinstance(x, ast.Subscript) and isinstance(x.value, ast.Attribute)
                         and x.value.attr.startswith('grid_') and const_value(x.slice) is not None) and \
            mentions(e, lambda x: isinstance(x, ast.BinOp) and isinstance(x.op, (ast.Div, ast.FloorDiv))) and \
            not mentions(e, lambda x: isinstance(x, ast.Call) and call_name(x).endswith(('searchsorted', 'digitize', 'bisect_left',
                                                                                         'bisect_right', 'bisect')))
        if arith:
            return False, (f'`{show(e, 70, top=True)}` does not search the axis: index arithmetic on the grid lines is only right for one kind of '
                           'axis (evenly spaced); on other grids the cell is wrong')
        return None, f'`{show(e, 70, top=True)}` is not recognised as a search of a grid axis'
    ax = show(lk['axis'])
    if ax != f'self.{axis_attr}':
        if re.fullmatch(r'self\.grid_\w+', ax):
            return False, f'the {axis_attr} cell is looked up on `{ax}`: wrong grid axis'
        return None, f'searched axis `{ax[:50]}` is not recognised as the grid\'s own `{axis_attr}`'
    if lk['minus'] != 1:
        return False, (f'look-up is searchsorted(…) with {lk["minus"]} × “− 1”: the cell of a coordinate is the index of the last grid '
                       'line below it, searchsorted − 1')
    if lk['sorter'] or (lk['side'] is not None and const_value(lk['side']) != 'left'):
        return False, 'look-up searches with another side / a sorter: points on a grid line change cell'
    ok, why = coord_ok(lk['coord'])
    if ok is not True:
        return ok, why
    return True, f'searchsorted(self.{axis_attr}, {show(lk["coord"], 40)}) − 1'


def as_received(name):
    """coord_ok for `the parameter <name>, as received` (value-preserving wrappers allowed)"""
    def ok(c):
        s = strip_casts(c)
        if isinstance(s, ast.Name) and s.id == name:
            return True, ''
        if mentions(s, lambda x: (isinstance(x, ast.keyword) and x.arg == 'dtype') or
                    (isinstance(x, ast.Attribute) and x.attr in ('astype', 'round', 'floor', 'ceil', 'trunc', 'rint'))):
            return False, (f'the searched-for values are altered before the search (`{show(c, 60, top=True)}`): a value just above a grid line '
                           'can land on or below it and is attributed to the cell below')
        if isinstance(s, ast.Name):
            return False, f'the cell is looked up for `{s.id}`, not for `{name}`'
        return None, f'searched-for values `{show(c, 60, top=True)}` are not recognised as `{name}` as received'
    return ok


def pervar_values(V, fi, view, x, at):
    """[(source parameter, loop variable, closed canonical element value)] + whether an empty alternative exists, for a
    returned component that holds one array per member of a tuple-of-arrays parameter"""
    out, empty = [], False
    for a in view.coll(x, at):
        if a[0] == 'empty':
            empty = True
            continue
        _, src, var, expr, at2, bound = a
        out.append((src, var, canon(V.close(fi, expr, at2, frozenset(bound) | {var})), at2))
    return out, empty


def dist_args(e):
    """(lat0, lon0, lat1, lon1) of a distance between two point sets, else None"""
    b = pm(f'{DIST_FN}(A_, B_, C_, D_)', e)
    if b is not None:
        return b['A_'], b['B_'], b['C_'], b['D_']
    b = pm('GEOD.inv(B_, A_, D_, C_, radians=True)[2]', e)
    if b is not None:
        return b['A_'], b['B_'], b['C_'], b['D_']
    return None


def consecutive(e0, e1):
    """X when e0 is X[:-1] and e1 is X[1:] (each point paired with the next one), else None"""
    b0, b1 = pm('X_[:-1]', e0), pm('X_[1:]', e1)
    if b0 is not None and b1 is not None and same(b0['X_'], b1['X_']):
        return b0['X_']
    return None


def share_model(ctx, m):
    """closed, canonical returned components of the share computation (cached on ctx): list per return statement of
    [(raw expr, statement, closed value or None)]"""
    if '_share_model' in ctx.__dict__:
        return ctx._share_model
    V = grid_values(ctx)
    fn = m.func(SHARE_FN)
    view = V.view(fn)
    rows = []
    for r in view.returns():
        elts = ret_elts(view, r)
        if len(elts) != 6:
            ctx.undecided('C05-R2', fn, 'returned parts', f'the share computation returns {len(elts)} parts (expected cell latitude / '
                          'longitude / altitude / time indices, state values, integrated values)')
        rows.append((r, elts))
    if not rows:
        ctx.undecided('C05-R2', fn, 'returned parts', 'no return statement')
    ctx._share_model = (V, fn, view, rows)
    return ctx._share_model


class _Counts(ast.NodeTransformer):
    def visit(self, n):
        if isinstance(n, ast.expr) and describe_count(n)[0] is True:
            return ast.Name(id='COUNT__', ctx=ast.Load())
        return super().visit(n)


def same_value(a, b):
    """the same closed value, the number of cells per segment counting as one value however it is counted"""
    return same(a, b) or same(_Counts().visit(tcopy(a)), _Counts().visit(tcopy(b)))


def guard_verdict(W, D, N=None, nonneg=False, n_nonneg=False, O=None, piece=False):
    """(ok, why): the mask `W` of a guarded division `N / D where W else O` is the exact test `D != 0` on the denominator
    `D`, or a mask with the same truth value on every element (`nonneg` / `n_nonneg`: the denominator / numerator is a
    length, never negative, so `> 0` is the same test; `piece`: the numerator is a part of the denominator)"""
    exact = 'the division is skipped exactly where the denominator is zero'
    D = _under_safe_denominator(D)
    tol = (f'the guard `{show(W, 60)}` is not the exact test `{show(D, 40)} != 0`: with a tolerance, a segment whose '
           'denominator is tiny but non-zero is treated as degenerate (its grid-line crossing is lost / every piece gets the '
           'default share: NaN intersection, output arrays of different lengths, quantities counted more than once)')
    b = pm_any(['X_ != 0', 'np.abs(X_) > 0', 'np.abs(X_) != 0'] + (['X_ > 0'] if nonneg else []), W)
    if b is not None:
        x = b['X_']
        if same_value(x, D):
            return True, exact
        if N is not None and same_value(x, N):
            return False, (f'the guard of the division tests the numerator `{show(x, 50)}` instead of the denominator `{show(D, 50)}`: '
                           'zero-length *pieces* of a real segment get the default share and the segment is counted again (or a zero '
                           'denominator is divided by)')
        bd = pm('np.repeat(Y_, C_)', D)
        if bd is not None and same_value(x, bd['Y_']):
            return False, f'the guard tests `{show(x, 50)}` before it is expanded: it does not line up with the denominator `{show(D, 50)}`'
        v = _guard_by_table(W, D, N, nonneg, n_nonneg, O, piece)
        if v is not None and v[0] is not None:
            return v if v[0] is False else (True, exact + ' (the mask is equivalent to the exact test on every kind of element)')
        return False, f'the guard of the division tests `{show(x, 50)}` instead of the denominator `{show(D, 50)}`'
    b, bd = pm_any(['np.repeat(X_ != 0, C_)', 'np.repeat(np.abs(X_) > 0, C_)'], W), pm('np.repeat(Y_, C_)', D)
    if b is not None and bd is not None and same_value(b['X_'], bd['Y_']) and same_value(b['C_'], bd['C_']):
        return True, exact + ' (test made before the expansion)'
    b = pm_any(['X_ > K_', 'X_ >= K_', 'np.abs(X_) > K_', 'np.abs(X_) >= K_', 'X_ < K_', 'X_ <= K_'], W)
    if b is not None and const_value(b['K_']) is not None:
        if not same_value(b['X_'], D):
            v = _guard_by_table(W, D, N, nonneg, n_nonneg, O, piece)
            if v is not None and v[0] is not None:
                return v if v[0] is False else (True, exact + ' (the mask is equivalent to the exact test on every kind of element)')
            return False, f'the guard of the division tests `{show(b["X_"], 50)}` instead of the denominator `{show(D, 50)}`'
        if const_value(b['K_']) == 0:
            return False, (f'the guard `{show(W, 60)}` is not the test `{show(D, 40)} != 0`: denominators of one sign are treated as zero')
        return False, tol
    if mentions(W, lambda x: isinstance(x, ast.Call) and call_name(x) in ('np.isclose', 'np.allclose', 'math.isclose')) \
            and not mentions(W, lambda x: isinstance(x, ast.BinOp) and isinstance(x.op, (ast.BitAnd, ast.BitOr, ast.BitXor))):
        return False, tol
    # any other mask: decided by its truth table over the kinds of element there are (zero / tiny / ordinary values of
    # the denominator and the numerator), against the exact test `denominator != 0`
    v = _guard_by_table(W, D, N, nonneg, n_nonneg, O, piece)
    if v is not None:
        return v if v[0] is not True else (True, exact + ' (the mask is equivalent to the exact test on every kind of element)')
    return None, f'guard `{show(W, 60)}` is not recognised as a test of the denominator `{show(D, 40)}`'


class _NoValue(Exception):
    pass


def _under_safe_denominator(D):
    """X when D is X with its zeros replaced by a non-zero constant (np.where(X == 0, 1.0, X) and the like, the mask decided
    by its truth table): wherever X is not zero D is X, so the guard that is needed is still exactly `X != 0`"""
    for _ in range(3):
        b, zero_arm = pm('np.where(Z_, K_, X_)', D), True
        if b is None or const_value(b['K_']) is None:
            b, zero_arm = pm('np.where(Z_, X_, K_)', D), False
        if b is None or const_value(b['K_']) in (None, 0) or isinstance(const_value(b['K_']), bool):
            return D
        X = b['X_']
        try:
            for x in (-1.0, -_TINY, 0.0, _TINY, 1.0):
                def leaf(y, inner, x=x):
                    if same_value(y, X):
                        return x
                    raise _NoValue
                z = _elementwise(b['Z_'], leaf)
                if not isinstance(z, bool) or z != ((x == 0) == zero_arm):
                    return D
        except (_NoValue, ArithmeticError, TypeError):
            return D
        D = X
    return D


_TINY = 1e-30           # stands for a value that is not zero but below any tolerance a guard could be written with


def _elementwise(e, leaf, inner=False, expands=None):
    """the value of the element-wise expression `e` at one element of its arrays.  `leaf(x, inner)` gives the number the
    sub-value `x` has at that element (raises _NoValue when it is none of the arrays in question); inside
    np.repeat(E, C) with the count vector `expands` accepts, E is evaluated on the values *before* the expansion
    (`inner`).  Forms outside the list raise _NoValue."""
    def go(x):
        return _elementwise(x, leaf, inner, expands)
    try:
        return leaf(e, inner)
    except _NoValue:
        pass
    if isinstance(e, ast.Constant) and isinstance(e.value, (bool, int, float)):
        return e.value
    if isinstance(e, ast.Attribute) and norm(e) in ('np.inf', 'math.inf'):
        return float('inf')
    if isinstance(e, ast.UnaryOp):
        v = go(e.operand)
        if isinstance(e.op, (ast.Invert, ast.Not)):
            if not isinstance(v, bool):
                raise _NoValue
            return not v
        if isinstance(e.op, ast.USub):
            return -v
        if isinstance(e.op, ast.UAdd):
            return v
    if isinstance(e, ast.BinOp):
        a, b = go(e.left), go(e.right)
        if isinstance(e.op, (ast.BitAnd, ast.BitOr, ast.BitXor)):
            if not (isinstance(a, bool) and isinstance(b, bool)):
                raise _NoValue
            return (a and b) if isinstance(e.op, ast.BitAnd) else (a or b) if isinstance(e.op, ast.BitOr) else (a != b)
        if isinstance(e.op, ast.Add):
            return a + b
        if isinstance(e.op, ast.Sub):
            return a - b
        if isinstance(e.op, ast.Mult):
            return a * b
        if isinstance(e.op, ast.Div):
            return a / b if b != 0 else (float('nan') if a == 0 or a != a else float('inf') * (1 if a > 0 else -1))
        raise _NoValue
    if isinstance(e, ast.BoolOp):
        vals = [go(x) for x in e.values]
        if not all(isinstance(x, bool) for x in vals):
            raise _NoValue
        return all(vals) if isinstance(e.op, ast.And) else any(vals)
    if isinstance(e, ast.Compare):
        ops = {ast.Eq: lambda a, b: a == b, ast.NotEq: lambda a, b: a != b, ast.Lt: lambda a, b: a < b, ast.LtE: lambda a, b: a <= b,
               ast.Gt: lambda a, b: a > b, ast.GtE: lambda a, b: a >= b}
        left = go(e.left)
        for op, c in zip(e.ops, e.comparators):
            right = go(c)
            if type(op) not in ops:
                raise _NoValue
            if not ops[type(op)](left, right):
                return False
            left = right
        return True
    if isinstance(e, ast.Call):
        nm = call_name(e)
        kw = {k.arg: k.value for k in e.keywords}
        if nm == 'np.repeat' and len(e.args) == 2 and not kw and expands is not None and expands(e.args[1]) and not inner:
            return _elementwise(e.args[0], leaf, True, expands)
        if nm in ('np.abs',) and len(e.args) == 1 and not kw:
            return abs(go(e.args[0]))
        if nm in ('np.asarray', 'np.array', 'np.asanyarray', 'bool', 'float') and len(e.args) == 1 and not kw:
            return go(e.args[0])
        two = {'np.logical_and': lambda a, b: bool(a) and bool(b), 'np.logical_or': lambda a, b: bool(a) or bool(b),
               'np.logical_xor': lambda a, b: bool(a) != bool(b), 'np.greater': lambda a, b: a > b, 'np.less': lambda a, b: a < b,
               'np.greater_equal': lambda a, b: a >= b, 'np.less_equal': lambda a, b: a <= b, 'np.equal': lambda a, b: a == b,
               'np.minimum': min, 'np.maximum': max, 'np.multiply': lambda a, b: a * b, 'np.add': lambda a, b: a + b}
        if nm in two and len(e.args) == 2 and not kw:
            return two[nm](go(e.args[0]), go(e.args[1]))
        if nm in ('np.isclose', 'math.isclose') and len(e.args) >= 2 and set(kw) <= {'rtol', 'atol', 'rel_tol', 'abs_tol'}:
            a, b = go(e.args[0]), go(e.args[1])
            np_ = nm == 'np.isclose'
            rtol = go(e.args[2]) if len(e.args) > 2 else go(kw['rtol']) if 'rtol' in kw else go(kw['rel_tol']) if 'rel_tol' in kw else (1e-5 if np_ else 1e-9)
            atol = go(e.args[3]) if len(e.args) > 3 else go(kw['atol']) if 'atol' in kw else go(kw['abs_tol']) if 'abs_tol' in kw else (1e-8 if np_ else 0.0)
            return abs(a - b) <= (atol + rtol * abs(b) if np_ else max(rtol * max(abs(a), abs(b)), atol))
        if nm == 'np.isfinite' and len(e.args) == 1:
            return abs(go(e.args[0])) != float('inf')
        if nm == 'np.isnan' and len(e.args) == 1:
            go(e.args[0])
            return False
        if nm == 'np.where' and len(e.args) == 3 and not kw:
            c = go(e.args[0])
            if not isinstance(c, bool):
                raise _NoValue
            return go(e.args[1]) if c else go(e.args[2])
        if nm in ('np.divide', 'np.true_divide') and len(e.args) == 2 and set(kw) <= {'out', 'where'}:
            w = go(kw['where']) if 'where' in kw else True
            if not isinstance(w, bool):
                raise _NoValue
            if w:
                return go(ast.BinOp(left=e.args[0], op=ast.Div(), right=e.args[1]))
            if 'out' not in kw:
                raise _NoValue          # left uninitialised
            return go(kw['out'])
        if nm in ('np.ones_like', 'np.ones') and e.args and set(kw) <= {'dtype'}:
            return 1.0
        if nm in ('np.zeros_like', 'np.zeros') and e.args and set(kw) <= {'dtype'}:
            return 0.0
        if nm in ('np.full_like', 'np.full') and len(e.args) == 2 and set(kw) <= {'dtype'}:
            return go(e.args[1])
        if nm == 'np.nan_to_num' and len(e.args) == 1 and set(kw) <= {'nan', 'posinf', 'neginf', 'copy'}:
            v = go(e.args[0])
            if v != v:
                return go(kw['nan']) if 'nan' in kw else 0.0
            if abs(v) == float('inf'):
                k = 'posinf' if v > 0 else 'neginf'
                if k not in kw:
                    raise _NoValue
                return go(kw[k])
            return v
    raise _NoValue


def _guard_by_table(W, D, N, nonneg, n_nonneg, O, piece):
    """(ok, why) / None.  The mask `W` of `N / D where W else O`, evaluated on every kind of element: denominator and
    numerator each zero, tiny or ordinary (and of either sign unless known to be lengths).  The division must run
    exactly where D != 0.  Skipping it where the quotient would equal the default anyway (N == 0 with default zero)
    changes nothing.  `piece`: N is a part of D, so states with N > D do not occur; a mask that differs from the exact
    test only there is not decided."""
    bd = pm('np.repeat(Y_, C_)', D)
    lengths, signed = (0.0, _TINY, 1.0), (-1.0, -_TINY, 0.0, _TINY, 1.0)
    uses_n = N is not None and mentions(W, lambda x: isinstance(x, ast.expr) and same_value(x, N))
    default_zero = O is not None and (const_value(O) == 0 or pm_any(
        ['np.zeros_like(X_)', 'np.zeros(X_)', 'np.zeros_like(X_, dtype=T_)', 'np.zeros(X_, dtype=T_)'], O) is not None)
    diffs, unreal = [], []
    try:
        for d in (lengths if nonneg else signed):
            for n in ((lengths if n_nonneg else signed) if uses_n else (1.0,)):
                def leaf(x, inner, d=d, n=n):
                    if not inner and same_value(x, D):
                        return d
                    if not inner and N is not None and same_value(x, N):
                        return n
                    if inner and bd is not None and same_value(x, bd['Y_']):
                        return d
                    raise _NoValue
                w = _elementwise(W, leaf, expands=(lambda c: same_value(c, bd['C_'])) if bd is not None else None)
                if not isinstance(w, bool):
                    return None
                if w == (d != 0) or (not w and d != 0 and n == 0 and default_zero and uses_n):
                    continue
                (unreal if piece and uses_n and abs(n) > abs(d) else diffs).append((d, n))
    except (_NoValue, ArithmeticError, TypeError):
        return None
    if not diffs:
        if unreal:
            return None, (f'guard `{show(W, 60)}` differs from `{show(D, 40)} != 0` only where a piece would be longer than its whole '
                          'segment: not decided')
        return True, ''
    by_zero = [s for s in diffs if s[0] == 0]
    skipped = [s for s in diffs if s[0] != 0]
    if by_zero:
        return False, (f'the guard `{show(W, 60)}` is not the exact test `{show(D, 40)} != 0`: it lets the division run where the '
                       'denominator is zero (0/0 = NaN, x/0 = inf)')
    if all(abs(d) == _TINY for d, _ in skipped):
        return False, (f'the guard `{show(W, 60)}` is not the exact test `{show(D, 40)} != 0`: with a tolerance, a segment whose '
                       'denominator is tiny but non-zero is treated as degenerate (its grid-line crossing is lost / every piece gets the '
                       'default share: NaN intersection, output arrays of different lengths, quantities counted more than once)')
    if uses_n and all(n == 0 for _, n in skipped):
        dflt = 'share 1' if O is not None and default_verdict(O)[0] is True else (f'the default `{show(O, 30)}`' if O is not None else 'the default')
        what = 'pieces of zero length' if piece else 'elements whose numerator is zero'
        return False, (f'the guard `{show(W, 70)}` is stricter than the exact test `{show(D, 40)} != 0`: it also skips the division where the '
                       f'numerator `{show(N, 40)}` is zero, so {what} get {dflt} instead of 0'
                       + (' - a zero-length piece of a normal segment (a way-point on a grid line, a path through a grid corner) carries the '
                          'whole quantity of its segment again, which is then counted two or three times' if piece else ''))
    d, n = skipped[0]
    kind = {0.0: 'zero', _TINY: 'tiny', 1.0: 'ordinary', -_TINY: 'tiny negative', -1.0: 'negative'}
    return False, (f'the guard `{show(W, 70)}` is not equivalent to the exact test `{show(D, 40)} != 0`: it skips the division where the '
                   f'denominator is {kind[d]}' + (f' and the numerator {kind[n]}' if uses_n else '') + ', and the default is used there')


def share_leaves(SH):
    """(PIECE, WHOLE) when the share is written over exactly one array of piece lengths np.delete(<distances>, joints) and
    one array of whole-segment lengths np.repeat(<distances>, count), else None"""
    pieces, wholes = [], []
    for x in ast.walk(SH):
        if not isinstance(x, ast.Call):
            continue
        b = pm('np.delete(L_, J_)', x)
        if b is not None and dist_args(b['L_']) is not None and not any(same(x, y) for y in pieces):
            pieces.append(x)
        b = pm('np.repeat(L_, C_)', x)
        if b is not None and dist_args(b['L_']) is not None and not any(same(x, y) for y in wholes):
            wholes.append(x)
    return (pieces[0], wholes[0]) if len(pieces) == 1 and len(wholes) == 1 else None


def share_by_table(SH, N, D):
    """(ok, why) / None: the share `SH`, however it is spelt, evaluated on every kind of element (whole length zero / tiny /
    ordinary, piece length zero / tiny / ordinary, the piece no longer than the whole) against what it must be:
    piece / whole where the whole is not zero, one where it is (the one piece of a zero-length segment keeps everything)"""
    bad = []
    try:
        for d in (0.0, _TINY, 1.0):
            for n in (0.0, _TINY, 1.0):
                if n > d:
                    continue

                def leaf(x, inner, d=d, n=n):
                    if same_value(x, D):
                        return d
                    if same_value(x, N):
                        return n
                    raise _NoValue
                got = _elementwise(SH, leaf)
                if isinstance(got, bool) or not isinstance(got, (int, float)):
                    return None
                want = n / d if d != 0 else 1.0
                if got != want and not abs(got - want) <= 1e-12 * abs(want):
                    bad.append((d, n, got))
    except (_NoValue, ArithmeticError, TypeError):
        return None
    if not bad:
        return True, ('piece / whole wherever the whole segment has a length, one for the single piece of a zero-length segment '
                      '(evaluated on every kind of element)')
    num = lambda v: 'NaN' if v != v else f'{v:g}'
    z = [b for b in bad if b[0] == 0]
    if z:
        return False, (f'a repeated point (zero-length segment) gets share {num(z[0][2])} instead of 1: its integrated quantity is lost from '
                       '(or miscounted in) the gridded total')
    p0 = [b for b in bad if b[1] == 0]
    if p0 and len(p0) == len(bad):
        return False, (f'pieces of zero length get share {num(p0[0][2])} instead of 0: a zero-length piece of a normal segment (a way-point '
                       'on a grid line, a path through a grid corner) carries the quantity of its segment again, which is then counted two '
                       'or three times')
    if all(b[0] == _TINY for b in bad):
        return False, ('a segment whose length is tiny but not zero is treated as degenerate: every piece of it gets share '
                       f'{num(bad[0][2])} and its quantity is counted more than once')
    d, n, got = bad[0]
    return False, f'the share of a piece of length {num(n)} in a segment of length {num(d)} comes out as {num(got)}, not {num(n / d)}'


def default_verdict(O):
    """(ok, why): the value left where the division is skipped is one"""
    b = pm_any(['np.ones_like(X_)', 'np.ones(X_)', 'np.ones_like(X_, dtype=T_)', 'np.ones(X_, dtype=T_)'], O)
    if b is not None:
        return True, 'a zero-length segment keeps its whole quantity (share one)'
    b = pm_any(['np.full_like(X_, K_)', 'np.full(X_, K_)', 'np.full_like(X_, K_, dtype=T_)', 'np.full(X_, K_, dtype=T_)'], O)
    if b is not None and const_value(b['K_']) is not None:
        O = b['K_']
    if const_value(O) is not None:
        if const_value(O) == 1:
            return True, 'a zero-length segment keeps its whole quantity (share one)'
        return False, (f'a repeated point (zero-length segment) gets share {const_value(O)}: its integrated quantity is lost from '
                       '(or miscounted in) the gridded total')
    if pm_any(['np.zeros_like(X_)', 'np.zeros(X_)', 'np.zeros_like(X_, dtype=T_)', 'np.zeros(X_, dtype=T_)'], O) is not None:
        return False, 'a repeated point (zero-length segment) gets share 0: its integrated quantity is lost from the gridded total'
    if pm_any(['np.empty_like(X_)', 'np.empty(X_)'], O) is not None:
        return False, 'the share of a repeated point (zero-length segment) is left uninitialised'
    return None, f'default `{show(O, 50)}` is not recognised'


def split_share(SH):
    """(N, D, O, W) of a guarded share `N / D where W else O`; ('unguarded', N, D) for a plain quotient; None"""
    b = pm('np.divide(N_, D_, out=O_, where=W_)', SH)
    if b is not None:
        return b['N_'], b['D_'], b['O_'], b['W_']
    b = pm_any(['np.where(W_, N_ / D_, O_)', 'np.where(W_, np.divide(N_, D_), O_)'], SH)
    if b is not None:
        return b['N_'], b['D_'], b['O_'], b['W_']
    b = pm_any(['np.where(NW_, O_, N_ / D_)', 'np.where(NW_, O_, np.divide(N_, D_))'], SH)
    if b is not None:
        return b['N_'], b['D_'], b['O_'], canon(ast.UnaryOp(op=ast.Invert(), operand=b['NW_']))
    b = pm_any(['N_ / D_', 'np.divide(N_, D_)'], SH)
    if b is not None:
        return 'unguarded', b['N_'], b['D_']
    return None


class Pending:
    """verdicts of one rule: violations and passes are recorded at once; forms that are not recognised are kept and
    raised (exit 2) only after everything that can be decided has been decided"""

    def __init__(self, ctx):
        self.ctx = ctx
        self.open = []

    def put(self, rule, where, construct, verdict, line=0, nontrivial=True):
        ok, why = verdict
        if ok is None:
            self.open.append((rule, where, construct, why))
            return None
        self.ctx.ob(rule, where, construct, ok, why, line=line, nontrivial=nontrivial)
        return ok

    def flush(self):
        if self.open:
            rule, where, construct, why = self.open[0]
            self.ctx.undecided(rule, where, construct, why + (f' (+{len(self.open) - 1} more)' if len(self.open) > 1 else ''))


def run_rules(ctx, prop, rules):
    """run every rule; a rule that cannot decide (lost anchor, unknown idiom) does not keep the others from reporting what
    they establish - the first such failure is raised after all rules have run"""
    from ..loader import AnalysisError
    first = None
    for f in rules:
        try:
            f()
        except AnalysisError as e:
            _debug_all(e)
            first = first or e
        except Undecided as e:
            _debug_all(e)
            first = first or AnalysisError(f'UNDECIDED rule={prop} {GRID} :: {e}')
        except Exception as e:      # a defect of a rule is an analysis failure of that rule, never a verdict
            import traceback
            where = traceback.extract_tb(e.__traceback__)[-1]
            first = first or AnalysisError(f'internal: {type(e).__name__}: {e} ({where.name}:{where.lineno})')
    if first is not None:
        raise first


def _debug_all(e):
    """AEIC_VERIF_DEBUG=1: every rule that could not decide is named on stderr (the run reports the first only)"""
    import os
    import sys
    if os.environ.get('AEIC_VERIF_DEBUG'):
        print(f'rules: not decided: {e}', file=sys.stderr)


def rule_share(ctx, m):
    """C04-R2 / C04-R3 on closed values: every integrated output is `repeat(variable, COUNT) * SHARE` where
    SHARE = PIECE / WHOLE guarded on WHOLE != 0 with default one, PIECE = lengths between consecutive intersection
    points with the joints between segments (positions from COUNT) removed, WHOLE = repeat(length between consecutive
    way-points, COUNT), both lengths by one distance function; COUNT is the number of cells per segment."""
    V, fn, view, rows = share_model(ctx, m)
    V.speak_for(fn)
    pend = Pending(ctx)
    nshare = 0
    for r, elts in rows:
        x, at = elts[5]
        try:
            pv, _ = pervar_values(V, fn, view, x, at)
        except Undecided as e:
            ctx.undecided('C04-R3', fn, 'integrated values', str(e))
        for src, var, val, at2 in pv:
            line = getattr(at2, 'lineno', r.lineno)
            if src != IV:
                ctx.ob('C04-R3', fn, f'integrated output built from {src}', False,
                       f'the integrated values of the pieces are computed from `{src}`, not from `{IV}`', line=line)
                continue
            b = pm_any(['np.repeat(VAR_, C_) * SH_', 'np.multiply(np.repeat(VAR_, C_), SH_)', 'np.multiply(SH_, np.repeat(VAR_, C_))'], val)
            if b is None or not (isinstance(b['VAR_'], ast.Name) and b['VAR_'].id == var):
                b2 = pm_any(['np.repeat(VAR_, C_) * N_ / D_', 'np.repeat(VAR_, C_) / D_ * N_'], val)
                if b2 is not None:
                    ctx.ob('C04-R2', fn, f'piece value = {show(val, 70)}', False,
                           'the share is an unguarded quotient: a repeated point (zero-length segment) gives 0/0 = NaN instead of '
                           'keeping its whole quantity', line=line)
                    continue
                pend.put('C04-R3', fn, 'piece value = repeated segment value × share',
                         (None, f'`{show(val, 90)}` is not recognised as repeat({var}, count) × share'))
                continue
            nshare += 1
            ctx.ob('C04-R3', fn, 'piece value = repeated segment value × share', True, 'value × share', line=line)
            C, SH = b['C_'], b['SH_']
            okc, whatc = describe_count(C)
            pend.put('C04-R3', fn, 'values expanded by the count vector',
                     (okc, ('number of touched cells per segment: ' + whatc) if okc else
                      f'the integrated values are repeated by {whatc}, not by the number of cells each segment touches'), line=line)
            if is_mk(SH, MUT):
                # a share held in a local that is patched in place afterwards (`s = N / D; s[mask] = c`): np.where(mask, c, N / D)
                from .c05 import grid_states, patched_as_where
                try:
                    SH = patched_as_where(grid_states(ctx).expand(SH)) or SH
                except Undecided:
                    pass
            parts = split_share(SH)
            lv = share_leaves(SH) if parts is None else None
            if parts is None and lv is not None:
                # some other spelling over the same two length arrays: the share is decided as a function of its elements
                v = share_by_table(SH, *lv)
                if v is not None:
                    pend.put('C04-R2', fn, f'share = {show(SH, 70, top=True)}', v, line=line)
                    parts = (lv[0], lv[1], None, None)
            if parts is None:
                pend.put('C04-R2', fn, 'share', (None, f'share `{show(SH, 90)}` is not a guarded quotient (np.divide(out=, where=) / np.where)'))
                continue
            if parts[0] == 'unguarded':
                ctx.ob('C04-R2', fn, f'share = {show(SH, 70)}', False,
                       'the share is an unguarded quotient: a repeated point (zero-length segment) gives 0/0 = NaN instead of keeping '
                       'its whole quantity', line=line)
                continue
            N, D, O, W = parts
            if W is not None:
                gv, dv = guard_verdict(W, D, N, nonneg=True, n_nonneg=True, O=O, piece=True), default_verdict(O)
                if gv[0] is not True or dv[0] is not True:
                    # the parts are not the plain ones: what counts is the share as a function of its elements
                    lv = share_leaves(SH)
                    tv = share_by_table(SH, *lv) if lv is not None else None
                    if tv is not None and tv[0] is True:
                        gv = dv = tv
                    elif tv is not None and gv[0] is not False and dv[0] is not False:
                        gv = tv
                        dv = (True, 'see the guard') if dv[0] is None else dv
                pend.put('C04-R2', fn, f'division guarded by where={show(W, 60)}', gv, line=line)
                pend.put('C04-R2', fn, f'default share {show(O, 50)}', dv, line=line)
                D = _under_safe_denominator(D)
            # ---- denominator: whole-segment length between consecutive way-points, expanded by the same count vector
            bd = pm('np.repeat(L_, C2_)', D)
            if bd is None:
                pend.put('C04-R3', fn, 'denominator', (None, f'denominator `{show(D, 80)}` is not a repeated per-segment length'))
            else:
                pend.put('C04-R3', fn, 'denominator expanded with the count vector',
                         (True, 'same count vector as the values') if same_count(bd['C2_'], C) else
                         ((False, f'the whole-segment lengths are repeated by `{show(bd["C2_"], 50)}`, the values by `{show(C, 50)}`: outputs '
                           'are expanded by different count vectors, lengths / attribution disagree')
                          if describe_count(bd['C2_'])[0] is not None else (None, f'count vector `{show(bd["C2_"], 60)}` is not recognised')),
                         line=line, nontrivial=False)
                da = dist_args(bd['L_'])
                if da is None:
                    pend.put('C04-R3', fn, 'whole-segment length', (None, f'`{show(bd["L_"], 80)}` is not a distance between two point sets'))
                else:
                    la, lo = consecutive(da[0], da[2]), consecutive(da[1], da[3])
                    ok = la is not None and lo is not None and show(strip_casts(la)) == 'lats' and show(strip_casts(lo)) == 'lons'
                    if ok:
                        verdict = (True, f'{DIST_FN}(lats[:-1], lons[:-1], lats[1:], lons[1:])')
                    elif la is not None and lo is not None and {show(strip_casts(la)), show(strip_casts(lo))} == {'lats', 'lons'}:
                        verdict = (False, 'latitudes and longitudes are swapped in the whole-segment length')
                    elif all(isinstance(z, (ast.Subscript, ast.Name)) for z in da) and \
                            all(show(strip_casts(z)).split('[')[0] in ('lats', 'lons') for z in da):
                        verdict = (False, f'segment length `{show(bd["L_"], 80)}` is not measured between consecutive trajectory points')
                    else:
                        verdict = (None, f'`{show(bd["L_"], 80)}` is not recognised as the length between consecutive way-points')
                    pend.put('C04-R3', fn, 'whole-segment length between consecutive points', verdict, line=line)
            # ---- numerator: lengths between consecutive intersection points, joints between segments removed
            bn = pm('np.delete(L_, J_)', N)
            if bn is None:
                pend.put('C04-R3', fn, 'numerator', (None, f'numerator `{show(N, 90)}` is not np.delete(<lengths between consecutive '
                                                    'intersection points>, <joints>)'))
                continue
            da = dist_args(bn['L_'])
            same_fn = da is not None and bd is not None and dist_args(bd['L_']) is not None and \
                (pm(f'{DIST_FN}(A_, B_, C_, D_)', bn['L_']) is None) == (pm(f'{DIST_FN}(A_, B_, C_, D_)', bd['L_']) is None)
            if da is None:
                pend.put('C04-R3', fn, 'piece lengths', (None, f'`{show(bn["L_"], 80)}` is not a distance between two point sets'))
            else:
                la, lo = consecutive(da[0], da[2]), consecutive(da[1], da[3])
                verdict = None
                if la is not None and lo is not None:
                    pa, po = pm('X_[~np.isnan(Y_)]', la), pm('X_[~np.isnan(Y_)]', lo)
                    if pa is not None and po is not None:
                        ra, ro = hz_leaf(pa['X_']), hz_leaf(po['X_'])
                        ma, mo = hz_leaf(pa['Y_']), hz_leaf(po['Y_'])
                        if (ra, ro) == ('lat coordinate', 'lon coordinate') and {ma, mo} <= {'lat coordinate', 'lon coordinate'}:
                            verdict = (True, 'np.delete(distance between consecutive flattened intersection points, joints)')
                        elif (ra, ro) == ('lon coordinate', 'lat coordinate'):
                            verdict = (False, 'latitudes and longitudes of the intersection points are swapped in the piece lengths')
                        elif None not in (ra, ro, ma, mo):
                            verdict = (False, f'piece lengths are measured on the {ra} / {ro} arrays masked by the {ma} / {mo} arrays: '
                                              'not the intersection points of the segments')
                if verdict is None:
                    verdict = (None, f'`{show(bn["L_"], 90)}` is not recognised as the length between consecutive intersection points')
                pend.put('C04-R3', fn, 'piece lengths between consecutive intersection points, joints removed', verdict, line=line)
                if bd is not None and dist_args(bd['L_']) is not None:
                    pend.put('C04-R3', fn, 'piece and whole lengths by one distance function',
                             (True, DIST_FN) if same_fn else (False, 'piece lengths and whole-segment lengths are measured by different '
                                                              'distance functions: the shares of a segment do not sum to one'),
                             line=line, nontrivial=False)
            bj = pm_any(['(np.cumsum(C3_ + 1) - 1)[:-1]', 'np.cumsum(C3_ + 1)[:-1] - 1', 'np.cumsum((C3_ + 1)[:-1]) - 1'], bn['J_'])
            if bj is None:
                # the same shape with other offsets: every segment contributes count + 1 points to the flattened point array
                # and the pair that joins it to the next segment is the last of those
                bo = pm_any(['(np.cumsum(E_) - K_)[:-1]', 'np.cumsum(E_)[:-1] - K_', '(np.cumsum(E_))[:-1]', 'np.cumsum(E_)[:-1]'], bn['J_'])
                ce = count_of(bo['E_']) if bo is not None else None
                if bo is not None and ce is not None and hz_leaf(ce[0]) is not None and const_value(bo.get('K_', ast.Constant(0))) is not None:
                    pend.put('C04-R3', fn, 'joint positions', (False,
                             f'the joints between segments are located at `{show(bn["J_"], 70, top=True)}`: a segment with n cells has n + 1 '
                             'points in the flattened point array, so the pair joining it to the next segment sits at '
                             'cumsum(count + 1) − 1; with other offsets real piece lengths are dropped and joints are kept'), line=line)
                else:
                    pend.put('C04-R3', fn, 'joint positions', (None, f'joints `{show(bn["J_"], 80)}` are not (cumsum(count + 1) − 1)[:-1]'))
            else:
                pend.put('C04-R3', fn, 'joint positions from the same count vector',
                         (True, '(cumsum(count + 1) − 1)[:-1]') if same_count(bj['C3_'], C) else
                         ((False, f'the joints between segments are located with `{show(bj["C3_"], 50)}`, the values are expanded by '
                           f'`{show(C, 50)}`: the wrong piece lengths are dropped')
                          if describe_count(bj['C3_'])[0] is not None else (None, f'count vector `{show(bj["C3_"], 60)}` is not recognised')),
                         line=line)
    ctx.floor('C04-R3', nshare, 1, 'integrated outputs of the form repeat(value, count) × share')
    pend.flush()


SHARE_ROLES = ('lats', 'lons', 'altitudes', 'times', 'state_variables', 'integrated_variables')
DRIVER_FN = 'Gridder._grid_trajectory_with_dateline_crossing'


def part_values(ctx):
    """closed values in which the two split functions, the length computation and the share computation stand for
    themselves: what the antimeridian driver returns is then written over the results of those calls"""
    v = ctx.__dict__.get('_part_values')
    if v is None:
        v = ctx._part_values = Values(ctx.prog, keep=(DIST_FN, 'crosses_dateline', SHARE_FN.split('.')[-1], HZ_FN.split('.')[-1],
                                                      '_calculate_segment_lengths') + tuple(q.split('.')[-1] for _, q in SPLITS))
    return v


def cut_from(view, x, at):
    """what one returned component of a split function is cut from: the array parameter / tuple-of-arrays parameter - or the
    component of a record parameter (`trajectory[0]`) - all its kept elements come from"""
    try:
        sq = view.seq(x, at)
        bases = {p[1] for parts in sq for p in parts if p[0] in ('slice', 'whole')}
        if sq and len(bases) == 1:
            return next(iter(bases))
        raise Undecided(f'`{norm(x)[:60]}` mixes {sorted(bases)}')
    except Undecided as first:
        try:
            calts = view.coll(x, at)
        except Undecided:
            raise first
        srcs = {a[1] for a in calts if a[0] != 'empty'}
        if len(srcs) != 1:
            raise Undecided(f'`{norm(x)[:60]}` is built from {sorted(srcs)}')
        return srcs.pop()


def _split_component_roles(ctx, m, V):
    """({(part, position): role of the component}, {(part, leaf text): position}) - the role of a component of what a split
    function returns is decided by its value, not by the name it is returned under: the parameter of the split function it is
    cut from, or - when the inputs travel in a record - the driver's own parameter that the component of the record it is cut
    from is at the call, as received"""
    by_pos, pos_of = {}, {}
    gc = m.func(DRIVER_FN)
    for part, qn in SPLITS:
        sp = m.func(qn)
        view = SeqView(sp, ctx.prog)
        rows = [ret_elts(view, r) for r in view.returns()]
        if not rows or len({len(row) for row in rows}) != 1:
            raise Undecided(f'{sp.name} does not return one tuple / record of parts on every path')
        site = None
        for i in range(len(rows[0])):
            roles = set()
            for row in rows:
                try:
                    b = cut_from(view, *row[i])
                    if b not in view.params:
                        if site is None:
                            site = CallSite(ctx, grid_values(ctx), gc, sp, view, *split_call(ctx, 'C04-R4', gc, sp))
                        b = site.received(b)
                    roles.add(b)
                except Undecided:
                    roles.add(None)
            by_pos[(part, i)] = roles.pop() if len(roles) == 1 else None
        shape = V._result_shape(sp)
        if isinstance(shape, dict):
            for (i, f), name in shape.items():
                if not isinstance(name, dict):
                    pos_of[(part, leaf_role(name) or name)] = i
    return by_pos, pos_of


def rule_suffix(ctx, m, rule='C04-R4', tracked=SHARE_ROLES, outputs=range(6)):
    """T-ROLE by provenance.  What the antimeridian driver returns is closed over the calls of the two split functions and
    of the share computation (everything in between - unpacking, the function that grids the two halves, helpers,
    records - opened).  Then, whatever the names on the way:
      * every array a share computation receives is a component of ONE split call's result, in the slot of its own role
        (the component cut from `lats` arrives as `lats`, ...) - the role of a component is read from its value;
      * the two share computations take their arrays from the two different split functions;
      * every output joins the part computed from the first split with the part computed from the second, in that order.
    The lengths the split functions scale the crossing element with are decided in C04-R1 (shares ≡ A/(A+B), B/(A+B))."""
    from .c05 import _bind_args
    V = part_values(ctx)
    gc = m.func(DRIVER_FN)
    share = m.func(SHARE_FN)
    part_of = {q: part for part, q in SPLITS}
    comp_role, pos_of = _split_component_roles(ctx, m, V)
    pend = Pending(ctx)
    is_split = lambda c: isinstance(c, ast.Call) and getattr(c, '_ck', (None, None))[1] in part_of

    def split_of(e):
        """(part, split call, role of the component) when `e` is a component of a split call's result (named leaf of the
        returned structure, or read by position)"""
        e = strip_casts(e)
        bt = pm_any(['tuple(X_)', 'list(X_)'], e)
        if bt is not None:
            e = strip_casts(bt['X_'])
        if is_mk(e, RES) and is_split(e.args[0]):
            part = part_of[e.args[0]._ck[1]]
            return part, e.args[0], comp_role.get((part, pos_of.get((part, e.args[1].value))))
        if isinstance(e, ast.Subscript) and is_split(e.value) and isinstance(const_value(e.slice), int):
            part = part_of[e.value._ck[1]]
            i = const_value(e.slice)
            return part, e.value, comp_role.get((part, i if i >= 0 else i + sum(1 for q, _ in comp_role if q == part)))
        return None

    def parts_in(e):
        return {part_of[x._ck[1]] for x in ast.walk(e) if is_split(x)}

    ncalls = nargs = njoin = 0
    for r in V.view(gc).returns():
        val = canon(V.close(gc, r.value, r))
        calls = {}
        for x in ast.walk(val):
            if isinstance(x, ast.Call) and getattr(x, '_ck', None) == (share.file, share.qualname):
                calls.setdefault(ast.dump(x), x)
        if not calls:
            continue            # the path that grids nothing (more than one crossing)
        seen_parts = []
        for c in calls.values():
            ncalls += 1
            bind = _bind_args(share, c)
            if bind is None:
                pend.put(rule, gc, f'{share.name}(…)', (None, 'call with * / ** arguments'))
                continue
            got = {}
            for p in tracked:
                if p not in bind:
                    continue
                for alt in alts(bind[p]):
                    if (isinstance(alt, ast.Constant) and alt.value is None) or (isinstance(alt, ast.Tuple) and not alt.elts):
                        continue
                    so = split_of(alt)
                    if so is None:
                        pend.put(rule, gc, f'{share.name}({p}=…)', (None, f'`{show(alt, 60, top=True)}` is not a part returned by a split function'))
                        continue
                    got.setdefault(p, []).append(so)
            mine = {part for sos in got.values() for part, _, _ in sos}
            calls_ = {ast.dump(sc) for sos in got.values() for _, sc, _ in sos}
            home = sorted(mine, key=lambda q: -sum(part == q for sos in got.values() for part, _, _ in sos))[0] if mine else None
            seen_parts.append(home)
            for p, sos in got.items():
                for part, sc, role in sos:
                    nargs += 1
                    what = f'share computation of the {home} part receives `{p}`'
                    if part != home or len(calls_) != len(mine):
                        ctx.ob(rule, gc, what, False, f'the {home} part is computed from `{p}` of the {part} part: data of the other part is used'
                               if part != home else f'`{p}` comes from another call of the {part} split than the other arrays', line=r.lineno)
                    elif role is None:
                        pend.put(rule, gc, what, (None, f'the role of the component `{show(sc.func, 40)}` returns there is not recognised'))
                    else:
                        ok = role == p
                        ctx.ob(rule, gc, what, ok, f'the part of `{p}` the {part} split returns' if ok else
                               f'the {part} split\'s part of `{role}` is passed where its part of `{p}` belongs', line=r.lineno)
        if ncalls and sorted(x for x in seen_parts if x) != ['first', 'second']:
            ctx.ob(rule, gc, 'the two halves are gridded from the two split functions', False,
                   f'the share computations receive the parts {seen_parts}: one half of the trajectory is gridded twice / not at all',
                   line=r.lineno)
        # every output joins first-split-derived then second-split-derived
        for pos in outputs:
            out = V._select(val, pos)
            if out is None:
                pend.put(rule, gc, f'output #{pos}', (None, 'component not visible in the returned value'))
                continue
            for alt in alts(out):
                joins = []

                def collect(e, env):
                    if isinstance(e, (ast.GeneratorExp, ast.ListComp)) and len(e.generators) == 1:
                        g = e.generators[0]
                        bz = pm('zip(P_, Q_)', g.iter)
                        if bz is not None and isinstance(g.target, ast.Tuple) and len(g.target.elts) == 2 and \
                                all(isinstance(t, ast.Name) for t in g.target.elts):
                            env = dict(env, **{g.target.elts[0].id: bz['P_'], g.target.elts[1].id: bz['Q_']})
                            collect(e.elt, env)
                            return
                        if bz is not None and isinstance(g.target, ast.Name) and not g.ifs:
                            # `join(pair) for pair in zip(P, Q)`: the pair is (element of P, element of Q)
                            a_, b_ = f'{g.target.id}__0', f'{g.target.id}__1'
                            pair = ast.Tuple(elts=[ast.Name(id=a_, ctx=ast.Load()), ast.Name(id=b_, ctx=ast.Load())], ctx=ast.Load())
                            collect(canon(_subst(e.elt, {g.target.id: pair})), dict(env, **{a_: bz['P_'], b_: bz['Q_']}))
                            return
                    bj = pm_any(['np.concatenate((A_, B_))', 'np.hstack((A_, B_))', 'np.append(A_, B_)', 'np.concatenate((A_, B_), axis=0)',
                                 'np.r_[A_, B_]'], e) if isinstance(e, (ast.Call, ast.Subscript)) else None
                    if bj is not None:
                        joins.append((_subst(bj['A_'], env), _subst(bj['B_'], env)))
                        return
                    for ch in ast.iter_child_nodes(e):
                        collect(ch, env)
                collect(alt, {})
                for A, B in joins:
                    pa, pb = parts_in(A), parts_in(B)
                    if not pa and not pb:
                        continue
                    njoin += 1
                    ok = pa == {'first'} and pb == {'second'}
                    ctx.ob(rule, gc, f'output #{pos} joins the two halves', ok, 'first part then second part' if ok else
                           (f'output #{pos} joins [{"/".join(sorted(pa)) or "?"} part | {"/".join(sorted(pb)) or "?"} part]: ' +
                            ('the halves are joined against the direction of flight' if (pa, pb) == ({'second'}, {'first'}) else
                             'data of one half is used for both / mixed')), line=r.lineno)
    ctx.floor(rule + '/calls', ncalls, 2, 'share computations fed by the antimeridian driver')
    ctx.floor(rule, nargs, 2 * min(len(tracked), 3), 'arrays handed from the split functions to the share computation')
    ctx.floor(rule + '/joins', njoin, min(len(list(outputs)), 3), 'outputs that join the two halves')
    pend.flush()


def rule_passthrough(ctx, m):
    """R5/R6: nothing drops or re-orders pieces before the share computation."""
    from .c05 import rule_direction
    rule_direction(ctx, m, 'C04-R5')
    rule_forwarding(ctx, m, 'C04-R6', ('integrated_variables', 'lats', 'lons'),
                    'points / per-segment quantities that are filtered out or moved here are missing from, or misplaced in, '
                    'the gridded total')


FORWARDING = ('Gridder.grid_trajectory', 'Gridder._grid_trajectory_without_dateline_crossing',
              'Gridder._grid_trajectory_with_dateline_crossing')


def rule_forwarding(ctx, m, rule, tracked, consequence):
    """the entry points hand their arguments to the gridding as received: at every call into the module, the value bound to
    a callee parameter of a tracked role closes to the caller's own parameter of that name (a value-preserving wrapper -
    np.asarray(x), x.copy() - is still that value; anything else - a filter, a wrap, arithmetic - is not)"""
    from .c05 import _bind_args
    V = grid_values(ctx)
    pend = Pending(ctx)
    n = 0
    for qn in FORWARDING:
        fi = m.func(qn)
        V.speak_for(fi)
        for caller, c, callee in module_calls(ctx, m):
            if caller is not fi or callee.node.name in ('__init__', '__post_init__'):
                continue
            bind = _bind_args(callee, c)
            if bind is None:
                if any(p in tracked for p in callee.params):
                    pend.put(rule, fi, f'{callee.name}(…)', (None, 'call with * / ** arguments'))
                continue
            n += _record_forwarding(ctx, V, pend, rule, fi, c, callee, bind, tracked, consequence)
            for p, a in bind.items():
                if p not in tracked or p not in fi.params:
                    continue
                n += 1
                val = canon(V.close(fi, a, stmt_of(c)))
                al = alts(val)
                for alt in al:
                    s_ = strip_casts(alt)
                    for _ in range(2):      # a tuple of arrays put into a tuple / list again is the same arrays
                        bt = pm_any(['tuple(X_)', 'list(X_)'], s_)
                        if bt is not None:
                            s_ = strip_casts(bt['X_'])
                    what = f'`{p}` reaches {callee.name} unmodified'
                    if isinstance(s_, ast.Name) and s_.id == p:
                        ctx.ob(rule, fi, what, True, 'passed through as received', line=c.lineno)
                    elif len(al) > 1 and ((isinstance(s_, ast.Constant) and s_.value is None) or
                                          (isinstance(s_, ast.Tuple) and not s_.elts) or pm_any(['tuple()', 'list()'], s_) is not None):
                        continue        # the "absent" alternative of an optional argument (None / empty default)
                    elif isinstance(s_, ast.Name) and s_.id in fi.params:
                        ctx.ob(rule, fi, what, False, f'`{s_.id}` is passed where `{p}` belongs', line=c.lineno)
                    else:
                        d = next((st for st in view_defs(V, fi, p)), None)
                        ctx.ob(rule, fi, what, False,
                               (f'`{p}` reaches {callee.name} as `{show(alt, 70, top=True)}`' +
                                (f' (rebound at line {d.lineno}: `{norm(d)[:70]}`)' if d is not None else '') +
                                f' before the cells and shares are computed: {consequence}'), line=(d.lineno if d is not None else c.lineno))
    ctx.floor(rule, n, 6, 'tracked arguments passed on by the entry points')
    pend.flush()


def _record_forwarding(ctx, V, pend, rule, fi, c, callee, bind, tracked, consequence):
    """the same statement when the inputs travel in a record: every component of a record parameter that one of the arrays
    the callee returns is cut from is, at the call, one of the caller's own parameters as received.  (A component nothing is
    cut from - a count, a flag - is not an input that is handed on.)  Returns the number of components judged."""
    cview = V.view(callee)
    recs = cview.record_params() & set(bind)
    if not recs:
        return 0
    bases = set()
    for r in cview.returns():
        try:
            elts = ret_elts(cview, r)
        except Undecided:
            continue
        for x, at in elts:
            try:
                bases.add(cut_from(cview, x, at))
            except Undecided:
                pass
    site = CallSite(ctx, V, fi, callee, cview, c, bind)
    n = 0
    for key in sorted(b for b in bases if isinstance(b, str) and re.split(r'[.\[]', b)[0] in recs and b not in bind):
        got = site.received(key)
        if got is not None:
            if got in tracked:
                n += 1
                ctx.ob(rule, fi, f'`{got}` reaches {callee.name} unmodified', True, f'passed through as received (as `{key}`)', line=c.lineno)
            continue
        val = site.value(key)
        if val is None:
            pend.put(rule, fi, f'{callee.name}({key.split("[")[0].split(".")[0]}=…)',
                     (None, f'`{key}` is not visible in the record passed (`{show(site.raw.get(re.split(r"[.\[]", key)[0]), 60, top=True)}`)'))
            continue
        ment = sorted({x.id for x in ast.walk(val) if isinstance(x, ast.Name) and x.id in tracked and x.id in fi.params})
        if ment:
            n += 1
            ctx.ob(rule, fi, f'`{ment[0]}` reaches {callee.name} unmodified', False,
                   f'`{ment[0]}` reaches {callee.name} as `{show(val, 70, top=True)}` (in `{key}`) before the cells and shares are '
                   f'computed: {consequence}', line=c.lineno)
    return n


class _SisterCtx:
    """the rule context as seen by a rule of a sister module that is run for THIS property: the same state (one shared
    __dict__: obligations, floors, controls, cached values), every rule id of the sister (`C05-R10`, `C05-R10/tests`)
    reported under this property's id, and this property's consequence appended to what a violation says"""

    def __init__(self, ctx, theirs, ours, consequence):
        self.__dict__ = ctx.__dict__
        self.__class__ = type('_SisterCtxOf' + type(ctx).__name__, (type(ctx),), {
            'ob': lambda s_, rule, where, construct, ok, why, **kw:
                type(ctx).ob(s_, _SisterCtx.rid(rule, theirs, ours), where, construct, ok,
                             why if ok else f'{why}. {consequence}', **kw),
            'floor': lambda s_, rule, *a, **kw: type(ctx).floor(s_, _SisterCtx.rid(rule, theirs, ours), *a, **kw),
            'control': lambda s_, rule, *a, **kw: type(ctx).control(s_, _SisterCtx.rid(rule, theirs, ours), *a, **kw),
            'undecided': lambda s_, rule, *a, **kw: type(ctx).undecided(s_, _SisterCtx.rid(rule, theirs, ours), *a, **kw),
        })

    @staticmethod
    def rid(rule, theirs, ours):
        return ours + rule[len(theirs):] if isinstance(rule, str) and rule.startswith(theirs) else rule


def rule_crossing(ctx, m, rule='C04-R8'):
    """R8: the segment that is split in proportion to the two part lengths is the segment that crosses the antimeridian
    (position of the first non-zero signed flag; sign read there; flags tested `!= 0`) - decided by c05.rule_crossing_index"""
    from .c05 import rule_crossing_index
    theirs = 'C05-R10'
    before = set(ctx.rules_run)
    sister = _SisterCtx(ctx, theirs, rule,
                        'The segment that does cross stays inside one part and is gridded as a straight map line around the globe: '
                        'its pieces add up to many times the segment\'s integrated values, so the gridded total is not the '
                        'trajectory total')
    try:
        rule_crossing_index(sister, m)
    finally:
        for k in [k for k in ctx.rules_run if k.startswith(theirs) and k not in before]:
            ctx.rules_run[_SisterCtx.rid(k, theirs, rule)] = ctx.rules_run.pop(k)


def view_defs(V, fi, name):
    """statements of `fi` that rebind the parameter `name`"""
    return [st for t, st, how in stores_to(fi.node) for x in ast.walk(t) if isinstance(x, ast.Name) and x.id == name]


def open_module_value_objects(m) -> list:
    """A third preparation, before the two above: a local that holds an IMMUTABLE VALUE OBJECT of a class of the module
    (dataclass / NamedTuple of annotated fields whose properties and methods each return one expression over the fields,
    built once from names the function never rebinds, used only through its fields and members) is opened where it is
    read (`astutil.open_value_objects`): `c = _Crossing(k, sign); c.head(lats); c.exit_longitude` reads like the
    expressions the members return, with `k` and `sign` in the place of the fields.  The engine's pass O does the same at
    statement level and gives up where a member is called in a conditionally evaluated position (an arm of a conditional
    expression, the element of a comprehension); an expression put in the place of an expression needs no such
    condition.  -> `qualname:local` of what was opened (idempotent)."""
    classes = {k: c.node for k, c in m.classes.items() if c.module is m and '.' not in k}
    done = []
    if classes:
        for fi in m.functions.values():
            if fi.module is m and any(isinstance(x, ast.Call) and isinstance(x.func, ast.Name) and x.func.id in classes
                                      for x in ast.walk(fi.node)):
                done += [f'{fi.qualname}:{n}' for n in open_value_objects(fi.node, classes)]
    return done


def run(ctx):
    m = ctx.prog.module(GRID)
    from .c05 import GridValues, rule_lookup, split_tuple_locals
    # the same two preparations as in c05.run (R5 / R7 are that module's rules): tuple locals that are only read by position
    # are taken apart into named locals, and values are closed with the reaching-definition view of aliases
    open_module_value_objects(m)
    for fi in m.functions.values():
        if '<locals>' not in fi.qualname:
            split_tuple_locals(fi.node)
    if '_grid_values' not in ctx.__dict__:
        ctx._grid_values = GridValues(ctx.prog, keep=(DIST_FN, 'crosses_dateline', SHARE_FN.split('.')[-1], HZ_FN.split('.')[-1]))
    run_rules(ctx, 'C04', [
        lambda: rule_passthrough(ctx, m),
        lambda: rule_split_sum(ctx, m),
        lambda: rule_share(ctx, m),
        # only names that bear on the integrated quantities: the values themselves, the split lengths and the geometry
        lambda: rule_suffix(ctx, m, tracked=('lats', 'lons', 'integrated_variables'), outputs=(0, 1, 5)),
        # the horizontal cells a segment's pieces are cut at come from searching the axes themselves (shares sum to one
        # only if the start/end cells and the midpoint cells are found the same way)
        lambda: rule_lookup(ctx, m, 'C04-R7'),
        # the element that is split in two is the one that crosses (the position of the first non-zero signed flag)
        lambda: rule_crossing(ctx, m),
    ])
    ctx.note('NOT decided: the numeric conservation bound, grid-line intersection geometry, great-circle vs map-line lengths')
    ctx.assumptions += ['np.divide(out=, where=) leaves `out` untouched where the guard is false',
                        'np.repeat(a, counts) repeats element i counts[i] times',
                        'indexing with a boolean mask returns a fresh flat array (a following .flatten() is the identity)']
