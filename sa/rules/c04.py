"""C04 — gridding conserves every integrated quantity (structural clauses only).

The numeric bound ("never less, no more than the small great-circle excess")
is a real-valued inequality over geometry and is NOT decided.  Decided:

R1  antimeridian split fractions sum to one (T-ALG + def-use across the call):
    the two factors applied to the crossing segment's integrated value are
    a/t and b/t where, following the tuple returned by
    _calculate_segment_lengths through the call arguments, t ≡ a + b; the
    unsplit elements are the disjoint slices [:i] and [i+1:] around element i.
R2  degenerate-segment share (T-GUARD): the guarded division producing the
    sub-segment shares is guarded on its *denominator* and defaults to one
    where the denominator is zero (a zero-length segment has exactly one
    sub-segment, so its share must be 1).
R3  one repetition vector (T-AGREE): every np.repeat in the share computation
    uses the same, singly-defined count vector; numerator/denominator of the
    share are the sub-segment and the (repeated) whole-segment distances
    produced by the same distance function.
R4  part-suffix agreement (T-ROLE): names carrying a first/second marker are
    only combined with names of the same marker (the second split receives
    the second length); concatenations join first then second of one stem.
"""

from __future__ import annotations

import ast
import re

from ..algebra import AlgebraError, normal_form, poly_equal, Rat
from ..astutil import (ancestors, call_name, calls_in, kwarg, names_in, norm, single_def_value, stmt_of,
                       stores_to, walk_no_nested)
from ..resolve import resolve_call

GRID = 'gridding/grid.py'
SHARE_FN = 'Gridder._cell_idxs_touched_by_trajectory_with_state_and_integrated_vars'


def marker(name: str) -> str | None:
    t = re.split(r'[_\W]+', name.lower())
    has1 = 'first' in t
    has2 = 'second' in t
    if has1 and not has2:
        return 'first'
    if has2 and not has1:
        return 'second'
    return None


def rule_split_sum(ctx, m):
    prog = ctx.prog
    cs = m.func('Gridder._calculate_segment_lengths')
    rets = [n for n in walk_no_nested(cs.node) if isinstance(n, ast.Return)]
    if len(rets) != 1 or not isinstance(rets[0].value, ast.Tuple) or len(rets[0].value.elts) != 3:
        ctx.undecided('C04-R1', cs, 'return', 'expected a 3-tuple (first, second, total)')
    a, b, t = rets[0].value.elts
    env = {}
    for name in ('total_segment_length',):
        d = single_def_value(cs.node, name)
        if d is not None:
            env[name] = d
    try:
        ok = poly_equal(normal_form(t, env), normal_form(a, {}) + normal_form(b, {}))
    except AlgebraError as e:
        ctx.undecided('C04-R1', cs, norm(t), str(e))
    ctx.ob('C04-R1', cs, f'returned total ≡ {norm(a)} + {norm(b)}', ok,
           'the third returned length is the sum of the first two' if ok else
           'the total length used as denominator is not the sum of the two part lengths', line=rets[0].lineno)
    # caller: unpack order and arguments to the two split functions
    gc = m.func('Gridder._grid_trajectory_with_dateline_crossing')
    unpack = None
    for t_, st, how in stores_to(gc.node):
        if isinstance(st, ast.Assign) and isinstance(st.value, ast.Call) and \
                call_name(st.value) == 'self._calculate_segment_lengths' and isinstance(st.targets[0], ast.Tuple):
            unpack = [norm(e) for e in st.targets[0].elts]
    if unpack is None or len(unpack) != 3:
        ctx.undecided('C04-R1', gc, '_calculate_segment_lengths', 'result is not unpacked into three names')
    la, lb, lt = unpack
    factors = {}
    for part, qn in (('first', 'Gridder._dateline_split_first_segment'), ('second', 'Gridder._dateline_split_second_segment')):
        fn = m.func(qn)
        call = next((c for c in calls_in(gc.node) if resolve_call(prog, gc, c) == fn), None)
        if call is None:
            ctx.undecided('C04-R1', gc, qn, 'split call not found')
        params = fn.params[1:]
        binding = {p: norm(a_) for p, a_ in zip(params, call.args)}
        # the scaled element inside the split function
        scaled = None
        gen_var = None
        for x in ast.walk(fn.node):
            if isinstance(x, ast.BinOp) and isinstance(x.op, ast.Div) and isinstance(x.left, ast.BinOp) \
                    and isinstance(x.left.op, ast.Mult) and isinstance(x.left.left, ast.Subscript):
                scaled = x
        if scaled is None:
            ctx.undecided('C04-R1', fn, 'scaled element', 'no `var[i] * length / total` expression found')
        elem = scaled.left.left
        num_name, den_name = norm(scaled.left.right), norm(scaled.right)
        ok_idx = norm(elem.slice) == 'dateline_crossing_idx'
        num_bound, den_bound = binding.get(num_name), binding.get(den_name)
        factors[part] = (num_bound, den_bound)
        want_num = la if part == 'first' else lb
        ok = ok_idx and num_bound == want_num and den_bound == lt
        ctx.ob('C04-R1', fn, f'{part} part scales element [{norm(elem.slice)}] by {num_bound}/{den_bound}', ok,
               f'share of the {part} part = its own length over the total' if ok else
               (f'the {part} part of the crossing segment is scaled by `{num_bound}`/`{den_bound}` '
                f'(expected `{want_num}`/`{lt}`): the two shares no longer add up to the segment value'),
               line=scaled.lineno)
        # disjoint slices
        comp = next((g for g in ast.walk(fn.node) if isinstance(g, ast.GeneratorExp) and any(
            scaled is y for y in ast.walk(g))), None)
        sl = [norm(s.slice) for s in ast.walk(comp) if isinstance(s, ast.Subscript) and isinstance(s.slice, ast.Slice)] if comp else []
        want = [':dateline_crossing_idx'] if part == 'first' else ['dateline_crossing_idx + 1:']
        ok = sl == want
        ctx.ob('C04-R1', fn, f'{part} part keeps unsplit elements {sl}', ok,
               'all elements before (after) the crossing one, the crossing one only as its share' if ok else
               'the unsplit elements overlap with or miss the crossing element: quantity is duplicated or lost',
               line=(comp.lineno if comp else fn.node.lineno))
    if factors.get('first') and factors.get('second'):
        try:
            s = Rat({((factors['first'][0], 1),): 1}) / Rat({((factors['first'][1], 1),): 1}) + \
                Rat({((factors['second'][0], 1),): 1}) / Rat({((factors['second'][1], 1),): 1})
            # substitute t = a + b
            from fractions import Fraction
            env2 = {lt: ast.parse(f'{la} + {lb}', mode='eval').body}
            expr = ast.parse(f"{factors['first'][0]} / {factors['first'][1]} + {factors['second'][0]} / {factors['second'][1]}", mode='eval').body
            tot = normal_form(expr, env2)
            ok = poly_equal(tot, normal_form(ast.Constant(1), {}))
        except Exception as e:
            ctx.undecided('C04-R1', gc, 'sum of shares', str(e))
        ctx.ob('C04-R1', gc, f'{factors["first"][0]}/{factors["first"][1]} + {factors["second"][0]}/{factors["second"][1]} ≡ 1', ok,
               f'with {lt} ≡ {la} + {lb} the two shares sum to one identically' if ok else
               f'the two shares sum to {tot}, not 1', line=gc.node.lineno)


def rule_share(ctx, m):
    fn = m.func(SHARE_FN)
    d = single_def_value(fn.node, 'subsegment_distance_fractions')
    if not (isinstance(d, ast.Call) and call_name(d) in ('np.divide', 'numpy.divide')):
        if isinstance(d, ast.Call) and call_name(d) in ('np.where', 'numpy.where') and len(d.args) == 3:
            c, a, b = d.args
            ok = isinstance(c, ast.Compare) and isinstance(c.ops[0], ast.NotEq) and norm(b) in ('1.0', '1', 'np.ones_like(subsegment_distances)')
            ctx.ob('C04-R2', fn, f'share = {norm(d)[:80]}', ok, 'np.where form defaulting to one' if ok else
                   'share of a zero-length segment is not one', line=d.lineno)
            return
        ctx.undecided('C04-R2', fn, 'subsegment_distance_fractions', 'share is not a guarded np.divide / np.where')
    num, den = d.args[0], d.args[1]
    out, where = kwarg(d, 'out'), kwarg(d, 'where')
    ok_where = where is not None and isinstance(where, ast.Compare) and isinstance(where.ops[0], ast.NotEq) \
        and norm(where.left) == norm(den) and norm(where.comparators[0]) in ('0', '0.0')
    ctx.ob('C04-R2', fn, f'division guarded by where={norm(where) if where is not None else None}', ok_where,
           'guard tests the denominator' if ok_where else
           (f'the guard of the share division tests `{norm(where.left) if isinstance(where, ast.Compare) else None}` '
            f'instead of the denominator `{norm(den)}`: zero-length *pieces* of a real segment get the default '
            'share and the segment is counted again (or a zero denominator is divided by)'), line=d.lineno)
    ok_out = isinstance(out, ast.Call) and call_name(out) in ('np.ones_like', 'np.ones', 'numpy.ones_like')
    ctx.ob('C04-R2', fn, f'default share out={norm(out) if out is not None else None}', ok_out,
           'a zero-length segment keeps its whole quantity (share one)' if ok_out else
           'a repeated point (zero-length segment) gets share 0: its integrated quantity is lost from the gridded total',
           line=d.lineno)
    ok = norm(num) == 'subsegment_distances' and norm(den) == 'segment_distances_repeated'
    ctx.ob('C04-R3', fn, f'share = {norm(num)} / {norm(den)}', ok, 'piece length over whole-segment length' if ok else
           'numerator/denominator of the share changed', line=d.lineno)
    # R3 repeats
    reps = [c for c in calls_in(fn.node) if call_name(c) in ('np.repeat', 'numpy.repeat')]
    ctx.floor('C04-R3', len(reps), 5, 'np.repeat calls in the share computation')
    counts = {norm(c.args[1]) for c in reps if len(c.args) > 1}
    cd = [st for t, st, how in stores_to(fn.node) if isinstance(t, ast.Name) and t.id in counts]
    ok = len(counts) == 1 and len(cd) == 1
    ctx.ob('C04-R3', fn, f'{len(reps)} expansions use count vector(s) {sorted(counts)}', ok,
           'one singly-defined repetition vector for cells, state, numerators and denominators' if ok else
           'outputs are expanded by different count vectors: lengths / attribution disagree', line=reps[0].lineno)
    cdef = cd[0].value if cd else None
    ok = cdef is not None and norm(cdef) == 'np.count_nonzero(~np.isnan(all_subsegment_lat_indices), axis=1)'
    ctx.ob('C04-R3', fn, f'count vector = {norm(cdef) if cdef is not None else "?"}', ok,
           'number of touched cells per segment' if ok else 'count vector definition changed', nontrivial=False)
    sd = [st for t, st, how in stores_to(fn.node) if isinstance(t, ast.Name) and t.id == 'segment_distances']
    ok = len(sd) == 1 and norm(sd[0].value) == 'great_circle_distance(lats[:-1], lons[:-1], lats[1:], lons[1:])'
    ctx.ob('C04-R3', fn, 'whole-segment length between consecutive points', ok, norm(sd[0].value) if ok else
           'segment length is not measured between consecutive trajectory points')
    rp = single_def_value(fn.node, 'segment_distances_repeated')
    ok = rp is not None and norm(rp) == 'np.repeat(segment_distances, count_subsegments)'
    ctx.ob('C04-R3', fn, 'denominator expanded with the count vector', ok, norm(rp) if ok else 'denominator expansion changed', nontrivial=False)
    iv = single_def_value(fn.node, 'integrated_variable_values')
    ivs = [st.value for t, st, how in stores_to(fn.node) if isinstance(t, ast.Name) and t.id == 'integrated_variable_values']
    gen = next((v for v in ivs if isinstance(v, ast.Call) and call_name(v) == 'tuple'), None)
    ok = gen is not None and 'np.repeat(variable, count_subsegments) * subsegment_distance_fractions' in norm(gen)
    ctx.ob('C04-R3', fn, 'piece value = repeated segment value × share', ok, 'value × share' if ok else
           'integrated values are not the segment value times its share')
    # sub-segment distances: consecutive flattened points, with the joints between segments removed
    ssd = [st for t, st, how in stores_to(fn.node) if isinstance(t, ast.Name) and t.id == 'subsegment_distances']
    ok = len(ssd) == 2 and 'all_segment_point_lats_flat[:-1]' in norm(ssd[0].value) and 'all_segment_point_lats_flat[1:]' in norm(ssd[0].value) \
        and norm(ssd[1].value) == 'np.delete(subsegment_distances, non_segment_idxs)'
    ctx.ob('C04-R3', fn, 'piece lengths between consecutive intersection points, joints removed', ok,
           'np.delete(…, non_segment_idxs)' if ok else 'piece length computation changed')
    ns = single_def_value(fn.node, 'non_segment_idxs')
    ok = ns is not None and norm(ns) == '(np.cumsum(count_subsegments + 1) - 1)[:-1]'
    ctx.ob('C04-R3', fn, 'joint positions from the same count vector', ok, norm(ns) if ok else 'joint index computation changed')


def rule_suffix(ctx, m, rule='C04-R4', only=None, name_filter=None):
    """first/second marker agreement in the antimeridian code."""
    prog = ctx.prog
    fns = [m.func(q) for q in ('Gridder._grid_trajectory_with_dateline_crossing',
                               'Gridder._dateline_split_first_segment', 'Gridder._dateline_split_second_segment',
                               'Gridder._cell_idxs_and_variables_for_dateline_split_trajectory',
                               'Gridder._calculate_segment_lengths')]
    n = 0
    for fn in fns:
        for st in walk_no_nested(fn.node):
            if isinstance(st, ast.Assign):
                tnames = [x for t in st.targets for x in ast.walk(t) if isinstance(x, ast.Name)]
                tm = {marker(x.id) for x in tnames} - {None}
                if len(tm) != 1:
                    continue
                want = tm.pop()
                # names used on the right-hand side (excluding the callee name itself)
                bad = []
                for x in ast.walk(st.value):
                    if isinstance(x, ast.Name) and marker(x.id) not in (None, want):
                        bad.append(x.id)
                    if isinstance(x, ast.Attribute) and isinstance(x.ctx, ast.Load) and marker(x.attr) not in (None, want) \
                            and not isinstance(getattr(x, '_parent', None), ast.Call):
                        bad.append(x.attr)
                    if isinstance(x, ast.Call) and isinstance(x.func, ast.Attribute) and marker(x.func.attr) not in (None, want):
                        bad.append(x.func.attr + '()')
                if name_filter is not None:
                    bad = [b for b in bad if name_filter(b)]
                n += 1
                ctx.ob(rule, fn, f'{want}-part assignment to {norm(st.targets[0])[:50]}', not bad,
                       f'only {want}-part inputs' if not bad else
                       f'the {want} part is computed from {sorted(set(bad))}: data of the other part is used',
                       line=st.lineno, nontrivial=bool(bad))
        # concatenations [X_first…, X_second…]
        for c in calls_in(fn.node):
            if call_name(c) == 'np.concatenate' and c.args and isinstance(c.args[0], (ast.List, ast.Tuple)) and len(c.args[0].elts) == 2:
                a, b = c.args[0].elts
                if isinstance(a, ast.Name) and isinstance(b, ast.Name) and marker(a.id) and marker(b.id):
                    if name_filter is not None and not (name_filter(a.id) or name_filter(b.id)):
                        continue
                    n += 1
                    stem = lambda s: re.sub(r'_?(first|second)', '', s)
                    ok = marker(a.id) == 'first' and marker(b.id) == 'second' and stem(a.id) == stem(b.id)
                    ctx.ob(rule, fn, f'concatenate [{a.id}, {b.id}]', ok, 'first then second of the same quantity' if ok else
                           'the two halves are joined in the wrong order or from different quantities', line=c.lineno)
    ctx.floor(rule, n, 12, 'first/second-marked statements')


def rule_passthrough(ctx, m):
    """R5/R6: nothing drops or re-orders pieces before the share computation."""
    hz = m.func('Gridder._trajectory_intersection_points_and_cells_horizontal')
    for ax, coord in (('lat', 'lats'), ('lon', 'lons')):
        d = single_def_value(hz.node, f'{ax}_change_signs')
        ok = d is not None and norm(d) == f'np.sign(np.diff({coord}))'
        ctx.ob('C04-R5', hz, f'{ax}_change_signs = {norm(d) if d is not None else "?"}', ok,
               'ordering direction from the coordinates themselves' if ok else
               ('the ordering direction of intersection points is not the sign of the coordinate difference: a leg '
                f'inside one {ax} band (index change 0) gets direction 0, its pieces zig-zag and its length '
                'fractions sum to more than one'), line=(d.lineno if d is not None else hz.node.lineno))
    rule_forwarding(ctx, m, 'C04-R6', ('integrated_variables', 'lats', 'lons'),
                    'points / per-segment quantities that are filtered out or moved here are missing from, or misplaced in, '
                    'the gridded total')


def rule_forwarding(ctx, m, rule, tracked, consequence):
    """the entry points hand their arguments to the gridding as received"""
    forwarding = ['Gridder.grid_trajectory', 'Gridder._grid_trajectory_without_dateline_crossing',
                  'Gridder._grid_trajectory_with_dateline_crossing']
    for qn in forwarding:
        fi = m.func(qn)
        for nm in tracked:
            if nm not in fi.params:
                continue
            rebinds = [st for t, st, how in stores_to(fi.node) for x in ast.walk(t) if isinstance(x, ast.Name) and x.id == nm]
            filt = [x for x in walk_no_nested(fi.node) if isinstance(x, ast.Subscript) and norm(x.value) == nm
                    and nm == 'integrated_variables']
            ok = not rebinds
            ctx.ob(rule, fi, f'`{nm}` reaches the gridding unmodified', ok,
                   'passed through as received' if ok else
                   (f'`{nm}` is rebound at line {rebinds[0].lineno} (`{norm(rebinds[0])[:70]}`) before the cells and shares are '
                    f'computed: {consequence}'), line=(rebinds[0].lineno if rebinds else fi.node.lineno))
        for c in calls_in(fi.node):
            callee = resolve_call(ctx.prog, fi, c)
            if callee is not None and 'integrated_variables' in callee.params:
                i = callee.params.index('integrated_variables') - 1
                a = c.args[i] if 0 <= i < len(c.args) else None
                ok = a is not None and norm(a) == 'integrated_variables'
                ctx.ob(rule, fi, f'{callee.name}(…, integrated_variables={norm(a) if a is not None else "?"})', ok,
                       'the caller\'s integrated variables, whole' if ok else
                       'a filtered / different value is passed as the integrated variables', line=c.lineno)


def run(ctx):
    m = ctx.prog.module(GRID)
    rule_passthrough(ctx, m)
    rule_split_sum(ctx, m)
    rule_share(ctx, m)
    # only names that bear on the integrated quantities: the values themselves, the split lengths and the geometry
    rule_suffix(ctx, m, name_filter=lambda nme: re.search(r'integrated|length|lat|lon', nme) is not None)
    # the horizontal cells a segment's pieces are cut at come from searching the axes themselves (shares sum to one
    # only if the start/end cells and the midpoint cells are found the same way)
    from .c05 import rule_lookup
    rule_lookup(ctx, m, 'C04-R7')
    ctx.note('NOT decided: the numeric conservation bound, grid-line intersection geometry, great-circle vs map-line lengths')
    ctx.assumptions += ['np.divide(out=, where=) leaves `out` untouched where the guard is false',
                        'np.repeat(a, counts) repeats element i counts[i] times']
