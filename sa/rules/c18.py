"""C18 — exactly one immutable configuration is active; a failed load leaves none.

Every rule is decided on values and paths, not on spellings: the singleton is
followed by a null-ness dataflow over the CFGs (through locals bound from it and
through resolved helpers), the overlay is followed by a small symbolic execution
of `Config.load` (through helpers, in-place merges, copies, renamed variables,
loops over literal tuples), and "who may do what" is read off the resolved call
graph.

R1  publish last (T-ORDER over the validation pipeline).  pydantic runs the
    class's `mode='after'` model validators in declaration order, so the
    pipeline is read off the class body.  The store of a non-None value to the
    module global `_config` must be reached from the *last* after-validator,
    must not sit in a `finally`/`except`, and nothing fallible (a raise, or a
    call other than logging) may follow it on a normal path, in the publishing
    function or in the validator that called it.  Accepted alternative: every
    fallible step after the publish is covered by a handler that stores None
    back and re-raises.  The report shows, of the fallible statements after
    the publish, one whose resolved callees are known to raise (and names the
    exception), so that the message points at the step that makes a load fail.
R2  frozen closure: every class of values reachable from Config through field
    annotations (pydantic models, dataclasses) is immutable.  For a model the
    effective `frozen` setting is computed the way pydantic merges it: nearest
    class on the MRO first (a shared base class in another module counts),
    class keywords (`class X(Base, frozen=True)`) before the class's
    model_config, settings followed through named constants, `**` entries,
    dict displays and `Base.model_config`; a setting that cannot be read, or a
    base class from outside the repository, is UNDECIDED, not a violation.  A
    dataclass must be `@dataclass(frozen=True)`.  A write that bypasses the
    frozen model (object.__setattr__/__delattr__, a store into __dict__) on a
    configuration object happens only in functions that are reachable *only*
    from Config's own validators (call graph over resolved callers), i.e.
    before publication.
R3  guards, by null-ness of the singleton: every function that uses the
    singleton's value does so only where it is known not to be None; Config.get
    and both proxy methods return normally only when a configuration is active
    (a refusal hidden in a shared helper counts - reached by a call or by
    reading a property of a repository class, which is a call without
    arguments - a silent `return None` does not); on every path through the pipeline to the publish the singleton has
    been seen to be None, all other paths refuse; reset leaves it None on every
    path; nothing else clears it, except a failed load that clears *its own*
    publication (identity test against the instance being built).
R5  key normalisation keeps the overlay order: the normaliser walks the items
    of its input in insertion order and every item reaches a store into the
    result under its mapped name; no skip or store depends on what the result
    already holds (keep-first), so the later spelling of a field replaces the
    earlier one.  `zip` over the mapping's own keys / values / items and lists
    built from them one element per item (no filter, no reordering) is a walk
    over its items.
R4  precedence, by symbolic execution of Config.load: the data handed to
    validation is defaults <- file <- keyword arguments on every path (a file
    that was not given and empty keyword arguments count as empty layers).  The
    execution follows the layers through helpers, tuples and lists held in
    locals, records (NamedTuple / dataclass / plain class with __init__: built
    by position, keyword and default, read by field, index, slice, unpacking,
    iteration, `_fields` + getattr, `_replace`; a field of a mutable record
    assigned after construction and a list grown by append / extend / insert /
    `+=` are seen under every name that holds the object), their methods,
    classmethods (`cls(...)`), properties and `__iter__`, generators (the
    sequence of what they yield on the path) and `@contextmanager` functions
    (what `with` binds), comprehensions over known sequences with their
    filters, `zip`, `enumerate`, `reversed`, `functools.reduce`; a test of a
    value the execution holds against None is decided, not forked; the merge
    functions it judges are those the execution really went through.  When the order is wrong and a layer was
    put into a field or parameter named after another layer (`file=keywords`),
    that construction site is reported as the place of the mistake (the names
    only locate, they never decide).  Data touched by something the execution
    cannot follow is UNDECIDED, never "layer missing".  Every load starts
    from freshly read data: the execution is the first load of a process (a
    module global or class attribute that starts as None is None), a table
    stored into a module global or class attribute is *kept* beyond the call,
    and merging a layer in place into a kept table (or into one that shares
    sub-tables with it) is a violation - the next load starts from this load's
    effective values; a copy is fresh again.  Each step is the
    recursive merge (a shallow merge of two non-empty layers loses nested
    keys), and the merge function itself, decided by cases on
    (base entry absent / scalar / table) x (overlay value scalar / table),
    recurses exactly when both sides are tables and lets the overlay value win
    otherwise.  A merge written as several passes over the overlay's items
    (keys selected by a comprehension, a loop over the selection,
    `base.update({k: v for ... if ...})`) is decided the same way, for one
    representative key: a later plain store overrides what was done to the
    entry before.
"""

from __future__ import annotations

import ast

from ..astutil import first_stmt, last_stmt  # noqa: F401
from ..astutil import (LOG_CALLS, ancestors, call_name, calls_in, guards_of, iterated_mapping, kwarg, local_defs,
                       map_iteration, norm, stores_to, walk_no_nested)
from ..cfg import CFG
from ..loader import ClassInfo, FunctionInfo
from ..resolve import callees, closure, expr_class, resolve_call

CORE = 'config/core.py'
GLOBAL = '_config'
TOP = frozenset('NS')   # the singleton may be None / may be set
ISNONE = frozenset('N')
ISSET = frozenset('S')


def _validators(cls: ClassInfo, mode: str | None = None):
    """model validators declared in the class body, in declaration order (optionally of one mode)"""
    out = []
    for s in cls.node.body:
        if isinstance(s, ast.FunctionDef):
            for d in s.decorator_list:
                if isinstance(d, ast.Call) and call_name(d).endswith('model_validator'):
                    md = kwarg(d, 'mode')
                    if mode is None or (isinstance(md, ast.Constant) and md.value == mode):
                        out.append(cls.methods[s.name])
                elif mode is None and 'validator' in norm(d):
                    out.append(cls.methods[s.name])
    return out


def _is_logging(c: ast.Call) -> bool:
    return call_name(c).startswith(LOG_CALLS)


def _global_stores(fi):
    """Stores to the module global inside fi (needs `global _config`)."""
    has_global = any(isinstance(n, ast.Global) and GLOBAL in n.names for n in walk_no_nested(fi.node))
    out = []
    if not has_global:
        return out
    for t, st, how in stores_to(fi.node):
        if isinstance(t, ast.Name) and t.id == GLOBAL:
            out.append(st)
    return out


def _within(n, anc):
    return any(a is anc for a in ancestors(n))


def _own_publication(node) -> bool:
    """node runs only when the singleton *is* some particular object (`_config is self`): a load undoing its own
    publication"""
    for t, pol, _ in guards_of(node):
        for x in ast.walk(t):
            if isinstance(x, ast.Compare) and len(x.ops) == 1 and isinstance(x.ops[0], ast.Is) and pol:
                sides = [x.left, x.comparators[0]]
                if any(isinstance(s_, ast.Name) and s_.id == GLOBAL for s_ in sides) and \
                        not any(isinstance(s_, ast.Constant) for s_ in sides):
                    return True
    return False


# ------------------------------------------------------------------------------------------------------------------
# null-ness of the singleton
# ------------------------------------------------------------------------------------------------------------------

class Nullness:
    """forward dataflow of {may be None, may be set} for the module global over a function's CFG, with summaries of
    resolved callees of the same module that touch it"""

    def __init__(self, prog, m):
        self.prog, self.m = prog, m
        self.touch = {q for q, fi in m.functions.items()
                      if any(isinstance(n, ast.Name) and n.id == GLOBAL for n in walk_no_nested(fi.node))}
        self._relevant = {}
        self._props = {}
        self._memo = {}
        self._active = set()
        self.at_store = {}   # id(stmt) -> union of in-states at stores of the global
        self.at_use = {}     # id(Name node) -> (fi, node, union of states)
        self.cfgs = {}

    def property_of(self, fi, e):
        """the getter that runs when `e` (an attribute load) is evaluated: `obj.attr` with obj of a repository class
        whose `attr` is a property; None otherwise.  Reading a property is a call without arguments."""
        if not (isinstance(e, ast.Attribute) and isinstance(e.ctx, ast.Load)):
            return None
        k = (id(e), fi.file, fi.qualname)
        if k not in self._props:
            self._props[k] = None
            owner = expr_class(self.prog, fi, e.value)
            if owner is not None:
                meth = owner.find_method(e.attr)
                if meth is not None and any(d.split('(')[0].split('.')[-1] in ('property', 'cached_property') for d in meth.decorators()):
                    self._props[k] = meth
        return self._props[k]

    def invocations(self, fi, h):
        """(node, callee, call or None) for the resolved calls and the property reads of this module in h, in
        evaluation order (arguments and receivers before the call that takes them)"""
        out = []
        for x in walk_no_nested(h):
            if isinstance(x, ast.Call):
                callee = resolve_call(self.prog, fi, x)
                if callee is not None:
                    out.append(((getattr(x, 'end_lineno', x.lineno), getattr(x, 'end_col_offset', 0)), x, callee, x))
            elif isinstance(x, ast.Attribute):
                callee = self.property_of(fi, x)
                if callee is not None:
                    out.append(((getattr(x, 'end_lineno', x.lineno), getattr(x, 'end_col_offset', 0)), x, callee, None))
        out.sort(key=lambda t: t[0])
        return [(x, callee, c) for _, x, callee, c in out]

    def _reach(self, roots):
        """functions reachable through resolved calls and property reads"""
        seen, st = {}, list(roots)
        while st:
            f = st.pop()
            k = (f.file, f.qualname)
            if k in seen:
                continue
            seen[k] = f
            for g in closure(self.prog, [f]):
                if (g.file, g.qualname) not in seen:
                    st.append(g)
                if g.module is self.m:
                    for x in walk_no_nested(g.node):
                        p = self.property_of(g, x)
                        if p is not None and (p.file, p.qualname) not in seen:
                            st.append(p)
        return list(seen.values())

    def relevant(self, callee) -> bool:
        k = (callee.file, callee.qualname)
        if k not in self._relevant:
            self._relevant[k] = False
            self._relevant[k] = any(f.module is self.m and f.qualname in self.touch for f in self._reach([callee]))
        return self._relevant[k]

    def is_ref(self, fi, e) -> bool:
        """e evaluates to the singleton as it is now: the global itself or a local bound once from it"""
        if isinstance(e, ast.NamedExpr):
            return self.is_ref(fi, e.value)
        if isinstance(e, ast.Name):
            if e.id == GLOBAL:
                return True
            ds = local_defs(fi.node, e.id)
            if len(ds) == 1 and isinstance(ds[0], (ast.Assign, ast.AnnAssign)) and ds[0].value is not None \
                    and isinstance(ds[0].value, ast.Name) and ds[0].value.id == GLOBAL \
                    and not _global_stores(fi):
                return True
        return False

    @staticmethod
    def _is_snapshot_rhs(x) -> bool:
        """`local = _config`: binds a local to the singleton as it is now; reads nothing from it"""
        p = getattr(x, '_parent', None)
        return isinstance(p, (ast.Assign, ast.AnnAssign)) and p.value is x and all(
            isinstance(t, ast.Name) for t in (p.targets if isinstance(p, ast.Assign) else [p.target]))

    def refine(self, fi, e, truth, S):
        if isinstance(e, ast.UnaryOp) and isinstance(e.op, ast.Not):
            return self.refine(fi, e.operand, not truth, S)
        if isinstance(e, ast.BoolOp):
            if isinstance(e.op, ast.And) == truth:
                for v in e.values:
                    S = self.refine(fi, v, truth, S)
                return S
            out, cur = frozenset(), S
            for v in e.values:
                out |= self.refine(fi, v, truth, cur)
                cur = self.refine(fi, v, not truth, cur)
            return out
        if isinstance(e, ast.Compare) and len(e.ops) == 1:
            a, b, op = e.left, e.comparators[0], e.ops[0]
            if isinstance(a, ast.Constant) and a.value is None:
                a, b = b, a
            if self.is_ref(fi, a) and isinstance(b, ast.Constant) and b.value is None \
                    and isinstance(op, (ast.Is, ast.IsNot, ast.Eq, ast.NotEq)):
                none = isinstance(op, (ast.Is, ast.Eq)) == truth
                return S & ISNONE if none else S & ISSET
            return S
        if self.is_ref(fi, e):   # truthiness of a model instance: set <=> true
            return S & ISSET if truth else S & ISNONE
        return S

    def test_positions(self, fi):
        """ids of Name loads of the global that are only *tested* for None-ness"""
        out = set()
        for n in walk_no_nested(fi.node):
            if isinstance(n, ast.Compare) and len(n.ops) == 1 and isinstance(n.ops[0], (ast.Is, ast.IsNot, ast.Eq, ast.NotEq)):
                sides = [n.left, n.comparators[0]]
                if any(isinstance(s, ast.Constant) and s.value is None for s in sides):
                    out |= {id(s) for s in sides if isinstance(s, ast.Name)}
                # identity against another object (`_config is self`) reads nothing from it
                if isinstance(n.ops[0], (ast.Is, ast.IsNot)):
                    out |= {id(s) for s in sides if isinstance(s, ast.Name)}
            tests = []
            if isinstance(n, (ast.If, ast.While, ast.IfExp)):
                tests.append(n.test)
            if isinstance(n, ast.Assert):
                tests.append(n.test)
            for t in tests:
                st = [t]
                while st:
                    x = st.pop()
                    if isinstance(x, ast.BoolOp):
                        st.extend(x.values)
                    elif isinstance(x, ast.UnaryOp) and isinstance(x.op, ast.Not):
                        st.append(x.operand)
                    elif isinstance(x, ast.Name):
                        out.add(id(x))
        return out

    def arg_nullness(self, caller, callee, c: ast.Call):
        """((param, 'N' | 'S'), ...) for the arguments of a call whose None-ness is evident: a None constant, the
        instance, a parameter the caller itself got that way"""
        implicit = 1 if callee.cls is not None and not any('staticmethod' in d for d in callee.decorators()) \
            and isinstance(c.func, ast.Attribute) else 0
        names = callee.params[implicit:]
        pairs = [(names[i], a) for i, a in enumerate(c.args) if i < len(names) and not isinstance(a, ast.Starred)]
        pairs += [(k.arg, k.value) for k in c.keywords if k.arg in names]
        out = []
        for nm, a in pairs:
            if isinstance(a, ast.Constant) and a.value is None:
                out.append((nm, 'N'))
            elif isinstance(a, ast.Name) and a.id in ('self',) or isinstance(a, ast.Call):
                out.append((nm, 'S'))
        return tuple(sorted(out))

    def flow(self, fi, S0, collect=False, args=()):
        key = (fi.file, fi.qualname, S0, args)
        argd = dict(args)
        if key in self._memo and not collect:
            return self._memo[key]
        if key in self._active:
            return S0
        self._active.add(key)
        try:
            g = self.cfgs.get((fi.file, fi.qualname))
            if g is None:
                g = self.cfgs[(fi.file, fi.qualname)] = CFG(fi.node)
            declared = any(isinstance(n, ast.Global) and GLOBAL in n.names for n in walk_no_nested(fi.node))
            tests = self.test_positions(fi)

            def heads(node):
                s = node.stmt
                return {'stmt': [s], 'test': [getattr(s, 'test', None)], 'iter': [getattr(s, 'iter', None)],
                        'with': [i.context_expr for i in getattr(s, 'items', [])],
                        'match': [getattr(s, 'subject', None)]}.get(node.kind, [])

            def transfer(node, S, emit=False):
                if node.stmt is None or node.kind in ('finally', 'dispatch', 'join', 'except', 'case'):
                    return S
                for h in heads(node):
                    if h is None:
                        continue
                    if emit:
                        for x in walk_no_nested(h):
                            if isinstance(x, ast.Name) and isinstance(x.ctx, ast.Load) and id(x) not in tests \
                                    and self.is_ref(fi, x) and not self._is_snapshot_rhs(x):
                                r = self.at_use.setdefault(id(x), [fi, x, frozenset()])
                                r[2] = r[2] | S
                    for _, callee, c in self.invocations(fi, h):
                        if callee.module is self.m and self.relevant(callee):
                            S = self.flow(callee, S, emit, self.arg_nullness(fi, callee, c) if c is not None else ())
                if node.kind == 'stmt' and declared:
                    st = node.stmt
                    tg = []
                    if isinstance(st, ast.Assign):
                        tg = [(t, st.value) for t in st.targets]
                    elif isinstance(st, ast.AnnAssign) and st.value is not None:
                        tg = [(st.target, st.value)]
                    elif isinstance(st, ast.Delete):
                        tg = [(t, None) for t in st.targets]
                    for t, v in tg:
                        if isinstance(t, ast.Name) and t.id == GLOBAL:
                            if emit:
                                self.at_store[id(st)] = self.at_store.get(id(st), frozenset()) | S
                            if isinstance(v, ast.Constant) and v.value is None:
                                S = ISNONE
                            elif isinstance(v, ast.Name) and v.id in ('self', 'cls') or isinstance(v, ast.Call):
                                S = ISSET
                            elif isinstance(v, ast.Name) and v.id in fi.params:
                                S = {'N': ISNONE, 'S': ISSET}.get(argd.get(v.id), TOP)
                            else:
                                S = TOP
                return S

            def branch(node, lab, S):
                if node.kind == 'test':
                    return self.refine(fi, node.stmt.test, lab == 't', S)
                return S

            ins, _ = g.forward(S0, lambda n, s: transfer(n, s), lambda a, b: a | b, branch_transfer=branch)
            if collect:
                for nid, S in ins.items():
                    transfer(g.nodes[nid], S, emit=True)
            res = ins.get(g.exit, frozenset())
            self._memo[key] = res
            return res
        finally:
            self._active.discard(key)


# ------------------------------------------------------------------------------------------------------------------
# R5
# ------------------------------------------------------------------------------------------------------------------

def rule_normalise(ctx):
    """R5: the overlay order survives key normalisation.  deep_update is case-sensitive, so a key of the file or of the
    keyword arguments that is capitalised differently from the default's key sits *after* it in the merged dict; the
    normaliser folds both onto the field name, and the later one (the overlay) must win."""
    prog = ctx.prog
    cfg = prog.module(CORE).cls('Config')
    before = [v for c in cfg.mro() for v in _validators(c, 'before')]
    ctx.floor('C18-R5/before', len(before), 1, "mode='before' validators on Config's bases")
    found = 0
    for fn in closure(prog, before):
        params = [p for p in fn.params if p not in ('self', 'cls')]
        # item loops over a parameter mapping (statement or comprehension)
        loops = []
        for x in walk_no_nested(fn.node):
            if isinstance(x, ast.For):
                loops.append((x, x.target, x.iter, None))
            elif isinstance(x, ast.DictComp):
                for gen in x.generators[:1]:
                    loops.append((x, gen.target, gen.iter, gen))
        for owner, target, it, gen in loops:
            src = it
            wrappers = []
            while isinstance(src, ast.Call) and isinstance(src.func, ast.Name) and src.func.id in ('list', 'tuple', 'iter', 'sorted', 'reversed') \
                    and len(src.args) == 1:
                wrappers.append(src.func.id)
                src = src.args[0]
            src = _zipped_mapping(fn, src, params) or src
            im = iterated_mapping(src)
            if im is None or not (isinstance(im[0], ast.Name) and im[0].id in params):
                continue
            found += 1
            reorder = [w for w in wrappers if w in ('sorted', 'reversed')]
            ctx.ob('C18-R5', fn, f'items of `{im[0].id}` are walked in insertion order', not reorder,
                   'iterates the mapping itself: an overlay key that differs from the default only in capitalisation comes later'
                   if not reorder else
                   f'the items are walked through {reorder[0]}(): the spelling that comes last is no longer the overlay\'s, so a '
                   'default can beat the file and the file the keyword arguments', line=owner.lineno)
            if gen is not None:
                # dict comprehension: a later key replaces an earlier one by construction; only filters matter
                bad = [c for c in gen.ifs]
                ctx.ob('C18-R5', fn, f'every item is stored: comprehension filters {[norm(c) for c in bad]}', not bad,
                       'no filter: the last spelling of a field wins' if not bad else
                       f'items are dropped when not ({norm(bad[0])}): an overlay key may not replace the default', line=owner.lineno)
                continue
            _r5_loop(ctx, fn, owner, im[0].id)
    ctx.floor('C18-R5', found, 1, 'item loops of the key normaliser')


def _zipped_mapping(fn, it, params):
    """`zip(A, B, ...)` walks the items of a parameter mapping in insertion order when every operand is that mapping's
    own keys / values / items, or a list built from them one element per item (a comprehension without filter, held in
    a local bound once or written in place), none of them reordered: the mapping, else None"""
    if not (isinstance(it, ast.Call) and isinstance(it.func, ast.Name) and it.func.id == 'zip' and it.args
            and all(k.arg == 'strict' for k in it.keywords)):
        return None
    found = set()
    for a in it.args:
        e = a
        if isinstance(e, ast.Name) and e.id not in params:
            ds = local_defs(fn.node, e.id)
            if len(ds) != 1 or not isinstance(ds[0], (ast.Assign, ast.AnnAssign)) or ds[0].value is None:
                return None
            e = ds[0].value
        while isinstance(e, ast.Call) and isinstance(e.func, ast.Name) and e.func.id in ('list', 'tuple', 'iter') and len(e.args) == 1 \
                and not e.keywords:
            e = e.args[0]
        if isinstance(e, (ast.ListComp, ast.GeneratorExp)):
            if len(e.generators) != 1 or e.generators[0].ifs:
                return None
            e = e.generators[0].iter
        if any(isinstance(x, ast.Call) and isinstance(x.func, ast.Name) and x.func.id in ('sorted', 'reversed', 'set', 'frozenset')
               for x in ast.walk(e)):
            return None
        im = iterated_mapping(e)
        if im is None or not (isinstance(im[0], ast.Name) and im[0].id in params):
            return None
        found.add(im[0].id)
    return ast.Name(id=found.pop(), ctx=ast.Load()) if len(found) == 1 else None


def _r5_loop(ctx, fn, lp: ast.For, src: str):
    g = CFG(fn.node)
    head = next((n for n in g.nodes if n.kind == 'iter' and n.stmt is lp), None)
    if head is None:
        ctx.undecided('C18-R5', fn, f'for … in {src}', 'loop head not found in the CFG')
    # the result dict(s): subscript stores / update / setdefault inside the loop on a local that the function returns
    returned = {r.value.id for r in walk_no_nested(fn.node) if isinstance(r, ast.Return) and isinstance(r.value, ast.Name)}
    store_nodes, keepfirst = {}, []
    for n in g.nodes:
        if n.kind != 'stmt' or n.stmt is None or not _within(n.stmt, lp):
            continue
        st = n.stmt
        for t, s2, how in stores_to(st):
            if isinstance(t, ast.Subscript) and isinstance(t.value, ast.Name) and t.value.id in returned and how in ('assign', 'ann'):
                store_nodes[n.id] = t.value.id
        if isinstance(st, ast.Expr) and isinstance(st.value, ast.Call) and isinstance(st.value.func, ast.Attribute) \
                and isinstance(st.value.func.value, ast.Name) and st.value.func.value.id in returned:
            if st.value.func.attr == 'update':
                store_nodes[n.id] = st.value.func.value.id
            elif st.value.func.attr == 'setdefault':
                keepfirst.append(n)
    ctx.floor('C18-R5/stores', len(store_nodes) + len(keepfirst), 1, 'stores into the normalised dict')
    results = set(store_nodes.values()) | {n.stmt.value.func.value.id for n in keepfirst}
    for n in keepfirst:
        ctx.ob('C18-R5', fn, norm(n.stmt)[:60], False,
               'setdefault keeps the first spelling of a field and drops later ones: a default beats the file and the file '
               'beats keyword arguments whenever the capitalisation differs', line=n.line)
    # every path through the body reaches a store, except paths on which the key maps to no name at all
    body_nodes = {n.id for n in g.nodes if n.stmt is not None and _within(n.stmt, lp)}

    def never(a, b, lab):
        """edge taken only when `X is None` for the mapped name (dict.get(k, k) never yields None)"""
        na = g.nodes[a]
        if na.kind == 'test' and lab in ('t', 'f'):
            t = na.stmt.test
            if isinstance(t, ast.Compare) and len(t.ops) == 1 and isinstance(t.comparators[0], ast.Constant) \
                    and t.comparators[0].value is None and isinstance(t.left, ast.Name):
                isnone = isinstance(t.ops[0], (ast.Is, ast.Eq))
                return (lab == 't') == isnone
        return False

    def ok_edge(a, b, lab):
        return lab != 'e' and b not in store_nodes and not never(a, b, lab)

    skipping = None
    for b, lab in g.succ[head.id]:
        if lab != 't':
            continue
        if b in store_nodes:
            continue
        # a path from the body's first node back to the loop head (or out of the loop) that meets no store
        seen, st = {b}, [b]
        while st and skipping is None:
            x = st.pop()
            for y, l2 in g.succ[x]:
                if not ok_edge(x, y, l2):
                    continue
                if y == head.id or y not in body_nodes:
                    skipping = x
                    break
                if y not in seen:
                    seen.add(y)
                    st.append(y)
    why_skip = ''
    if skipping is not None:
        nd = g.nodes[skipping]
        gs = [norm(t) for t, pol, o in guards_of(nd.stmt) if _within(o, lp) or o is lp] if nd.stmt is not None else []
        why_skip = f'`{nd.text()[:50]}` (line {nd.line}) under {gs}'
    ctx.ob('C18-R5', fn, f'every item of `{src}` reaches a store into {sorted(results)}', skipping is None,
           'on every path through the loop body: the last spelling of a field wins' if skipping is None else
           (f'an item can pass the loop body without being stored, via {why_skip}: the first spelling of a field is kept and '
            'later ones are dropped, so a default beats the file and the file beats keyword arguments whenever the '
            'capitalisation differs'), line=(g.nodes[skipping].line if skipping is not None else lp.lineno))
    # no decision in the loop depends on what the result already holds
    for n in g.nodes:
        if n.kind == 'test' and n.stmt is not None and _within(n.stmt, lp):
            reads = [x for x in ast.walk(n.stmt.test) if isinstance(x, ast.Name) and x.id in results]
            if reads:
                ctx.ob('C18-R5', fn, f'decision `{norm(n.stmt.test)[:60]}` reads the result', False,
                       'what happens to an item depends on whether its field is already in the result: the first spelling '
                       'of a field is kept and later ones are dropped, so a default beats the file and the file beats '
                       'keyword arguments whenever the capitalisation differs', line=n.line)


# ------------------------------------------------------------------------------------------------------------------
# R4: the merge function, by cases
# ------------------------------------------------------------------------------------------------------------------

class MergeFn:
    """decides whether a two-parameter function is the recursive overlay-wins merge; .ok / .why / .returns_base"""

    CASES = [(b, v) for b in ('absent', 'scalar', 'dict') for v in ('scalar', 'dict')]

    def __init__(self, prog, fi):
        self.prog, self.fi = prog, fi
        self.ok, self.why, self.returns_base = None, 'not analysed', False
        self.base = self.overlay = None
        self.detail = {}
        self._run()

    def _run(self):
        fi = self.fi
        ps = [p for p in fi.params if p not in ('self', 'cls')]
        if len(ps) != 2:
            self.why = 'not a two-parameter function'
            return
        loops = [x for x in walk_no_nested(fi.node) if isinstance(x, ast.For)]
        comps = [x for x in walk_no_nested(fi.node) if isinstance(x, (ast.ListComp, ast.SetComp, ast.DictComp, ast.GeneratorExp))]
        if len(loops) != 1 or comps:
            self._run_passes(ps)      # the items are walked more than once (selection, then stores)
            return
        lp = loops[0]
        mi = map_iteration(lp.target, lp.iter)
        if mi is None or mi[0] not in ps:
            self.why = f'loop does not walk a parameter mapping: {norm(lp.iter)}'
            return
        self.overlay = mi[0]
        self.base = next(p for p in ps if p != self.overlay)
        self.key, self.val = mi[1], mi[2]
        if self.key is None:
            self.why = 'loop does not bind the key'
            return
        self.lp = lp
        rets = [r for r in walk_no_nested(fi.node) if isinstance(r, ast.Return)]
        self.returns_base = bool(rets) and all(isinstance(r.value, ast.Name) and r.value.id == self.base for r in rets) \
            and not any(_within(r, lp) for r in rets)
        bad = None
        for case in self.CASES:
            try:
                eff = self._exec(lp.body, case, {})
            except _Undecided as u:
                self.ok, self.why = None, f'case base={case[0]}, overlay={case[1]}: {u}'
                return
            want = 'merge' if case == ('dict', 'dict') else 'replace'
            self.detail[case] = eff
            if eff != want and bad is None:
                bad = (case, eff, want)
        if bad:
            case, eff, want = bad
            self.ok = False
            what = {'merge': 'merges the two tables key by key', 'replace': 'stores the overlay value', 'shallow': 'merges the tables one level deep only',
                    'nothing': 'leaves the base entry as it is', 'error': 'fails'}.get(eff, eff)
            self.why = (f'when the base entry is {self._nm(case[0])} and the overlay value is {self._nm(case[1])} the function {what}, '
                        f'but the overlay must {"be merged into the base table recursively" if want == "merge" else "replace the base entry"}')
        else:
            self.ok = True
            self.why = 'recurses exactly when both sides are tables; otherwise the overlay value replaces the base entry'

    @staticmethod
    def _nm(k):
        return {'absent': 'absent', 'scalar': 'a plain value', 'dict': 'a table'}[k]

    # -- a merge written as several passes over the overlay's items ---------------------------------------------------
    # (keys selected by a comprehension, a loop over the selection, `base.update({... for ... if ...})`): the effect on
    # base[key] of the whole body is computed for one representative key, case by case, as for the single loop.
    def _run_passes(self, ps):
        fi = self.fi
        walked = set()
        for x in walk_no_nested(fi.node):
            its = [(x.target, x.iter)] if isinstance(x, ast.For) else \
                [(g.target, g.iter) for g in x.generators] if isinstance(x, (ast.ListComp, ast.SetComp, ast.DictComp, ast.GeneratorExp)) else []
            for t, it in its:
                mi = map_iteration(t, it)
                if mi is not None and mi[0] in ps:
                    walked.add(mi[0])
        if len(walked) != 1:
            self.why = 'does not walk the items of exactly one parameter mapping'
            return
        self.overlay = walked.pop()
        self.base = next(p for p in ps if p != self.overlay)
        self.key = self.val = None
        rets = [r for r in walk_no_nested(fi.node) if isinstance(r, ast.Return)]
        self.returns_base = bool(rets) and all(isinstance(r.value, ast.Name) and r.value.id == self.base for r in rets) \
            and all(any(r is s_ for s_ in fi.node.body) for r in rets)
        bad = None
        for case in self.CASES:
            try:
                eff = self._exec_passes(fi.node.body, case)
            except _Undecided as u:
                self.ok, self.why = None, f'case base={case[0]}, overlay={case[1]}: {u}'
                return
            want = 'merge' if case == ('dict', 'dict') else 'replace'
            self.detail[case] = eff
            if eff != want and bad is None:
                bad = (case, eff, want)
        if bad:
            case, eff, want = bad
            self.ok = False
            what = {'merge': 'merges the two tables key by key', 'replace': 'stores the overlay value', 'shallow': 'merges the tables one level deep only',
                    'nothing': 'leaves the base entry as it is', 'error': 'fails'}.get(eff, eff)
            self.why = (f'when the base entry is {self._nm(case[0])} and the overlay value is {self._nm(case[1])} the function {what}, '
                        f'but the overlay must {"be merged into the base table recursively" if want == "merge" else "replace the base entry"}')
        else:
            self.ok = True
            self.why = 'recurses exactly when both sides are tables; otherwise the overlay value replaces the base entry'

    def _bind(self, target, it, env, case=None):
        """binds the key / value variables for one walk over the overlay's items (or over a selection of them made
        before) and says whether the representative key is among the items walked"""
        mi = map_iteration(target, it)
        if mi is not None and mi[0] == self.overlay:
            self.key, self.val = mi[1], mi[2]
            if self.key is None:
                raise _Undecided(f'`{norm(it)[:40]}` is walked without binding the key')
            return True
        src = it
        while isinstance(src, ast.Call) and call_name(src) in ('list', 'tuple', 'sorted', 'set', 'frozenset', 'iter') and len(src.args) == 1:
            src = src.args[0]
        if isinstance(src, ast.Name) and isinstance(env.get(src.id), tuple) and env[src.id][0] == 'keys' and isinstance(target, ast.Name):
            self.key, self.val = target.id, None
            return env[src.id][1]
        if isinstance(src, (ast.ListComp, ast.SetComp, ast.GeneratorExp)) and isinstance(target, ast.Name) and case is not None:
            sel = self._selection(src, case, env)      # the selection written in place
            if sel is not None and sel[0] == 'keys':
                self.key, self.val = target.id, None
                return sel[1]
        if mi is not None and isinstance(env.get(mi[0]), tuple) and env[mi[0]][0] == 'sub' and mi[1] is not None:
            self.key, self.val = mi[1], mi[2]
            return env[mi[0]][1]
        raise _Undecided(f'walk over `{norm(it)[:40]}` is outside the merge idiom')

    def _selection(self, v, case, env):
        """('keys', present) / ('sub', present, effect) for a comprehension that selects items of the overlay"""
        while isinstance(v, ast.Call) and call_name(v) in ('list', 'tuple', 'sorted', 'set', 'frozenset', 'dict') and len(v.args) == 1 \
                and not v.keywords:
            v = v.args[0]
        if not isinstance(v, (ast.ListComp, ast.SetComp, ast.GeneratorExp, ast.DictComp)) or len(v.generators) != 1:
            return None
        gen = v.generators[0]
        present = self._bind(gen.target, gen.iter, env, case)
        present = present and all(self._truth(c, case, env) for c in gen.ifs)
        if isinstance(v, ast.DictComp):
            if not (isinstance(v.key, ast.Name) and v.key.id == self.key):
                raise _Undecided(f'`{norm(v)[:50]}` stores under another key')
            return ('sub', present, self._value_effect(v.value, case, env) if present else 'nothing')
        if not (isinstance(v.elt, ast.Name) and v.elt.id == self.key):
            raise _Undecided(f'`{norm(v)[:50]}` does not select keys')
        return ('keys', present)

    def _exec_passes(self, body, case):
        env, effs = {}, []
        for st in body:
            if isinstance(st, ast.Expr) and (isinstance(st.value, ast.Constant) or (isinstance(st.value, ast.Call) and _is_logging(st.value))):
                continue
            if isinstance(st, ast.Pass):
                continue
            if isinstance(st, ast.Return):
                break
            if isinstance(st, (ast.Assign, ast.AnnAssign)) and st.value is not None:
                tgts = st.targets if isinstance(st, ast.Assign) else [st.target]
                sel = self._selection(st.value, case, env) if len(tgts) == 1 and isinstance(tgts[0], ast.Name) else None
                if sel is None:
                    raise _Undecided(f'statement `{norm(st)[:60]}` is outside the merge idiom')
                env[tgts[0].id] = sel
                continue
            if isinstance(st, ast.For) and not st.orelse:
                if self._bind(st.target, st.iter, env, case):
                    effs.append(self._exec(st.body, case, dict(env)))
                continue
            arg = None
            if isinstance(st, ast.Expr) and isinstance(st.value, ast.Call) and isinstance(st.value.func, ast.Attribute) \
                    and st.value.func.attr == 'update' and isinstance(st.value.func.value, ast.Name) and st.value.func.value.id == self.base \
                    and len(st.value.args) == 1 and not st.value.keywords:
                arg = st.value.args[0]
            elif isinstance(st, ast.AugAssign) and isinstance(st.op, ast.BitOr) and isinstance(st.target, ast.Name) and st.target.id == self.base:
                arg = st.value
            if arg is not None:
                sel = env.get(arg.id) if isinstance(arg, ast.Name) else self._selection(arg, case, env)
                if not (isinstance(sel, tuple) and sel[0] == 'sub'):
                    raise _Undecided(f'`{norm(st)[:60]}`: cannot tell which items are stored')
                effs.append(sel[2] if sel[1] else 'nothing')
                continue
            raise _Undecided(f'statement `{norm(st)[:60]}` is outside the merge idiom')
        done = [e for e in effs if e != 'nothing']
        if len(set(done)) > 1 and done[-1] != 'replace':    # a final plain store overrides whatever was done to the entry before
            raise _Undecided(f'the entry is handled more than once ({", then ".join(done)})')
        return done[-1] if done else 'nothing'

    # -- tiny evaluator for one loop iteration under a case ------------------------------------------------------
    def _kind(self, e, case, env):
        """'dict' | 'scalar' | 'absent'(None from .get) | 'error' | None(unknown) of an expression"""
        b, v = case
        if isinstance(e, ast.Constant) and e.value is None:
            return 'absent'
        if isinstance(e, ast.Dict) and not e.keys:
            return 'dict'
        if isinstance(e, ast.IfExp):
            return self._kind(e.body if self._truth(e.test, case, env) else e.orelse, case, env)
        if isinstance(e, ast.Name):
            if e.id == self.val:
                return v
            if e.id in env:
                return env[e.id]
            return None
        if isinstance(e, ast.Subscript) and isinstance(e.value, ast.Name) and isinstance(e.slice, ast.Name) and e.slice.id == self.key:
            if e.value.id == self.base:
                return 'error' if b == 'absent' else b
            if e.value.id == self.overlay:
                return v
        if isinstance(e, ast.Call) and isinstance(e.func, ast.Attribute) and e.func.attr == 'get' and isinstance(e.func.value, ast.Name) \
                and e.args and isinstance(e.args[0], ast.Name) and e.args[0].id == self.key:
            dflt = e.args[1] if len(e.args) > 1 else None
            if e.func.value.id == self.base:
                if b != 'absent':
                    return b
                if dflt is None or (isinstance(dflt, ast.Constant) and dflt.value is None):
                    return 'absent'
                if isinstance(dflt, ast.Dict) and not dflt.keys:
                    return 'dict'
                return 'scalar'
            if e.func.value.id == self.overlay:
                return v
        return None

    def _truth(self, e, case, env):
        b, v = case
        if isinstance(e, ast.UnaryOp) and isinstance(e.op, ast.Not):
            return not self._truth(e.operand, case, env)
        if isinstance(e, ast.BoolOp):
            if isinstance(e.op, ast.And):
                return all(self._truth(x, case, env) for x in e.values)   # short circuit by generator
            return any(self._truth(x, case, env) for x in e.values)
        if isinstance(e, ast.Compare) and len(e.ops) == 1:
            op, a, c = e.ops[0], e.left, e.comparators[0]
            if isinstance(op, (ast.In, ast.NotIn)) and isinstance(a, ast.Name) and a.id == self.key:
                tgt = c
                if isinstance(tgt, ast.Call) and isinstance(tgt.func, ast.Attribute) and tgt.func.attr == 'keys' and not tgt.args:
                    tgt = tgt.func.value
                if isinstance(tgt, ast.Name) and tgt.id == self.base:
                    return (b != 'absent') == isinstance(op, ast.In)
                if isinstance(tgt, ast.Name) and tgt.id == self.overlay:
                    return isinstance(op, ast.In)
                if isinstance(tgt, ast.Name) and isinstance(env.get(tgt.id), tuple) and env[tgt.id][0] in ('keys', 'sub'):
                    return env[tgt.id][1] == isinstance(op, ast.In)     # a selection of the overlay's keys made before
            if isinstance(c, ast.Constant) and c.value is None and isinstance(op, (ast.Is, ast.IsNot, ast.Eq, ast.NotEq)):
                k = self._kind(a, case, env)
                if k == 'error':
                    raise _Undecided(f'`{norm(a)}` is evaluated although the key may be absent')
                if k is not None:
                    return (k == 'absent') == isinstance(op, (ast.Is, ast.Eq))
            if isinstance(op, (ast.Is, ast.Eq, ast.IsNot, ast.NotEq)) and isinstance(a, ast.Call) and call_name(a) == 'type' and len(a.args) == 1 \
                    and isinstance(c, ast.Name) and c.id == 'dict':
                k = self._kind(a.args[0], case, env)
                if k == 'error':
                    raise _Undecided(f'`{norm(a)}` is evaluated although the key may be absent')
                if k is not None:
                    return (k == 'dict') == isinstance(op, (ast.Is, ast.Eq))
        if isinstance(e, ast.Call) and call_name(e) == 'isinstance' and len(e.args) == 2:
            ty = e.args[1]
            tys = [norm(t).split('.')[-1] for t in (ty.elts if isinstance(ty, ast.Tuple) else [ty])]
            if set(tys) <= {'dict', 'Mapping', 'MutableMapping', 'Dict'}:
                k = self._kind(e.args[0], case, env)
                if k == 'error':
                    raise _Undecided(f'`{norm(e.args[0])}` is evaluated although the key may be absent')
                if k is not None:
                    return k == 'dict'
        raise _Undecided(f'condition `{norm(e)[:70]}` is outside the merge idiom')

    def _is_nested_base(self, e, case, env):
        return self._kind(e, case, env) == case[0] and not (isinstance(e, ast.Name) and e.id == self.val) and case[0] == 'dict' \
            and (not isinstance(e, ast.Name) or env.get('@' + e.id) == 'base')

    def _value_effect(self, v, case, env):
        """effect of storing expression v into base[key]"""
        if isinstance(v, ast.Name) and (v.id == self.val or env.get('@' + v.id) == 'overlay') or (
                isinstance(v, ast.Subscript) and isinstance(v.value, ast.Name) and v.value.id == self.overlay):
            return 'replace'
        if isinstance(v, ast.Call):
            callee = resolve_call(self.prog, self.fi, v)
            if callee is not None and callee == self.fi and len(v.args) == 2:
                a0, a1 = v.args
                pos = [p for p in self.fi.params if p not in ('self', 'cls')]
                if pos[0] != self.base:
                    a0, a1 = a1, a0
                if self._is_nested_base(a0, case, env) and self._kind(a1, case, env) == case[1]:
                    if not self.returns_base:
                        raise _Undecided('the recursive result is stored but the function does not return its base')
                    return 'merge'
            if call_name(v) in ('copy.deepcopy', 'deepcopy', 'copy.copy', 'dict') and len(v.args) == 1 and not v.keywords:
                return self._value_effect(v.args[0], case, env)
            if call_name(v) == 'dict' and v.keywords:
                return 'shallow'
        if isinstance(v, ast.Dict) and any(k is None for k in v.keys):
            return 'shallow'
        if isinstance(v, ast.BinOp) and isinstance(v.op, ast.BitOr):
            return 'shallow'
        if isinstance(v, ast.IfExp):
            return self._value_effect(v.body if self._truth(v.test, case, env) else v.orelse, case, env)
        raise _Undecided(f'value `{norm(v)[:60]}` stored into the base is outside the merge idiom')

    def _exec(self, body, case, env):
        """effect on base[key] of one iteration: 'merge' | 'replace' | 'shallow' | 'nothing'"""
        eff = 'nothing'
        for st in body:
            if isinstance(st, ast.Expr) and isinstance(st.value, ast.Constant):
                continue
            if isinstance(st, ast.Expr) and isinstance(st.value, ast.Call) and _is_logging(st.value):
                continue
            if isinstance(st, ast.Pass):
                continue
            if isinstance(st, ast.Continue):
                return eff
            if isinstance(st, ast.If):
                branch = st.body if self._truth(st.test, case, env) else st.orelse
                sub = self._exec(branch, case, env)
                if sub == '@continue':
                    return eff
                if isinstance(sub, tuple):
                    return sub[1] if sub[1] != 'nothing' else eff
                if sub != 'nothing':
                    eff = sub
                if any(isinstance(x, ast.Continue) for s2 in branch for x in ast.walk(s2)):
                    return eff
                continue
            if isinstance(st, (ast.Assign, ast.AnnAssign)):
                tgts = st.targets if isinstance(st, ast.Assign) else [st.target]
                v = st.value
                if len(tgts) == 1 and isinstance(tgts[0], ast.Name):
                    k = self._kind(v, case, env)
                    if k == 'error':
                        raise _Undecided(f'`{norm(v)}` is evaluated although the key may be absent')
                    if k is None:
                        raise _Undecided(f'local `{norm(st)[:60]}` is outside the merge idiom')
                    env = dict(env)
                    env[tgts[0].id] = k
                    if isinstance(v, ast.IfExp):
                        v = v.body if self._truth(v.test, case, env) else v.orelse
                    src_base = (isinstance(v, ast.Subscript) and isinstance(v.value, ast.Name) and v.value.id == self.base) or (
                        isinstance(v, ast.Call) and isinstance(v.func, ast.Attribute) and isinstance(v.func.value, ast.Name)
                        and v.func.value.id == self.base)
                    src_over = (isinstance(v, ast.Name) and (v.id == self.val or env.get('@' + v.id) == 'overlay')) or (
                        isinstance(v, ast.Subscript) and isinstance(v.value, ast.Name) and v.value.id == self.overlay) or (
                        isinstance(v, ast.Call) and isinstance(v.func, ast.Attribute) and isinstance(v.func.value, ast.Name)
                        and v.func.value.id == self.overlay and v.func.attr == 'get')
                    env['@' + tgts[0].id] = 'base' if src_base else 'overlay' if src_over else 'other'
                    if tgts[0].id == self.val:
                        raise _Undecided('the overlay value is rebound')
                    continue
                if len(tgts) == 1 and isinstance(tgts[0], ast.Subscript) and isinstance(tgts[0].value, ast.Name) \
                        and tgts[0].value.id == self.base and isinstance(tgts[0].slice, ast.Name) and tgts[0].slice.id == self.key:
                    eff = self._value_effect(v, case, env)
                    continue
                raise _Undecided(f'statement `{norm(st)[:60]}` is outside the merge idiom')
            if isinstance(st, ast.Expr) and isinstance(st.value, ast.Call):
                c = st.value
                callee = resolve_call(self.prog, self.fi, c)
                if callee is not None and callee == self.fi and len(c.args) == 2:
                    a0, a1 = c.args
                    pos = [p for p in self.fi.params if p not in ('self', 'cls')]
                    if pos[0] != self.base:
                        a0, a1 = a1, a0
                    k0 = self._kind(a0, case, env)
                    if k0 == 'error':
                        raise _Undecided(f'`{norm(a0)}` is evaluated although the key may be absent')
                    if k0 == 'dict' and self._kind(a1, case, env) == 'dict' and case == ('dict', 'dict'):
                        eff = 'merge'
                        continue
                    # recursion into something that is not a pair of tables
                    eff = 'error'
                    continue
                if isinstance(c.func, ast.Attribute) and isinstance(c.func.value, ast.Name) and c.func.value.id == self.base \
                        and c.func.attr == 'setdefault' and len(c.args) == 2 and isinstance(c.args[0], ast.Name) \
                        and c.args[0].id == self.key:
                    if case[0] == 'absent':   # stores only when the key is new: an existing base entry is kept
                        eff = self._value_effect(c.args[1], case, env)
                    continue
                if isinstance(c.func, ast.Attribute) and c.func.attr == 'update' and len(c.args) == 1 \
                        and self._is_nested_base(c.func.value, case, env):
                    eff = 'shallow'
                    continue
                raise _Undecided(f'call `{norm(c)[:60]}` is outside the merge idiom')
            raise _Undecided(f'statement `{norm(st)[:60]}` is outside the merge idiom')
        return eff


class _Undecided(Exception):
    pass


# ------------------------------------------------------------------------------------------------------------------
# R4: symbolic execution of Config.load
# ------------------------------------------------------------------------------------------------------------------

class _Extra(str):
    """a reason why a dict is not exactly the merge of its layers that cannot account for a missing or misplaced
    layer (an entry set by hand): the order verdict stands, a clean verdict does not"""


def _real(u):
    return None if isinstance(u, _Extra) else u


class _At(str):
    """a finding of the execution together with the function and line of the construct that causes it"""
    fi = None
    line = None


class _Cell:
    __slots__ = ('layers', 'shallow', 'unknown', 'kept', 'stale')

    def __init__(self, layers=(), shallow=None, unknown=None, kept=None, stale=None):
        self.layers, self.shallow, self.unknown = tuple(layers), shallow, unknown
        self.kept = kept      # where the table (or its sub-tables) is kept beyond this call: a module global, a class attribute
        self.stale = stale    # a merge into a table that is kept beyond this call

    def copy(self):
        return _Cell(self.layers, self.shallow, self.unknown, self.kept, self.stale)


class _State:
    def __init__(self, env=None, heap=None, absent=frozenset(), given=frozenset(), notes=(), subst=()):
        self.env = dict(env or {})
        self.heap = {k: v.copy() for k, v in (heap or {}).items()}
        self.absent = absent      # layers known to be empty on this path ('F': no file given, 'K': no keyword arguments)
        self.given = given        # layers known to be non-empty / present
        self.notes = tuple(notes)  # (line, text): a layer bound to a field / parameter named after another layer
        self.subst = tuple(subst)  # (old record value, new record value): a mutable record whose field was assigned
        self.glob = {}             # (owner, name) -> value: module globals / class attributes assigned during this load

    def fork(self):
        s2 = _State(self.env, self.heap, self.absent, self.given, self.notes, self.subst)
        s2.glob = dict(self.glob)
        return s2

    def current(self, v):
        """v with every record in it that has been assigned to since replaced by what it is now (records are values
        here; identity of the value object stands for identity of the instance)"""
        if not self.subst or not isinstance(v, tuple) or not v:
            return v
        for old, new in self.subst:
            if v is old:
                v = new
        if v[0] == 'tuple':
            els = [self.current(x) for x in v[1]]
            if any(a is not b for a, b in zip(els, v[1])):
                v = ('tuple', els) + tuple(v[2:])
        elif v[0] == 'rec':
            flds = tuple((n, self.current(x)) for n, x in v[2])
            if any(a[1] is not b[1] for a, b in zip(flds, v[2])):
                # a record inside a record: the outer instance is still the same object
                new = ('rec', v[1], flds, v[3])
                self.subst = self.subst + ((v, new),)
                v = new
        return v

    def set_field(self, rec, attr, val):
        """`<rec>.attr = val` on a mutable record: every name (of this frame now, of the callers' frames when they are
        restored) that holds this instance sees the new field"""
        flds = tuple((n, (val if n == attr else x)) for n, x in rec[2])
        if attr not in dict(rec[2]):
            flds = flds + ((attr, val),)
        return self.replace(rec, ('rec', rec[1], flds, rec[3]))

    def replace(self, old, new):
        """the mutable object that the value `old` stands for is now `new`, under every name that holds it"""
        self.subst = self.subst + ((old, new),)
        self.env = {k: self.current(x) for k, x in self.env.items()}
        return new

    def new_cell(self, layers=(), shallow=None, unknown=None):
        i = len(self.heap) + 1
        while i in self.heap:
            i += 1
        self.heap[i] = _Cell(layers, shallow, unknown)
        return ('cell', i)


class LoadExec:
    """symbolic execution of Config.load: which layers (D defaults, F file, K keyword arguments) reach validation,
    in which order, merged how"""

    LIMIT = 256

    def __init__(self, ctx, prog, m, ld, merge_fns):
        self.ctx, self.prog, self.m, self.ld = ctx, prog, m, ld
        self.merge_fns = merge_fns     # {(file, qualname): MergeFn}
        self.finals = []               # (line, layers, shallow, unknown, absent, notes)
        self.used = set()              # merge functions the execution went through
        self._load_side = None
        self.count = 0

    # -- helpers -----------------------------------------------------------------------------------------------------
    def _const_strings(self, fi, e, depth=0):
        out = []
        for x in ast.walk(e):
            if isinstance(x, ast.Constant) and isinstance(x.value, str):
                out.append(x.value)
            elif isinstance(x, ast.Name) and depth < 3:
                r = self.prog.resolve_name(fi.module, x.id)
                if isinstance(r, tuple) and r[0] == 'const':
                    out += self._const_strings(FunctionInfo('<module>', fi.node, r[1]), r[1].constants[r[2]], depth + 1)
        return out

    # -- records and sequences -----------------------------------------------------------------------------------------
    # values: ('tuple', [v, ...])            an immutable sequence (tuple display, NamedTuple fields, reversed(...))
    #         ('tuple', [v, ...], 'list')    a list display: like a tuple as long as nothing mutates it
    #         ('rec', ClassInfo, ((field, v), ...), is_tuple)   an instance of a repository class, by field

    _READS = ('get', 'keys', 'items', 'values', '__contains__', '__len__', '__getitem__', 'index', 'count')
    _SEQ_MUTATORS = ('append', 'extend', 'insert', 'pop', 'remove', 'sort', 'reverse', 'clear')

    def _record_shape(self, rc):
        """(field names in constructor order, {field: (class, default expr)}, is_tuple) when instances of rc are built
        by a generated constructor (NamedTuple / dataclass without __init__/__new__); None otherwise"""
        if any(n in k.methods for k in rc.mro() for n in ('__init__', '__new__')):
            return None
        is_nt = any(b.split('[')[0].split('.')[-1] == 'NamedTuple' for k in rc.mro() for b in k.base_exprs)
        is_dc = any('dataclass' in ast.unparse(d) for k in rc.mro() for d in k.node.decorator_list)
        if not (is_nt or is_dc):
            return None
        names, defaults = [], {}
        for k in reversed(rc.mro()):
            for st in k.node.body:
                if isinstance(st, ast.AnnAssign) and isinstance(st.target, ast.Name) and 'ClassVar' not in ast.unparse(st.annotation):
                    if st.target.id not in names:
                        names.append(st.target.id)
                    if st.value is not None:
                        defaults[st.target.id] = (k, st.value)
        return names, defaults, is_nt

    @staticmethod
    def _class_slot(rc, attr):
        """(class, initial value expression) of a plain class attribute `attr` found on rc's MRO"""
        for k in rc.mro():
            for st in k.node.body:
                if isinstance(st, ast.Assign) and any(isinstance(t, ast.Name) and t.id == attr for t in st.targets):
                    return k, st.value
                if isinstance(st, ast.AnnAssign) and isinstance(st.target, ast.Name) and st.target.id == attr and st.value is not None:
                    return k, st.value
        return None

    def _keep(self, s, v, where, line):
        """the value is stored where it outlives this call"""
        for ci in self._cells_of(v):
            s.heap[ci].kept = s.heap[ci].kept or f'the table is kept in {where} (line {int(line)}) beyond this load'

    @classmethod
    def _cells_of(cls, v):
        """ids of the dict cells reachable from a value (through tuples, lists and record fields)"""
        if not isinstance(v, tuple) or not v:
            return []
        if v[0] == 'cell':
            return [v[1]]
        if v[0] in ('tuple', 'ctx'):
            return [c for x in (v[1] if v[0] == 'tuple' else [v[1]]) for c in cls._cells_of(x)]
        if v[0] == 'rec':
            return [c for _, x in v[2] for c in cls._cells_of(x)]
        return []

    @staticmethod
    def _record_frozen(rc) -> bool:
        for k in rc.mro():
            for d in k.node.decorator_list:
                if 'dataclass' in ast.unparse(d):
                    fz = kwarg(d, 'frozen') if isinstance(d, ast.Call) else None
                    if isinstance(fz, ast.Constant) and fz.value is True:
                        return True
        return False

    @staticmethod
    def _elements(v):
        """the elements of a sequence value, in iteration order; None when v is not a sequence the execution knows"""
        if isinstance(v, tuple) and v[0] == 'tuple':
            return list(v[1])
        if isinstance(v, tuple) and v[0] == 'rec' and v[3]:
            return [x for _, x in v[2]]
        return None

    @staticmethod
    def _layer_role(name):
        """the layer an identifier is named after (lexical; used only to *explain* a wrong order, never to decide)"""
        n = name.lower()
        if 'default' in n:
            return 'D'
        if any(k in n for k in ('kw', 'keyword', 'override')):
            return 'K'
        if any(k in n for k in ('file', 'toml', 'user')):
            return 'F'
        return None

    def _note_binding(self, s, fi, name, v, line, text, what):
        """remember that a value holding exactly one layer was bound to a field / parameter named after another one"""
        if isinstance(v, tuple) and v[0] == 'cell' and len(s.heap[v[1]].layers) == 1:
            role, lay = self._layer_role(name), s.heap[v[1]].layers[0]
            if role is not None and role != lay:
                nm = {'D': 'the defaults', 'F': "the file's data", 'K': 'the keyword arguments'}
                s.notes = s.notes + ((fi, line, f'`{text}` (line {line}) hands {nm[lay]} to {what} `{name}`'),)

    def _construct(self, fi, c, rc, st, depth):
        """ClassName(...) of a repository class that is not a pydantic model: the instance, by field"""
        shape = self._record_shape(rc)
        if shape is None:
            init = rc.find_method('__init__')
            if init is None or depth >= 4:
                return None
            return self._inline(fi, c, init, st, depth, recv=('rec', rc, (), False), ctor=True)
        names, defaults, is_nt = shape
        if any(isinstance(a, ast.Starred) for a in c.args) or any(k.arg is None for k in c.keywords) or len(c.args) > len(names):
            raise _Undecided(f'`{norm(c)[:50]}`: record built from star arguments')
        exprs = {names[i]: (fi, a) for i, a in enumerate(c.args)}
        for kw in c.keywords:
            exprs[kw.arg] = (fi, kw.value)

        def gen():
            outs = [([], st)]
            for nm in names:
                if nm in exprs:
                    src_fi, ex = exprs[nm]
                elif nm in defaults:
                    k, ex = defaults[nm]
                    src_fi = FunctionInfo('<class>', fi.node, k.module)
                    fac = kwarg(ex, 'default_factory') if isinstance(ex, ast.Call) and call_name(ex).split('.')[-1] == 'field' else None
                    if fac is not None:
                        ex = ast.copy_location(ast.Call(func=fac, args=[], keywords=[]), ex)
                else:
                    outs = [(vals + [(nm, ('unk', nm))], s) for vals, s in outs]
                    continue
                outs = [(vals + [(nm, v)], s2) for vals, s in outs for v, s2 in self.eval(src_fi, ex, s, depth)]
            post = rc.find_method('__post_init__')
            for vals, s in outs:
                for nm, v in vals:
                    if nm in exprs:
                        self._note_binding(s, fi, nm, v, c.lineno, norm(c)[:70], 'field')
                rec = ('rec', rc, tuple(vals), is_nt)
                if post is not None and not is_nt and depth < 4:
                    empty = ast.copy_location(ast.Call(func=c.func, args=[], keywords=[]), c)
                    yield from self._inline(fi, empty, post, s, depth, recv=rec, ctor=True)
                else:
                    yield rec, s
        return gen()

    def _rec_attr(self, fi, e, v, s, depth):
        """value of `<record>.attr`"""
        flds = dict(v[2])
        if e.attr in flds:
            yield flds[e.attr], s
            return
        if e.attr == '_fields' and v[3]:
            yield ('tuple', [('const', n) for n, _ in v[2]]), s
            return
        meth = v[1].find_method(e.attr)
        if meth is not None and any('property' in d for d in meth.decorators()) and depth < 4:
            empty = ast.copy_location(ast.Call(func=e, args=[], keywords=[]), e)
            yield from self._inline(fi, empty, meth, s, depth, recv=v)
            return
        yield ('unk', norm(e)[:30]), s

    def _merge(self, st, base, over, how, line, fi=None):
        """in-place merge of cell `over` into cell `base`"""
        b, o = st.heap[base[1]], st.heap[over[1]]
        if o.unknown and not _real(b.unknown):
            b.unknown = o.unknown
        if b.kept and not b.stale and [x for x in o.layers if x not in st.absent and x not in b.layers]:
            nm = {'D': 'defaults', 'F': 'file', 'K': 'keyword arguments'}
            b.stale = _At(f'{b.kept}, and line {int(line)} merges the {"+".join(nm[x] for x in dict.fromkeys(o.layers) if x not in st.absent)} '
                          'into it in place: what one load merges is still there for the next load (after a reset, or after a failed '
                          'load), whose effective values are then no longer the packaged defaults overlaid by its own file and keyword '
                          'arguments')
            b.stale.fi, b.stale.line = fi, line
        if o.stale and not b.stale:
            b.stale = o.stale
        if o.kept and not b.kept:
            b.kept = o.kept     # the merge stores the overlay's sub-tables into the base: they are shared from now on
        if o.shallow and not b.shallow:
            b.shallow = o.shallow
        if how == 'shallow':
            live_b = [x for x in b.layers if x not in st.absent]
            live_o = [x for x in o.layers if x not in st.absent]
            if live_b and live_o and not b.shallow:
                nm = {'D': 'defaults', 'F': 'file', 'K': 'keyword arguments'}
                b.shallow = _At(f'line {int(line)}: {"+".join(nm[x] for x in live_b)} and {"+".join(nm[x] for x in live_o)} are combined '
                                'one level deep')
                b.shallow.fi, b.shallow.line = fi, line
        b.layers = b.layers + o.layers

    def _facts(self, fi, test, truth, st):
        """states after `test` evaluated to `truth`: learns 'no file given' / 'no keyword arguments'"""
        if isinstance(test, ast.UnaryOp) and isinstance(test.op, ast.Not):
            yield from self._facts(fi, test.operand, not truth, st)
            return
        if isinstance(test, ast.BoolOp):
            conj = isinstance(test.op, ast.And) == truth
            if conj:
                sts = [st]
                for v in test.values:
                    sts = [s2 for s in sts for s2 in self._facts(fi, v, truth, s)]
                yield from sts
                return
            cur = [st]
            for v in test.values:
                for s in cur:
                    yield from self._facts(fi, v, truth, s)
                cur = [s2 for s in cur for s2 in self._facts(fi, v, not truth, s)]
            return
        layer = None
        positive = None   # truth of test means "layer present"
        if isinstance(test, ast.Compare) and len(test.ops) == 1 and isinstance(test.comparators[0], ast.Constant) \
                and test.comparators[0].value is None and isinstance(test.ops[0], (ast.Is, ast.IsNot, ast.Eq, ast.NotEq)):
            v = self._peek(fi, test.left, st)
            if v == ('path', 'F'):
                layer, positive = 'F', isinstance(test.ops[0], (ast.IsNot, ast.NotEq))
            elif isinstance(v, tuple) and v and v[0] in ('none', 'cell', 'tuple', 'rec', 'const', 'fh', 'text', 'path', 'class'):
                # the value is at hand: the test is decided
                holds = (v[0] == 'none') == isinstance(test.ops[0], (ast.Is, ast.Eq))
                if holds == truth:
                    yield st.fork()
                return
        else:
            e = test
            if isinstance(e, ast.Call) and call_name(e) in ('len', 'bool') and len(e.args) == 1:
                e = e.args[0]
            if isinstance(e, ast.Compare) and len(e.ops) == 1 and isinstance(e.comparators[0], ast.Constant) and e.comparators[0].value == 0 \
                    and isinstance(e.left, ast.Call) and call_name(e.left) == 'len' and isinstance(e.ops[0], (ast.Gt, ast.NotEq, ast.Eq)):
                v = self._peek(fi, e.left.args[0], st) if e.left.args else None
                pos = not isinstance(e.ops[0], ast.Eq)
            else:
                v = self._peek(fi, e, st)
                pos = True
            if v == ('path', 'F'):
                layer, positive = 'F', pos
            elif isinstance(v, tuple) and v[0] == 'cell' and st.heap[v[1]].layers == ('K',) and not st.heap[v[1]].shallow:
                layer, positive = 'K', pos
        if layer is None:
            yield st.fork()
            return
        present = positive == truth
        if (present and layer in st.absent) or (not present and layer in st.given):
            return   # contradicts what this path already knows
        s2 = st.fork()
        if present:
            s2.given = s2.given | {layer}
        else:
            s2.absent = s2.absent | {layer}
        yield s2

    def _peek(self, fi, e, st):
        """value of a side-effect-free expression without forking (None when it is not that simple)"""
        if isinstance(e, ast.Name):
            if e.id in st.env:
                return st.env[e.id]
            if (fi.module.relpath, e.id) in st.glob:
                return st.glob[(fi.module.relpath, e.id)]
            return self._initial_global(fi, e.id)
        if isinstance(e, ast.Attribute) and isinstance(e.value, ast.Name):
            v = st.env.get(e.value.id, self._class_value(fi, e.value.id))
            if isinstance(v, tuple) and v[0] == 'class':
                slot = self._class_slot(v[1], e.attr)
                if slot is not None:
                    if (slot[0].name, e.attr) in st.glob:
                        return st.glob[(slot[0].name, e.attr)]
                    if isinstance(slot[1], ast.Constant) and slot[1].value is None:
                        return ('none',)
        return None

    def _initial_global(self, fi, name):
        """('none',) for a module global that starts as None and is written only by the functions of this load (the
        execution is the first load of a process; what it keeps there is marked as kept)"""
        r = self.prog.resolve_name(fi.module, name)
        if isinstance(r, tuple) and r[0] == 'const' and name != GLOBAL:
            init = r[1].constants[r[2]]
            if isinstance(init, ast.Constant) and init.value is None:
                writers = [f for f in r[1].functions.values()
                           if any(isinstance(n, ast.Global) and name in n.names for n in walk_no_nested(f.node))]
                if self._load_side is None:
                    self._load_side = {(f.file, f.qualname) for f in closure(self.prog, [self.ld])}
                if all((f.file, f.qualname) in self._load_side for f in writers):
                    return ('none',)
        return None

    # -- expressions ---------------------------------------------------------------------------------------------------
    def eval(self, fi, e, st, depth=0):
        """yields (value, state)"""
        self.count += 1
        if self.count > 20000:
            raise _Undecided('symbolic execution of load does not terminate in reasonable time')
        if e is None:
            yield None, st
            return
        if isinstance(e, ast.NamedExpr):
            for v, s in self.eval(fi, e.value, st, depth):
                s.env[e.target.id] = v
                yield v, s
            return
        if isinstance(e, ast.Constant):
            yield (('none',) if e.value is None else ('const', e.value)), st
            return
        if isinstance(e, ast.Name):
            if e.id in st.env:
                yield st.env[e.id], st
                return
            if (fi.module.relpath, e.id) in st.glob:
                yield st.glob[(fi.module.relpath, e.id)], st
                return
            r = self.prog.resolve_name(fi.module, e.id)
            if isinstance(r, ClassInfo):
                yield ('class', r), st
                return
            if isinstance(r, tuple) and r[0] == 'const':
                yield from self.eval(FunctionInfo('<module>', fi.node, r[1]), r[1].constants[r[2]], st, depth)
                return
            yield ('unk', e.id), st
            return
        if isinstance(e, ast.IfExp):
            for truth, branch in ((True, e.body), (False, e.orelse)):
                for s in self._facts(fi, e.test, truth, st):
                    yield from self.eval(fi, branch, s, depth)
            return
        if isinstance(e, ast.BoolOp) and isinstance(e.op, ast.Or) and len(e.values) == 2:
            # `x or {}`: x when it is given, else the other
            for s in self._facts(fi, e.values[0], True, st):
                yield from self.eval(fi, e.values[0], s, depth)
            for s in self._facts(fi, e.values[0], False, st):
                yield from self.eval(fi, e.values[1], s, depth)
            return
        if isinstance(e, ast.Dict):
            yield from self._shallow_parts(fi, [(k, v) for k, v in zip(e.keys, e.values)], st, e.lineno, depth)
            return
        if isinstance(e, ast.BinOp) and isinstance(e.op, ast.BitOr):
            yield from self._shallow_parts(fi, [(None, e.left), (None, e.right)], st, e.lineno, depth)
            return
        if isinstance(e, ast.BinOp) and isinstance(e.op, ast.Div):
            ss = self._const_strings(fi, e)
            if any('default_config' in s for s in ss):
                yield ('path', 'D'), st
                return
            for v, s in self.eval(fi, e.left, st, depth):
                yield (v if isinstance(v, tuple) and v[0] == 'path' else ('unk', 'path')), s
            return
        if isinstance(e, (ast.Tuple, ast.List)) and not any(isinstance(x, ast.Starred) for x in e.elts):
            outs = [([], st)]
            for x in e.elts:
                outs = [(vals + [v], s2) for vals, s in outs for v, s2 in self.eval(fi, x, s, depth)]
            for vals, s in outs:
                yield (('tuple', vals) if isinstance(e, ast.Tuple) else ('tuple', vals, 'list')), s
            return
        if isinstance(e, ast.BinOp) and isinstance(e.op, ast.Add):
            for a, s1 in self.eval(fi, e.left, st, depth):
                for b, s2 in self.eval(fi, e.right, s1, depth):
                    ea, eb = self._elements(a), self._elements(b)
                    if ea is not None and eb is not None:
                        yield ('tuple', ea + eb) + tuple(a[2:3] if a[0] == 'tuple' else ()), s2
                    else:
                        yield ('unk', norm(e)[:30]), s2
            return
        if isinstance(e, (ast.ListComp, ast.GeneratorExp)) and len(e.generators) == 1 and not e.generators[0].is_async:
            gen = e.generators[0]
            for itv, s0 in self.eval(fi, gen.iter, st, depth):
                seq = self._elements(itv)
                if seq is None:
                    for ci in {c for x in ast.walk(e) if isinstance(x, ast.Name) for c in self._cells_of(s0.env.get(x.id))}:
                        s0.heap[ci].unknown = _real(s0.heap[ci].unknown) or f'line {e.lineno}: used in a comprehension over a sequence the execution does not know'
                    yield ('unk', 'comprehension'), s0
                    continue
                bound = [n.id for n in ast.walk(gen.target) if isinstance(n, ast.Name)]
                saved = {n: s0.env[n] for n in bound if n in s0.env}
                outs = [([], s0)]
                for el in seq:
                    nxt = []
                    for vals, s in outs:
                        s = s.fork()
                        self._assign(gen.target, el, s)
                        kept = [s]
                        for cond in gen.ifs:
                            kept = [s2 for s1 in kept for s2 in self._facts(fi, cond, True, s1)]
                        dropped, cur = [], [s]
                        for cond in gen.ifs:
                            dropped += [s2 for s1 in cur for s2 in self._facts(fi, cond, False, s1)]
                            cur = [s2 for s1 in cur for s2 in self._facts(fi, cond, True, s1)]
                        for s1 in kept:
                            nxt += [(vals + [v], s2) for v, s2 in self.eval(fi, e.elt, s1, depth)]
                        nxt += [(vals, s1) for s1 in dropped]
                    outs = nxt
                    if len(outs) > self.LIMIT:
                        raise _Undecided('too many paths through a comprehension in load')
                for vals, s in outs:
                    for n in bound:
                        s.env.pop(n, None)
                    s.env.update(saved)
                    yield ('tuple', vals) + (('list',) if isinstance(e, ast.ListComp) else ()), s
            return
        if isinstance(e, ast.Attribute):
            for v, s in self.eval(fi, e.value, st, depth):
                if isinstance(v, tuple) and v[0] == 'rec':
                    yield from self._rec_attr(fi, e, v, s, depth)
                elif isinstance(v, tuple) and v[0] == 'class' and self._class_slot(v[1], e.attr) is not None:
                    # a class attribute: what this load stored there, else what the class body says (first load of the process)
                    k, init = self._class_slot(v[1], e.attr)
                    if (k.name, e.attr) in s.glob:
                        yield s.glob[(k.name, e.attr)], s
                    else:
                        yield from self.eval(FunctionInfo('<class>', fi.node, k.module), init, s, depth)
                elif isinstance(v, tuple) and v[0] == 'path':
                    yield v, s       # .parent / .name of a path keep telling which file it is about
                else:
                    yield ('unk', norm(e)[:30]), s
            return
        if isinstance(e, ast.Subscript):
            idx = e.slice
            if isinstance(idx, ast.UnaryOp) and isinstance(idx.op, ast.USub) and isinstance(idx.operand, ast.Constant) \
                    and isinstance(idx.operand.value, int):
                idx = ast.Constant(-idx.operand.value)
            if isinstance(idx, ast.Slice):
                def bound(b):
                    if b is None:
                        return None
                    if isinstance(b, ast.UnaryOp) and isinstance(b.op, ast.USub) and isinstance(b.operand, ast.Constant) \
                            and isinstance(b.operand.value, int):
                        return -b.operand.value
                    if isinstance(b, ast.Constant) and isinstance(b.value, int) and not isinstance(b.value, bool):
                        return b.value
                    return 'x'
                lo, hi, step = bound(idx.lower), bound(idx.upper), bound(idx.step)
                for v, s in self.eval(fi, e.value, st, depth):
                    seq = self._elements(v)
                    if seq is not None and 'x' not in (lo, hi, step) and step != 0:
                        yield ('tuple', seq[lo:hi:step]) + (('list',) if v[0] == 'tuple' and v[2:] == ('list',) else ()), s
                    else:
                        yield ('unk', norm(e)[:30]), s
                return
            if isinstance(idx, ast.Constant) and isinstance(idx.value, int) and not isinstance(idx.value, bool):
                for v, s in self.eval(fi, e.value, st, depth):
                    seq = self._elements(v)
                    if seq is not None and -len(seq) <= idx.value < len(seq):
                        yield seq[idx.value], s
                    else:
                        yield ('unk', norm(e)[:30]), s
                return
        if isinstance(e, ast.Call):
            yield from self._call(fi, e, st, depth)
            return
        yield ('unk', norm(e)[:30]), st

    def _shallow_parts(self, fi, parts, st, line, depth):
        """{**a, **b} / a | b / dict(a, **b): a fresh dict, combined one level deep"""
        outs = [([], st)]
        for k, v in parts:
            if k is not None:
                outs = [(vals + [('literal', norm(k))], s) for vals, s in outs]
                continue
            outs = [(vals + [val], s2) for vals, s in outs for val, s2 in self.eval(fi, v, s, depth)]
        for vals, s in outs:
            res = s.new_cell()
            for val in vals:
                if isinstance(val, tuple) and val[0] == 'cell':
                    self._merge(s, res, val, 'shallow', line, fi)
                elif isinstance(val, tuple) and val[0] == 'literal':
                    s.heap[res[1]].unknown = s.heap[res[1]].unknown or _Extra(f'line {line}: literal entry {val[1]} added to the data')
                else:
                    s.heap[res[1]].unknown = _real(s.heap[res[1]].unknown) or f'line {line}: cannot tell what `{val}` contributes'
            yield res, s

    def _call(self, fi, c, st, depth):
        cn = call_name(c)
        last = cn.split('.')[-1]
        # final validation
        if isinstance(c.func, ast.Attribute) and c.func.attr in ('model_validate', 'parse_obj') and c.args:
            for v, s in self.eval(fi, c.args[0], st, depth):
                self._final(c, v, s)
                yield ('config',), s
            return
        if isinstance(c.func, ast.Name) and c.func.id in ('cls', 'Config') and not c.args and len(c.keywords) == 1 and c.keywords[0].arg is None:
            for v, s in self.eval(fi, c.keywords[0].value, st, depth):
                self._final(c, v, s)
                yield ('config',), s
            return
        # an instance of a repository class that is not a model: NamedTuple / dataclass / plain class, kept by field
        rc = None
        if isinstance(c.func, ast.Name) and c.func.id in st.env:
            held = st.env[c.func.id]      # `cls(...)` inside a classmethod of the record
            rc = held[1] if isinstance(held, tuple) and held[0] == 'class' else None
        elif isinstance(c.func, (ast.Name, ast.Attribute)):
            rc = self.prog.resolve_class_expr(fi.module, c.func)
        if rc is not None and not any(b.split('.')[-1] in ('BaseModel', 'CIBaseModel') for k in rc.mro() for b in k.base_exprs):
            built = self._construct(fi, c, rc, st, depth)
            if built is not None:
                yield from built
                return
        if cn == 'getattr' and len(c.args) >= 2:
            for v, s in self.eval(fi, c.args[0], st, depth):
                for nv, s2 in self.eval(fi, c.args[1], s, depth):
                    if isinstance(v, tuple) and v[0] == 'rec' and isinstance(nv, tuple) and nv[0] == 'const' and nv[1] in dict(v[2]):
                        yield dict(v[2])[nv[1]], s2
                    else:
                        yield ('unk', cn), s2
            return
        if cn in ('tuple', 'list') and not c.args and not c.keywords:
            yield ('tuple', []) + (('list',) if cn == 'list' else ()), st
            return
        if cn in ('reversed', 'tuple', 'list', 'iter') and len(c.args) == 1 and not c.keywords:
            for v, s in self.eval(fi, c.args[0], st, depth):
                seq = self._elements(v)
                if seq is None:
                    yield ('unk', cn), s
                else:
                    yield ('tuple', seq[::-1] if cn == 'reversed' else seq) + (('list',) if cn == 'list' else ()), s
            return
        if last == 'reduce' and cn in ('reduce', 'functools.reduce') and len(c.args) in (2, 3) and not c.keywords:
            # reduce(f, seq[, init]) over a sequence the execution knows: f(...f(f(init, s0), s1)..., sn)
            for sv, s in self.eval(fi, c.args[1], st, depth):
                seq = self._elements(sv)
                if seq is None:
                    raise _Undecided(f'`{norm(c)[:50]}`: reduce over a sequence that is not known')
                accs = list(self.eval(fi, c.args[2], s, depth)) if len(c.args) == 3 else ([(seq[0], s)] if seq else [])
                rest = seq if len(c.args) == 3 else seq[1:]
                for el in rest:
                    nxt = []
                    for acc, s1 in accs:
                        s1.env['@acc'], s1.env['@el'] = acc, el
                        step = ast.copy_location(ast.Call(func=c.args[0], args=[ast.Name('@acc', ast.Load()), ast.Name('@el', ast.Load())],
                                                          keywords=[]), c)
                        ast.fix_missing_locations(step)
                        nxt += list(self._call(fi, step, s1, depth))
                    accs = nxt
                yield from accs
            return
        callee = resolve_call(self.prog, fi, c)
        # the recursive merge
        if callee is not None and (callee.file, callee.qualname) in self.merge_fns:
            mf = self.merge_fns[(callee.file, callee.qualname)]
            self.used.add((callee.file, callee.qualname))
            pos = [p for p in callee.params if p not in ('self', 'cls')]
            args = {}
            for i, a in enumerate(c.args[:2]):
                args[pos[i]] = a
            for kw in c.keywords:
                if kw.arg in pos:
                    args[kw.arg] = kw.value
            if mf.base in args and mf.overlay in args:
                for bv, s1 in self.eval(fi, args[mf.base], st, depth):
                    for ov, s2 in self.eval(fi, args[mf.overlay], s1, depth):
                        if isinstance(bv, tuple) and bv[0] == 'cell' and isinstance(ov, tuple) and ov[0] == 'cell':
                            if bv[1] != ov[1]:
                                self._merge(s2, bv, ov, 'deep', c.lineno, fi)
                            yield (bv if mf.returns_base else ('none',)), s2
                        elif isinstance(bv, tuple) and bv[0] == 'cell':
                            s2.heap[bv[1]].unknown = _real(s2.heap[bv[1]].unknown) or f'line {c.lineno}: cannot tell what `{norm(args[mf.overlay])[:40]}` holds'
                            yield bv, s2
                        else:
                            r = s2.new_cell(unknown=f'line {c.lineno}: cannot tell what `{norm(args[mf.base])[:40]}` holds')
                            yield r, s2
                return
        # reading TOML
        if last in ('load', 'loads') and cn.split('.')[0] in ('tomllib', 'tomli', 'toml', 'rtoml') and c.args:
            for v, s in self.eval(fi, c.args[0], st, depth):
                if isinstance(v, tuple) and v[0] in ('fh', 'text', 'path') and v[1] in ('D', 'F'):
                    yield s.new_cell((v[1],)), s
                else:
                    yield s.new_cell(unknown=f'line {c.lineno}: TOML read from an unidentified source `{norm(c.args[0])[:40]}`'), s
            return
        if cn in ('open', 'io.open') and c.args:
            for v, s in self.eval(fi, c.args[0], st, depth):
                yield (('fh', v[1]) if isinstance(v, tuple) and v[0] == 'path' else ('unk', 'file')), s
            return
        if isinstance(c.func, ast.Attribute) and c.func.attr in ('open', 'read_text', 'read_bytes', 'decode', 'read') and callee is None:
            for v, s in self.eval(fi, c.func.value, st, depth):
                if isinstance(v, tuple) and v[0] in ('path', 'fh', 'text'):
                    yield (('fh' if c.func.attr == 'open' else 'text'), v[1]), s
                else:
                    yield ('unk', cn), s
            return
        if cn in ('Path', 'pathlib.Path', 'str', 'os.fspath', 'os.path.expanduser', 'os.path.abspath', 'os.fsdecode') and len(c.args) >= 1:
            ss = self._const_strings(fi, c)
            if any('default_config' in s for s in ss):
                yield ('path', 'D'), st
                return
            for v, s in self.eval(fi, c.args[0], st, depth):
                yield (v if isinstance(v, tuple) and v[0] == 'path' else ('unk', 'path')), s
            return
        if isinstance(c.func, ast.Attribute) and c.func.attr in ('resolve', 'expanduser', 'absolute', 'joinpath', 'with_suffix') and callee is None:
            ss = self._const_strings(fi, c)
            if any('default_config' in s for s in ss):
                yield ('path', 'D'), st
                return
            for v, s in self.eval(fi, c.func.value, st, depth):
                yield (v if isinstance(v, tuple) and v[0] == 'path' else ('unk', 'path')), s
            return
        if cn in ('files', 'importlib.resources.files', 'as_file', 'importlib.resources.as_file') or last in ('files', 'as_file'):
            ss = self._const_strings(fi, c)
            yield (('path', 'D') if any('default_config' in s for s in ss) else ('pkg',)), st
            return
        # copies
        if cn in ('dict', 'copy.deepcopy', 'deepcopy', 'copy.copy') or (isinstance(c.func, ast.Attribute) and c.func.attr == 'copy' and not c.args):
            src = c.args[0] if c.args else (c.func.value if isinstance(c.func, ast.Attribute) else None)
            if cn == 'dict' and not c.args and not c.keywords:
                yield st.new_cell(), st
                return
            if cn == 'dict' and c.keywords:
                parts = [(None, a) for a in c.args] + [(None if k.arg is None else ast.Constant(k.arg), k.value) for k in c.keywords]
                yield from self._shallow_parts(fi, parts, st, c.lineno, depth)
                return
            for v, s in self.eval(fi, src, st, depth):
                if isinstance(v, tuple) and v[0] == 'cell':
                    old = s.heap[v[1]]
                    yield s.new_cell(old.layers, old.shallow, old.unknown), s
                else:
                    yield v, s
            return
        if isinstance(c.func, ast.Attribute) and c.func.attr == 'update' and len(c.args) == 1 and callee is None:
            for bv, s1 in self.eval(fi, c.func.value, st, depth):
                for ov, s2 in self.eval(fi, c.args[0], s1, depth):
                    if isinstance(bv, tuple) and bv[0] == 'cell' and isinstance(ov, tuple) and ov[0] == 'cell':
                        self._merge(s2, bv, ov, 'shallow', c.lineno, fi)
                    elif isinstance(bv, tuple) and bv[0] == 'cell':
                        s2.heap[bv[1]].unknown = _real(s2.heap[bv[1]].unknown) or f'line {c.lineno}: update() with unidentified data'
                    yield ('none',), s2
            return
        if last in ('ChainMap',):
            parts = [(None, a) for a in reversed(c.args)]
            yield from self._shallow_parts(fi, parts, st, c.lineno, depth)
            return
        if _is_logging(c) or cn in ('len', 'list', 'sorted', 'isinstance', 'bool', 'repr', 'print', 'tuple', 'set', 'type'):
            yield ('unk', cn), st
            return
        if cn in ('zip', 'enumerate') and c.args and not any(isinstance(a, ast.Starred) for a in c.args) and \
                all(k.arg == 'strict' for k in c.keywords):
            outs = [([], st)]
            for a in c.args:
                outs = [(vals + [v], s2) for vals, s in outs for v, s2 in self.eval(fi, a, s, depth)]
            for vals, s in outs:
                seqs = [self._elements(v) for v in vals]
                if any(q is None for q in seqs) or (cn == 'enumerate' and len(seqs) != 1):
                    for ci in {x for v in vals for x in self._cells_of(v)}:
                        s.heap[ci].unknown = _real(s.heap[ci].unknown) or f'line {c.lineno}: passed to `{cn}` with a sequence the execution does not know'
                    yield ('unk', cn), s
                elif cn == 'zip':
                    yield ('tuple', [('tuple', list(t)) for t in zip(*seqs)]), s
                else:
                    yield ('tuple', [('tuple', [('const', i), x]) for i, x in enumerate(seqs[0])]), s
            return
        # a resolved repository helper: execute it
        if callee is not None and depth < 4 and callee.name not in ('__init__',):
            if self._is_generator(callee):
                # a generator: the sequence of what it yields on this path (a @contextmanager: what `with` binds)
                cm = any(d.split('(')[0].split('.')[-1] == 'contextmanager' for d in callee.decorators())
                for v, s in self._inline(fi, c, callee, st, depth, gen=True):
                    if cm:
                        yield (('ctx', v[1][0]) if len(v[1]) == 1 else ('unk', cn)), s
                    else:
                        yield v, s
                return
            yield from self._inline(fi, c, callee, st, depth)
            return
        # a method the resolver could not place: look at what the receiver is on this path
        starts = [(None, st)]
        if isinstance(c.func, ast.Attribute) and callee is None:
            starts = list(self.eval(fi, c.func.value, st, depth))
        for rv, s0 in starts:
            if isinstance(rv, tuple) and rv[0] == 'rec':
                if c.func.attr == '_replace' and rv[3] and not c.args and all(k.arg in dict(rv[2]) for k in c.keywords):
                    outs = [(dict(rv[2]), s0)]
                    for k in c.keywords:
                        outs = [(dict(d, **{k.arg: v}), s2) for d, s in outs for v, s2 in self.eval(fi, k.value, s, depth)]
                    for d, s in outs:
                        yield ('rec', rv[1], tuple((n, d[n]) for n, _ in rv[2]), rv[3]), s
                    continue
                meth = rv[1].find_method(c.func.attr)
                if meth is not None and depth < 4:
                    yield from self._inline(fi, c, meth, s0, depth, recv=rv)
                    continue
            if isinstance(rv, tuple) and rv[0] == 'tuple' and rv[2:] == ('list',) and c.func.attr in self._SEQ_MUTATORS:
                # a list held in a local is a value here; the names that hold this list see the change
                how, done = c.func.attr, False
                if how in ('append', 'extend') and len(c.args) == 1 and not c.keywords:
                    for av, s1 in self.eval(fi, c.args[0], s0, depth):
                        more = [av] if how == 'append' else self._elements(av)
                        if more is None:
                            raise _Undecided(f'`{norm(c)[:50]}`: list extended by something that is not known')
                        s1.replace(s1.current(rv), ('tuple', list(s1.current(rv)[1]) + more, 'list'))
                        yield ('none',), s1
                    done = True
                elif how == 'insert' and len(c.args) == 2 and isinstance(c.args[0], ast.Constant) and isinstance(c.args[0].value, int) \
                        and not c.keywords:
                    for av, s1 in self.eval(fi, c.args[1], s0, depth):
                        els = list(s1.current(rv)[1])
                        els.insert(c.args[0].value, av)
                        s1.replace(s1.current(rv), ('tuple', els, 'list'))
                        yield ('none',), s1
                    done = True
                elif how == 'reverse' and not c.args and not c.keywords:
                    s0.replace(rv, ('tuple', list(rv[1])[::-1], 'list'))
                    yield ('none',), s0
                    done = True
                if done:
                    continue
                raise _Undecided(f'`{norm(c)[:50]}`: a list of layers is changed in place')
            if isinstance(rv, tuple) and rv[0] == 'cell' and c.func.attr not in self._READS:
                s0.heap[rv[1]].unknown = _real(s0.heap[rv[1]].unknown) or f'line {c.lineno}: `{norm(c)[:40]}` may change the data'
            # unknown call: a dict handed to it may be changed by it
            outs = [([], s0)]
            for a in list(c.args) + [k.value for k in c.keywords]:
                outs = [(vals + [v], s2) for vals, s in outs for v, s2 in self.eval(fi, a, s, depth)]
            for vals, s in outs:
                for v in vals:
                    if isinstance(v, tuple) and v[0] == 'cell':
                        s.heap[v[1]].unknown = _real(s.heap[v[1]].unknown) or f'line {c.lineno}: passed to `{cn}`, which may change it'
                yield ('unk', cn), s

    @staticmethod
    def _is_generator(callee) -> bool:
        return any(isinstance(x, (ast.Yield, ast.YieldFrom)) for x in walk_no_nested(callee.node))

    def _inline(self, fi, c, callee, st, depth, recv=None, ctor=False, gen=False):
        """execute a resolved callee on the arguments of call c.  recv: the receiver when it has been evaluated already;
        ctor: the callee initialises recv (`__init__` / `__post_init__`) and the call's value is the instance"""
        params = callee.params
        a = callee.node.args
        decs = callee.decorators()
        is_static = any('staticmethod' in d for d in decs)
        is_clsm = any('classmethod' in d for d in decs)
        implicit = 1 if callee.cls is not None and not is_static and (isinstance(c.func, ast.Attribute) or ctor) else 0
        starts = [(recv, st)]
        if implicit and not is_clsm and recv is None and isinstance(c.func, ast.Attribute):
            r = c.func.value
            if isinstance(r, ast.Name) and r.id == 'cls' or self.prog.resolve_class_expr(fi.module, r) is not None:
                implicit = 0      # Class.method(obj, ...): the instance is the first argument
            elif not (isinstance(r, ast.Call) and call_name(r) == 'super'):
                starts = list(self.eval(fi, r, st, depth))
        for rv, st in starts:
            target = callee
            if isinstance(rv, tuple) and rv[0] == 'rec' and not ctor and isinstance(c.func, ast.Attribute):
                target = rv[1].find_method(c.func.attr) or callee     # the method of the class the value really has
            if target is not callee:
                yield from self._inline(fi, c, target, st, depth, recv=rv, gen=self._is_generator(target))
                continue
            yield from self._enter(fi, c, callee, st, depth, implicit, rv, ctor, gen)

    def _enter(self, fi, c, callee, st, depth, implicit, rv, ctor, gen=False):
        params = callee.params
        a = callee.node.args
        names = params[implicit:]
        exprs = {}
        for i, x in enumerate(c.args):
            if isinstance(x, ast.Starred) or i >= len(names):
                raise _Undecided(f'call `{norm(c)[:50]}` with star arguments')
            exprs[names[i]] = x
        for kw in c.keywords:
            if kw.arg is None:
                if a.kwarg is not None:
                    exprs[a.kwarg.arg] = kw.value
                    continue
                raise _Undecided(f'call `{norm(c)[:50]}` with ** arguments')
            exprs[kw.arg] = kw.value
        pos = a.posonlyargs + a.args
        defaults = dict(zip([p.arg for p in pos[len(pos) - len(a.defaults):]], a.defaults))
        defaults.update({p.arg: d for p, d in zip(a.kwonlyargs, a.kw_defaults) if d is not None})
        env0 = {}
        if implicit and rv is not None and params:
            env0[params[0]] = rv
        elif implicit and params and any('classmethod' in d for d in callee.decorators()):
            # the class the method was called through: `Name.m()`, `cls.m()` inside another classmethod, `obj.m()`
            k = None
            if isinstance(c.func, ast.Attribute):
                r = c.func.value
                held = st.env.get(r.id) if isinstance(r, ast.Name) else None
                if isinstance(held, tuple) and held[0] == 'class':
                    k = held[1]
                elif isinstance(held, tuple) and held[0] == 'rec':
                    k = held[1]
                elif not (isinstance(r, ast.Name) and r.id in st.env):
                    k = self.prog.resolve_class_expr(fi.module, r)
            env0[params[0]] = ('class', k or callee.cls)
        states = [(env0, st)]
        for nm in names:
            ex = exprs.get(nm, defaults.get(nm))
            if ex is None:
                continue
            src_fi = fi if nm in exprs else callee
            nxt = []
            for env, s in states:
                for v, s2 in self.eval(src_fi, ex, s, depth):
                    if nm in exprs:
                        self._note_binding(s2, fi, nm, v, c.lineno, norm(c)[:70], 'parameter')
                    nxt.append((dict(env, **{nm: v}), s2))
            states = nxt
        for env, s in states:
            saved = s.env
            s.env = dict(env)
            if ctor and params:
                s.env['@ctor'] = params[0]
            if gen:
                s.env['@yield'] = ('tuple', [])
            for kind, v, s2 in self.exec_block(callee, callee.node.body, s, depth + 1):
                built = s2.env.get(params[0]) if ctor and params else None
                yielded = s2.env.get('@yield')
                s2.env = {k: s2.current(x) for k, x in saved.items()}
                yield (built if ctor else s2.current(yielded) if gen else s2.current(v) if kind == 'return' else ('none',)), s2

    # -- statements ------------------------------------------------------------------------------------------------------
    def exec_block(self, fi, body, st, depth=0):
        """yields (kind, value, state) with kind in {'fall', 'return'}"""
        states = [st]
        for stmt in body:
            nxt = []
            for s in states:
                for kind, v, s2 in self.exec_stmt(fi, stmt, s, depth):
                    if kind == 'fall':
                        nxt.append(s2)
                    else:
                        yield kind, v, s2
            states = nxt
            if len(states) > self.LIMIT:
                raise _Undecided('too many paths through load')
        for s in states:
            yield 'fall', None, s

    def _assign(self, target, v, s, fi=None):
        if isinstance(target, ast.Name):
            if fi is not None and any(isinstance(n, ast.Global) and target.id in n.names for n in walk_no_nested(fi.node)):
                s.glob[(fi.module.relpath, target.id)] = v
                self._keep(s, v, f'the module global `{target.id}`', target.lineno)
                return
            s.env[target.id] = v
        elif isinstance(target, ast.Attribute) and isinstance(target.value, ast.Name) \
                and isinstance(s.env.get(target.value.id, self._class_value(fi, target.value.id)), tuple) \
                and s.env.get(target.value.id, self._class_value(fi, target.value.id))[0] == 'class':
            k = s.env.get(target.value.id, self._class_value(fi, target.value.id))[1]
            slot = self._class_slot(k, target.attr)
            s.glob[((slot[0] if slot else k).name, target.attr)] = v
            self._keep(s, v, f'the class attribute `{k.name}.{target.attr}`', target.lineno)
        elif isinstance(target, (ast.Tuple, ast.List)) and self._elements(v) is not None \
                and len(self._elements(v)) == len(target.elts) and not any(isinstance(t, ast.Starred) for t in target.elts):
            for t, x in zip(target.elts, self._elements(v)):
                self._assign(t, x, s)
        elif isinstance(target, ast.Attribute) and isinstance(target.value, ast.Name) \
                and isinstance(s.env.get(target.value.id), tuple) and s.env[target.value.id][0] == 'rec':
            rec = s.env[target.value.id]
            if s.env.get('@ctor') != target.value.id:
                if rec[3] or self._record_frozen(rec[1]):
                    raise _Undecided(f'`{norm(target)[:40]}` of an immutable record is assigned')
                s.set_field(rec, target.attr, v)
                return
            flds = [(n, x) for n, x in rec[2] if n != target.attr] + [(target.attr, v)]
            s.env[target.value.id] = ('rec', rec[1], tuple(flds), rec[3])
        elif isinstance(target, (ast.Tuple, ast.List)):
            for t in target.elts:
                self._assign(t, ('unk', 'unpacked'), s)
        elif isinstance(target, ast.Subscript) and isinstance(target.value, ast.Name):
            tv = s.env.get(target.value.id)
            if isinstance(tv, tuple) and tv[0] == 'cell':
                s.heap[tv[1]].unknown = s.heap[tv[1]].unknown or _Extra(f'line {target.lineno}: entry {norm(target)[:40]} is set by hand')

    def _iterate(self, fi, stmt, st, depth):
        """(elements or None, state) for the sequence a `for` statement walks: a sequence the execution knows, or an
        instance whose class defines `__iter__` as a generator"""
        if stmt.orelse:
            yield None, st
            return
        for itv, s0 in self.eval(fi, stmt.iter, st, depth):
            seq = self._elements(itv)
            it = itv[1].find_method('__iter__') if seq is None and isinstance(itv, tuple) and itv[0] == 'rec' else None
            if it is not None and self._is_generator(it) and depth < 4:
                call = ast.copy_location(ast.Call(func=ast.Attribute(value=stmt.iter, attr='__iter__', ctx=ast.Load()), args=[], keywords=[]),
                                         stmt.iter)
                ast.fix_missing_locations(call)
                for v, s1 in self._inline(fi, call, it, s0, depth, recv=itv, gen=True):
                    yield self._elements(v), s1
            else:
                yield seq, s0

    def _class_value(self, fi, name):
        r = self.prog.resolve_name(fi.module, name) if fi is not None else None
        return ('class', r) if isinstance(r, ClassInfo) else None

    def exec_stmt(self, fi, stmt, st, depth):
        if isinstance(stmt, (ast.Pass, ast.Global, ast.Nonlocal, ast.Import, ast.ImportFrom, ast.Assert)):
            yield 'fall', None, st
        elif isinstance(stmt, ast.Expr):
            if isinstance(stmt.value, ast.Constant):
                yield 'fall', None, st
                return
            if isinstance(stmt.value, (ast.Yield, ast.YieldFrom)):
                if '@yield' not in st.env:
                    raise _Undecided(f'`{norm(stmt)[:50]}` outside a generator the execution entered')
                for v, s in self.eval(fi, stmt.value.value, st, depth):
                    more = [v if v is not None else ('none',)] if isinstance(stmt.value, ast.Yield) else self._elements(v)
                    if more is None:
                        raise _Undecided(f'`{norm(stmt)[:50]}`: yields from a sequence the execution does not know')
                    s.env['@yield'] = ('tuple', list(s.env['@yield'][1]) + more)
                    yield 'fall', None, s
                return
            for v, s in self.eval(fi, stmt.value, st, depth):
                yield 'fall', None, s
        elif isinstance(stmt, (ast.Assign, ast.AnnAssign)):
            if getattr(stmt, 'value', None) is None:
                yield 'fall', None, st
                return
            tgts = stmt.targets if isinstance(stmt, ast.Assign) else [stmt.target]
            for v, s in self.eval(fi, stmt.value, st, depth):
                for t in tgts:
                    self._assign(t, v, s, fi)
                yield 'fall', None, s
        elif isinstance(stmt, ast.AugAssign):
            if isinstance(stmt.op, ast.BitOr) and isinstance(stmt.target, ast.Name):
                for bv, s1 in self.eval(fi, stmt.target, st, depth):
                    for ov, s2 in self.eval(fi, stmt.value, s1, depth):
                        if isinstance(bv, tuple) and bv[0] == 'cell' and isinstance(ov, tuple) and ov[0] == 'cell':
                            self._merge(s2, bv, ov, 'shallow', stmt.lineno, fi)
                        yield 'fall', None, s2
            elif isinstance(stmt.op, ast.Add) and isinstance(stmt.target, ast.Name) and self._elements(st.env.get(stmt.target.id)) is not None:
                cur = st.env[stmt.target.id]
                if cur[0] != 'tuple':
                    raise _Undecided(f'`{norm(stmt)[:50]}`: a record of layers is extended')
                for ov, s2 in self.eval(fi, stmt.value, st, depth):
                    more = self._elements(ov)
                    if more is None:
                        raise _Undecided(f'`{norm(stmt)[:50]}`: sequence extended by something that is not known')
                    if cur[2:] == ('list',):    # in place: every name that holds this list sees it
                        now = s2.current(cur)
                        s2.replace(now, ('tuple', list(now[1]) + more, 'list'))
                    else:
                        s2.env[stmt.target.id] = ('tuple', list(cur[1]) + more)
                    yield 'fall', None, s2
            else:
                yield 'fall', None, st
        elif isinstance(stmt, ast.Return):
            for v, s in self.eval(fi, stmt.value, st, depth):
                yield 'return', v, s
        elif isinstance(stmt, ast.If):
            for truth, branch in ((True, stmt.body), (False, stmt.orelse)):
                for s in self._facts(fi, stmt.test, truth, st):
                    yield from self.exec_block(fi, branch, s, depth)
        elif isinstance(stmt, (ast.With, ast.AsyncWith)):
            states = [st]
            for it in stmt.items:
                nxt = []
                for s in states:
                    for v, s2 in self.eval(fi, it.context_expr, s, depth):
                        if isinstance(v, tuple) and v[0] == 'ctx':
                            v = v[1]
                        if it.optional_vars is not None:
                            self._assign(it.optional_vars, v, s2)
                        nxt.append(s2)
                states = nxt
            for s in states:
                yield from self.exec_block(fi, stmt.body, s, depth)
        elif isinstance(stmt, ast.Try):
            for kind, v, s in self.exec_block(fi, stmt.body, st, depth):
                if kind == 'fall':
                    for k2, v2, s2 in self.exec_block(fi, stmt.orelse, s, depth):
                        if k2 == 'fall':
                            yield from self.exec_block(fi, stmt.finalbody, s2, depth)
                        else:
                            yield k2, v2, s2
                else:
                    yield kind, v, s
        elif isinstance(stmt, ast.For):
            if isinstance(stmt.iter, (ast.Tuple, ast.List)) and not stmt.orelse:
                states = [st]
                for el in stmt.iter.elts:
                    nxt = []
                    for s in states:
                        for v, s2 in self.eval(fi, el, s, depth):
                            self._assign(stmt.target, v, s2)
                            for kind, rv, s3 in self.exec_block(fi, stmt.body, s2, depth):
                                if kind == 'fall':
                                    nxt.append(s3)
                                else:
                                    yield kind, rv, s3
                    states = nxt
                for s in states:
                    yield 'fall', None, s
            else:
                for seq, st in self._iterate(fi, stmt, st, depth):
                    if seq is not None:
                        # a sequence the execution knows (a tuple held in a local, the fields of a NamedTuple, ...)
                        states = [st]
                        for v in seq:
                            nxt = []
                            for s in states:
                                s2 = s.fork()
                                self._assign(stmt.target, v, s2)
                                for kind, rv, s3 in self.exec_block(fi, stmt.body, s2, depth):
                                    if kind == 'fall':
                                        nxt.append(s3)
                                    else:
                                        yield kind, rv, s3
                            states = nxt
                        for s in states:
                            yield 'fall', None, s
                        continue
                    # a loop over something else: whatever it touches is no longer known
                    for x in ast.walk(stmt):
                        if isinstance(x, ast.Name):
                            for ci in self._cells_of(st.env.get(x.id)):
                                cell = st.heap[ci]
                                cell.unknown = _real(cell.unknown) or (f'line {stmt.lineno}: used inside a loop over `{norm(stmt.iter)[:40]}`, '
                                                                       'a sequence the execution does not know')
                    yield 'fall', None, st
        elif isinstance(stmt, ast.Raise):
            return
        elif isinstance(stmt, (ast.FunctionDef, ast.ClassDef)):
            yield 'fall', None, st
        else:
            raise _Undecided(f'statement `{norm(stmt)[:50]}` in load')

    def _final(self, c, v, s):
        if isinstance(v, tuple) and v[0] == 'cell':
            cell = s.heap[v[1]]
            self.finals.append((c.lineno, cell.layers, cell.shallow, cell.unknown, s.absent, s.notes, cell.stale))
        else:
            self.finals.append((c.lineno, (), None, f'line {c.lineno}: cannot tell what `{norm(c.args[0] if c.args else c)[:40]}` holds', s.absent, s.notes, None))

    def run(self):
        ld = self.ld
        st = _State()
        a = ld.node.args
        for p in ld.params:
            st.env[p] = ('unk', p)
        if a.kwarg is not None:
            st.env[a.kwarg.arg] = st.new_cell(('K',))
        names = [x.arg for x in a.posonlyargs + a.args + a.kwonlyargs if x.arg not in ('cls', 'self')]
        if names:
            st.env[names[0]] = ('path', 'F')
        for _ in self.exec_block(ld, ld.node.body, st):
            pass
        return self.finals


def rule_precedence(ctx, prog, m):
    ld = m.func('Config.load')
    # candidate merge functions: two-parameter functions that walk one parameter mapping and store into the other one
    # under the same key.  Which of them load really uses is found by the execution (a merge can be reached through a
    # method of a record, through functools.reduce, through a property: none of these is a resolved call edge).
    merge_fns = {}
    reach = {(f.file, f.qualname) for f in closure(prog, [ld])}
    for fn in prog.all_functions():
        ps = [p for p in fn.params if p not in ('self', 'cls')]
        if len(ps) == 2 and fn is not ld and (fn.file, fn.qualname) not in merge_fns:
            mf = MergeFn(prog, fn)
            if mf.overlay is not None and any(
                    isinstance(t, ast.Subscript) and isinstance(t.value, ast.Name) and t.value.id == mf.base
                    for t, _, _ in stores_to(fn.node)) or (mf.overlay is not None and any(
                        isinstance(c.func, ast.Attribute) and isinstance(c.func.value, ast.Name) and c.func.value.id == mf.base
                        and c.func.attr in ('setdefault', 'update') for c in calls_in(fn.node))):
                merge_fns[(fn.file, fn.qualname)] = mf
    ex = LoadExec(ctx, prog, m, ld, merge_fns)
    failed = None
    try:
        finals = ex.run()
    except _Undecided as u:
        finals, failed = [], str(u)
    used = {k: mf for k, mf in merge_fns.items() if k in ex.used or (failed is not None and k in reach)}
    for (f, q), mf in sorted(used.items()):
        if mf.ok is None:
            ctx.undecided('C18-R4', mf.fi, 'recursive merge', mf.why)
        ctx.ob('C18-R4', mf.fi, f'{q}: recursive merge semantics (6 cases)', mf.ok, mf.why, line=mf.fi.node.lineno)
    if failed is not None:
        ctx.undecided('C18-R4', ld, 'effective data', failed)
    if not finals:
        ctx.undecided('C18-R4', ld, 'model_validate', 'no validation call reached by the symbolic execution of load')
    names = {'D': 'defaults', 'F': 'file', 'K': 'keyword arguments'}
    seen = set()
    n_bad = 0
    stale_seen = set()
    for line, layers, shallow, unknown, absent, notes, stale in finals:
        if stale and str(stale) not in stale_seen:
            stale_seen.add(str(stale))
            at = stale.fi if stale.fi is not None and not stale.fi.qualname.startswith('<') else ld
            ctx.ob('C18-R4', at, 'every load starts from freshly read data', False, str(stale), line=stale.line)
        live = [x for x in layers if x not in absent]
        dedup = []
        for x in live:
            if not dedup or dedup[-1] != x:
                dedup.append(x)
        want = [x for x in 'DFK' if x not in absent]
        desc = ' <- '.join(names[x] for x in dedup) or '{}'
        cond = ('no file given' if 'F' in absent else '') + (', ' if len(absent) == 2 else '') + ('no keyword arguments' if 'K' in absent else '')
        key = (desc, cond, bool(shallow), bool(unknown))
        if key in seen:
            continue
        seen.add(key)
        if unknown and not shallow and (dedup == want or _real(unknown)):
            # something the execution could not follow touched the data: it may be what supplies a layer that seems
            # to be missing or out of place, so nothing is claimed about the order either
            ctx.undecided('C18-R4', ld, f'effective data = {desc}', unknown)
        ok = dedup == want and not shallow and not unknown
        where = ld
        why = 'defaults overlaid by file overlaid by keyword arguments, each step recursive'
        if shallow:
            why = (f'a merge step is shallow ({shallow}): a keyword (or file) section replaces the whole section below it, so '
                   'nested keys set by the lower layer are lost')
            if getattr(shallow, 'fi', None) is not None and not shallow.fi.qualname.startswith('<'):
                where, line = shallow.fi, shallow.line     # the construct that merges one level deep
        elif dedup != want:
            missing = [names[x] for x in want if x not in dedup]
            why = (f'the data handed to validation is {desc}' + (f' (when {cond})' if cond else '') +
                   (f': {", ".join(missing)} never reach{"es" if len(missing) == 1 and missing[0] != "keyword arguments" else ""} it' if missing else
                    ': the order of precedence is not defaults, then file, then keyword arguments'))
            poss = {'D': 'the default', 'F': "the file's value", 'K': "the keyword's value"}
            inv = [(lo, hi) for a_, lo in enumerate(want) for hi in want[a_ + 1:]
                   if lo in dedup and hi in dedup and len(dedup) - 1 - dedup[::-1].index(lo) > len(dedup) - 1 - dedup[::-1].index(hi)]
            if inv:
                why += ' - where both are set, ' + ', '.join(f'{poss[lo]} wins over {poss[hi]}' for lo, hi in inv)
            if notes:
                # where a layer was put into a slot named after another layer: the construct to look at
                why += '; ' + '; '.join(dict.fromkeys(t for _, _, t in notes))
                if len({(f.file, ln) for f, ln, _ in notes}) == 1:
                    where, line = notes[0][0], notes[0][1]
        elif unknown:
            why = unknown
        ctx.ob('C18-R4', where, f'effective data = {desc}' + (f' [{cond}]' if cond else ''), ok, why, line=line)
        n_bad += not ok
    if used or not n_bad:
        # no recursive merge on the way to validation and nothing found wrong: the anchor is lost, not a pass
        ctx.floor('C18-R4/merge', len(used), 1, 'recursive merge function(s) used by Config.load')
    ctx.stats['load_paths'] = len(finals)


# ------------------------------------------------------------------------------------------------------------------
# R2: is a class of configuration values immutable?
# ------------------------------------------------------------------------------------------------------------------

def _all_base_exprs(c: ClassInfo):
    return [b for k in c.mro() for b in k.base_exprs]


def _value_kind(c: ClassInfo) -> str | None:
    """'model' (pydantic) | 'dataclass' | None (enum, NamedTuple, anything else: not judged)"""
    lasts = [b.split('[')[0].split('.')[-1] for b in _all_base_exprs(c)]
    if 'BaseModel' in lasts:
        return 'model'
    if any(x.endswith('Enum') or x == 'NamedTuple' for x in lasts):
        return None
    if any('dataclass' in ast.unparse(d) for k in c.mro() for d in k.node.decorator_list):
        return 'dataclass'
    return None


def _frozen_setting(prog, m, e, depth=0):
    """what a settings expression says about `frozen`: True | False | None (nothing) | 'unknown'.  Later entries of a
    display / call override earlier ones, as they do at run time."""
    if depth > 4:
        return 'unknown'

    def lit(v):
        if isinstance(v, ast.Constant) and isinstance(v.value, bool):
            return v.value
        if isinstance(v, ast.Name):
            r = prog.resolve_name(m, v.id)
            if isinstance(r, tuple) and r[0] == 'const':
                w = r[1].constants[r[2]]
                if isinstance(w, ast.Constant) and isinstance(w.value, bool):
                    return w.value
        return 'unknown'

    if isinstance(e, ast.Call) and call_name(e).split('.')[-1] in ('ConfigDict', 'dict'):
        res = None
        for a in e.args:
            r = _frozen_setting(prog, m, a, depth + 1)
            res = r if r is not None else res
        for kw in e.keywords:
            if kw.arg == 'frozen':
                res = lit(kw.value)
            elif kw.arg is None:
                r = _frozen_setting(prog, m, kw.value, depth + 1)
                res = r if r is not None else res
        return res
    if isinstance(e, ast.Dict):
        res = None
        for k, v in zip(e.keys, e.values):
            if k is None:
                r = _frozen_setting(prog, m, v, depth + 1)
                res = r if r is not None else res
            elif isinstance(k, ast.Constant):
                if k.value == 'frozen':
                    res = lit(v)
            else:
                res = 'unknown'
        return res
    if isinstance(e, ast.BinOp) and isinstance(e.op, ast.BitOr):
        r = _frozen_setting(prog, m, e.right, depth + 1)
        return r if r is not None else _frozen_setting(prog, m, e.left, depth + 1)
    if isinstance(e, ast.Name):
        r = prog.resolve_name(m, e.id)
        if isinstance(r, tuple) and r[0] == 'const':
            return _frozen_setting(prog, r[1], r[1].constants[r[2]], depth + 1)
        return 'unknown'
    if isinstance(e, ast.Attribute) and e.attr == 'model_config':
        k = prog.resolve_class_expr(m, e.value)     # `model_config = ConfigDict(**Base.model_config, ...)`
        if k is not None:
            fz, _ = _class_frozen(prog, k)
            return 'unknown' if fz is None else fz
    return 'unknown'


def _class_frozen(prog, c: ClassInfo):
    """(True | False | None, how).  pydantic merges the settings along the MRO, nearest class first; inside one class the
    class keywords (`class X(Base, frozen=True)`) override its model_config; a dataclass is frozen by its decorator."""
    if _value_kind(c) == 'dataclass':
        for k in c.mro():
            for d in k.node.decorator_list:
                if 'dataclass' in ast.unparse(d):
                    fz = kwarg(d, 'frozen') if isinstance(d, ast.Call) else None
                    ok = isinstance(fz, ast.Constant) and fz.value is True
                    return ok, f'@{ast.unparse(d)[:40]} on {k.name}'
    for k in c.mro():
        for kw in k.node.keywords:
            if kw.arg == 'frozen':
                if isinstance(kw.value, ast.Constant) and isinstance(kw.value.value, bool):
                    return kw.value.value, f'class keyword frozen={kw.value.value} on {k.name}'
                return None, f'class keyword frozen={norm(kw.value)[:30]} on {k.name} is not a literal'
        # a second assignment in one class body replaces the first (class_assignments keeps the last)
        assigned = k.class_assignments()
        if 'model_config' in assigned:
            v = assigned['model_config']
            fz = _frozen_setting(prog, k.module, v) if v is not None else None
            if fz == 'unknown':
                return None, f'cannot tell what `model_config = {norm(v)[:50]}` of {k.name} says about frozen'
            if fz is not None:
                return fz, f'model_config of {k.name} sets frozen={fz}'
    known = {k.name for k in c.mro()}
    foreign = [b for b in _all_base_exprs(c) if b.split('[')[0].split('.')[-1] not in known | {'BaseModel', 'Generic', 'ABC', 'object', 'Protocol'}]
    if foreign:
        return None, f'base class {foreign[0]} is not in the repository: cannot tell whether it freezes the model'
    return False, 'no class on its MRO (' + ' -> '.join(k.name for k in c.mro()) + ') sets frozen=True'


# ------------------------------------------------------------------------------------------------------------------

def run(ctx):
    rule_normalise(ctx)
    prog = ctx.prog
    m = prog.module(CORE)
    cfg = m.cls('Config')
    if GLOBAL not in m.constants:
        ctx.undecided('C18-R1', (m.relpath, '<module>'), GLOBAL, 'singleton global not found')

    # ---- R1 --------------------------------------------------------------
    pipeline = _validators(cfg, 'after')
    ctx.floor('C18-R1/pipeline', len(pipeline), 1, 'after-validators of Config')
    ctx.stats['after_validators_in_order'] = [f.qualname for f in pipeline]
    publishes = []
    nul = Nullness(prog, m)
    for fi in m.functions.values():
        for st in _global_stores(fi):
            v = getattr(st, 'value', None)
            is_none = isinstance(v, ast.Constant) and v.value is None
            if isinstance(v, ast.Name) and v.id in fi.params:
                # a setter: what it stores is what its callers hand it
                sites = [(f, c) for f in prog.all_functions() for c, g_ in callees(prog, f) if g_ is not None and g_.node is fi.node]
                kinds = {dict(nul.arg_nullness(f, fi, c)).get(v.id, 'U') for f, c in sites}
                is_none = bool(kinds) and kinds == {'N'}
            publishes.append((fi, st, is_none))
    pubs = [(fi, st) for fi, st, is_none in publishes if not is_none]
    ctx.floor('C18-R1', len(pubs), 1, 'publish sites of the singleton')

    def fallible(node):
        if node.stmt is None:
            return False
        if 'raise' in node.why_raise and isinstance(node.stmt, (ast.Raise, ast.Assert)):
            return True
        if 'call' not in node.why_raise:
            return False
        hs = {'stmt': [node.stmt], 'test': [getattr(node.stmt, 'test', None)], 'iter': [getattr(node.stmt, 'iter', None)],
              'with': [i.context_expr for i in getattr(node.stmt, 'items', [])],
              'match': [getattr(node.stmt, 'subject', None)]}.get(node.kind, [node.stmt])
        cs = [c for h in hs if h is not None for c in calls_in(h)]
        if node.kind == 'with':
            return True
        return any(not _is_logging(c) for c in cs)

    def heads_of(node):
        return [h for h in {'stmt': [node.stmt], 'test': [getattr(node.stmt, 'test', None)], 'iter': [getattr(node.stmt, 'iter', None)],
                            'with': [i.context_expr for i in getattr(node.stmt, 'items', [])],
                            'match': [getattr(node.stmt, 'subject', None)]}.get(node.kind, [node.stmt]) if h is not None]

    def failure_of(f, node):
        """(callee, exception) when the node calls a repository function that itself raises somewhere below; a
        `raise` statement names its own exception.  Only to pick the statement to show and to say how it fails."""
        if isinstance(node.stmt, ast.Raise) and node.kind == 'stmt':
            e = node.stmt.exc
            return ('', norm(e.func if isinstance(e, ast.Call) else e) if e is not None else 're-raise')
        for h in heads_of(node):
            for c in calls_in(h):
                callee = resolve_call(prog, f, c)
                if callee is None:
                    continue
                for g_ in closure(prog, [callee]):
                    for x in walk_no_nested(g_.node):
                        if isinstance(x, ast.Raise) and x.exc is not None:
                            return (g_.qualname, norm(x.exc.func if isinstance(x.exc, ast.Call) else x.exc))
        return None

    def worst(f, nodes):
        """of the fallible statements, the one to show: one that is known to raise, else the first one"""
        ranked = sorted(nodes, key=lambda n_: (failure_of(f, n_) is None, n_.line))
        n_ = ranked[0]
        fo = failure_of(f, n_)
        how = ''
        if fo is not None:
            how = f' ({fo[0]} raises {fo[1]})' if fo[0] else f' ({fo[1]})'
        return n_, how

    stage_of_pub = None
    for fi, st in pubs:
        # which pipeline stage does this function belong to?
        stage = None
        for i, v in enumerate(pipeline):
            if fi == v or fi in closure(prog, [v]):
                stage = i
        if stage is None:
            ctx.ob('C18-R1', fi, f'publish `{norm(st)}` inside the validation pipeline', False,
                   'the singleton is published outside Config\'s after-validators', line=st.lineno)
            continue
        stage_of_pub = stage if stage_of_pub is None else max(stage_of_pub, stage)
        last = stage == len(pipeline) - 1
        later = [v.qualname for v in pipeline[stage + 1:]]
        in_fin = any(isinstance(a, ast.Try) and any(st is s or _within(st, s) for s in a.finalbody)
                     for a in ancestors(st))
        in_exc = any(isinstance(a, ast.ExceptHandler) for a in ancestors(st))
        ok_stage = last and not in_fin and not in_exc
        why = 'published by the last after-validator, outside any finally/except'
        if not last:
            why = (f'published in {pipeline[stage].qualname}, but {later} run afterwards and can still '
                   'fail (e.g. FileNotFoundError from path resolution): a failed load leaves the system '
                   'configured and the next valid load is refused')
        elif in_fin or in_exc:
            why = 'published from a finally/except block: it also runs when validation failed'
        ctx.ob('C18-R1', fi, f'publish `{norm(st)}` is the last pipeline step', ok_stage, why, line=st.lineno)
        # nothing fallible after the publish inside its own function (and callers up to the validator)
        g = CFG(fi.node)
        pn = [n for n in g.nodes if n.stmt is st]
        for p in pn:
            after = g.reachable(p.id, labels={'n', 't', 'f'}) - {p.id}
            fall = [g.nodes[x] for x in after if fallible(g.nodes[x])]
            # accepted idiom: handler that unpublishes and re-raises
            covered = []
            for x in fall:
                ok_h = False
                for a in ancestors(x.stmt):
                    if isinstance(a, ast.Try):
                        for h in a.handlers:
                            resets = any(isinstance(s, ast.Assign) and norm(s.targets[0]) == GLOBAL and
                                         isinstance(s.value, ast.Constant) and s.value.value is None
                                         for s in h.body)
                            rer = isinstance(last_stmt(h.body), ast.Raise)
                            if resets and rer and (h.type is None or norm(h.type) in ('BaseException', 'Exception')):
                                ok_h = True
                if ok_h:
                    covered.append(x)
            bad = [x for x in fall if x not in covered]
            shown, how = worst(fi, bad) if bad else (None, '')
            ctx.ob('C18-R1', fi, 'nothing fallible follows the publish', not bad,
                   'only `return self` follows' if not bad else
                   f'`{shown.text()[:110]}` (line {int(shown.line)}) can fail{how} after `{norm(st)}` (line {st.lineno}) set the '
                   'singleton: a load that fails there leaves the system configured, and the next valid load is refused',
                   line=(shown.line if bad else st.lineno))
        if fi != pipeline[stage]:
            # published from a helper: the validator must not do fallible work after calling it
            v = pipeline[stage]
            gv = CFG(v.node)
            for n in gv.nodes:
                if n.stmt is not None and n.kind == 'stmt' and any(
                        resolve_call(prog, v, c) is not None and
                        (resolve_call(prog, v, c) == fi or fi in closure(prog, [resolve_call(prog, v, c)]))
                        for c in calls_in(n.stmt)):
                    after = gv.reachable(n.id, labels={'n', 't', 'f'}) - {n.id}
                    bad = [gv.nodes[x] for x in after if fallible(gv.nodes[x])]
                    shown, how = worst(v, bad) if bad else (None, '')
                    ctx.ob('C18-R1', v, f'nothing fallible after the publishing call {n.text()[:50]}', not bad,
                           'publishing helper is the last fallible step' if not bad else
                           f'`{shown.text()[:110]}` (line {int(shown.line)}) can fail{how} after the helper set the singleton: a load '
                           'that fails there leaves the system configured, and the next valid load is refused',
                           line=n.line)
    # subclass validators would run after the parent's
    for c in prog.subclasses_of('Config'):
        if c is not cfg and c.module.relpath.startswith('src/AEIC/config'):
            extra = _validators(c, 'after')
            ctx.ob('C18-R1', (c.file, c.name), 'subclass adds no later validator', not extra,
                   'none' if not extra else f'{[e.qualname for e in extra]} run after the publish')

    # ---- R3 guards, by null-ness ---------------------------------------------------------------------------------
    # (a) the pipeline: on every path to the publish the singleton has been seen to be None
    S = TOP
    for v in pipeline:
        S = nul.flow(v, S, collect=True)
    for fi, st in pubs:
        seen_states = nul.at_store.get(id(st))
        if seen_states is None:
            continue   # not reached from the pipeline: reported by R1
        ok = seen_states == ISNONE
        ctx.ob('C18-R3', fi, f'second load refused before `{norm(st)}`', ok,
               'on every path through the after-validators to the publish `_config is None` has been established; the '
               'other branch raises' if ok else
               'the publish can be reached while a configuration is already active: loading while one is active is not '
               'refused (or not on every path) and replaces the active configuration', line=st.lineno)
    # (b) every function that uses the singleton's value does so only where it is known to be set
    users = []
    for q, fi in sorted(m.functions.items()):
        if fi in pipeline or q not in nul.touch:
            continue
        nul.flow(fi, TOP, collect=True)
    for _, (fi, x, states) in sorted(nul.at_use.items(), key=lambda kv: (kv[1][1].lineno, kv[1][1].col_offset)):
        if fi in pipeline:
            continue
        users.append(fi)
        ok = states == ISSET or not states
        host = x
        while not isinstance(host, ast.stmt):
            host = host._parent
        ctx.ob('C18-R3', fi, f'use of the singleton in `{norm(host)[:60]}` only when set', ok,
               '`_config is None` has been excluded (the other branch raises) on every path to this use' if ok else
               'the singleton\'s value is used on a path where it may still be None: settings are reached (or a default is '
               'substituted) before any successful load', line=x.lineno)
    ctx.floor('C18-R3/uses', len(users), 1, 'uses of the singleton\'s value outside the pipeline')
    # (c) the public accessors return normally only when a configuration is active
    for qn in ('Config.get', 'ConfigProxy.__getattr__', 'ConfigProxy.__setattr__'):
        fi = m.func(qn)
        out = nul.flow(fi, TOP)
        ok = out == ISSET
        ctx.ob('C18-R3', fi, 'access refused while unconfigured', ok,
               'returns normally only on paths where `_config is None` has been excluded; the None branch raises'
               if ok else
               'the accessor can return normally while no configuration is active (no refusal on the None path): settings '
               'can be read (or written) before any successful load')
    # (d) reset leaves None on every path
    rs = m.func('Config.reset')
    out = nul.flow(rs, TOP)
    ok = out == ISNONE
    ctx.ob('C18-R3', rs, 'reset clears the singleton unconditionally', ok,
           'the singleton is None on every normal return of reset' if ok else 'reset does not (always) store None')
    # who may write the global
    for fi, st, is_none in publishes:
        ok = (is_none and fi.qualname == 'Config.reset') or (not is_none and fi.cls is cfg) or \
            (not is_none and any(fi in closure(prog, [v]) for v in pipeline)) or (is_none and _own_publication(st)) or \
            (is_none and isinstance(getattr(st, 'value', None), ast.Name))
        ctx.ob('C18-R3', fi, f'writer of the singleton: {norm(st)}', ok,
               'Config validator / reset' if ok else 'the singleton is written from an unexpected place',
               line=st.lineno, nontrivial=False)
    # the singleton may be cleared only by reset() itself, or by a failed load that clears
    # *its own* publication (guarded by an identity test against the instance being built)
    all_validators = _validators(cfg)
    ctx.stats['validators_all_modes'] = [f'{f.name}:{[norm(d_) for d_ in f.node.decorator_list][0][:40]}' for f in all_validators]
    def clears_at(fi, c):
        """the call can leave the singleton None although it was set before"""
        callee = resolve_call(prog, fi, c)
        if callee is None or callee.module is not m or not nul.relevant(callee):
            return False
        return 'N' in nul.flow(callee, ISSET, False, nul.arg_nullness(fi, callee, c))

    load_side = {(f.file, f.qualname) for f in closure(prog, [m.func('Config.load')] + all_validators)} | \
        {(f.file, f.qualname) for f in m.functions.values() if f.cls is cfg}
    for fi in prog.all_functions():
        if (fi.file, fi.qualname) not in load_side or fi.qualname == 'Config.reset':
            continue
        for c in calls_in(fi.node):
            if clears_at(fi, c):
                own = _own_publication(c)
                ctx.ob('C18-R3', fi, f'{call_name(c)}() called inside {fi.qualname}', own,
                       'clears only a publication made by this very load' if own else
                       ('the singleton is cleared on a path that is also taken when a load is *refused* because a '
                        'configuration is already active (the refusal is raised inside validation): a refused second load '
                        'wipes the active configuration'), line=c.lineno)
    for fi in m.functions.values():
        if fi.qualname == 'Config.reset':
            continue
        for st in _global_stores(fi):
            v = getattr(st, 'value', None)
            if isinstance(v, ast.Constant) and v.value is None:
                # a setter that only reset() reaches is reset's own store
                sites = [f for f in prog.all_functions() for c, g_ in callees(prog, f) if g_ is not None and g_.node is fi.node]
                if sites and all(f.qualname == 'Config.reset' for f in sites):
                    continue
                own = _own_publication(st)
                ctx.ob('C18-R3', fi, f'`{norm(st)}` outside reset()', own,
                       'clears only a publication made by this very load' if own else
                       'the active configuration is cleared outside reset()', line=st.lineno)

    # ---- R2 frozen closure --------------------------------------------------
    seen = {}
    st = [cfg]
    while st:
        c = st.pop()
        if c.name in seen:
            continue
        seen[c.name] = c
        for f, ann in c.all_fields().items():
            if isinstance(ann, ast.Constant) and isinstance(ann.value, str):
                try:
                    ann = ast.parse(ann.value, mode='eval').body
                except SyntaxError:
                    continue
            for node in ast.walk(ann):
                rc = None
                if isinstance(node, ast.Name):
                    rc = prog.resolve_name(c.module, node.id)
                elif isinstance(node, ast.Attribute):
                    rc = prog.resolve_class_expr(c.module, node)
                if isinstance(rc, ClassInfo) and _value_kind(rc) in ('model', 'dataclass') and rc.name not in seen:
                    st.append(rc)
    ctx.floor('C18-R2', len(seen), 3, 'model classes reachable from Config')
    for name, c in sorted(seen.items()):
        frozen, how = _class_frozen(prog, c)
        if frozen is None:
            ctx.undecided('C18-R2', (c.file, c.name), 'model_config frozen=True', how)
        ctx.ob('C18-R2', (c.file, c.name), 'model_config frozen=True', frozen,
               f'frozen ({how})' if frozen else
               f'{name} is reachable from Config but not frozen ({how}): its values can be reassigned on the active configuration',
               line=c.node.lineno)

    # writes that bypass the frozen model: only in functions reachable only from Config's validators
    validators = {(f.file, f.qualname) for f in all_validators}
    conf_memo: dict = {}

    def confined(fi, trail=()):
        """(True, None) when every resolved call chain into fi starts in one of Config's validators"""
        k = (fi.file, fi.qualname)
        if k in validators:
            return True, None
        if k in conf_memo:
            return conf_memo[k]
        if k in trail:
            return True, None   # a cycle adds no new entry point
        callers = [(f, c) for f in prog.all_functions() for c, g_ in callees(prog, f) if g_ is not None and g_.node is fi.node]
        if not callers:
            res = (False, f'{fi.qualname} is not called from a validator (it can be called from anywhere)')
        else:
            res = (True, None)
            for caller, _ in callers:
                ok, why = confined(caller, trail + (k,))
                if not ok:
                    res = (False, why if caller.qualname in (why or '') and ' <- ' in (why or '') else f'{fi.qualname} <- {why}')
                    break
        conf_memo[k] = res
        return res

    def config_object(fi, tgt) -> bool:
        c = expr_class(prog, fi, tgt)
        if c is not None:
            return c.name in seen or c.module is m or any(b.name in seen for b in c.mro())
        return fi.file.startswith('src/AEIC/config') or 'config' in norm(tgt).lower() or 'cfg' in norm(tgt).lower()

    n_sa = 0
    done_nodes = set()
    for fi in prog.all_functions():
        if id(fi.node) in done_nodes:   # a moved function is registered under its old and its new name
            continue
        done_nodes.add(id(fi.node))
        sites = []
        for c in calls_in(fi.node):
            if call_name(c) in ('object.__setattr__', 'object.__delattr__') and c.args:
                sites.append((c, c.args[0], f'{call_name(c)}({norm(c.args[0])}, {norm(c.args[1]) if len(c.args) > 1 else "?"})'))
        for t, s2, how in stores_to(fi.node):
            b = t
            while isinstance(b, ast.Subscript):
                b = b.value
            if isinstance(b, ast.Attribute) and b.attr == '__dict__' and b is not t:
                sites.append((s2, b.value, f'{norm(t)[:50]} = …'))
        for node, tgt, text in sites:
            if not config_object(fi, tgt):
                continue
            n_sa += 1
            ok, why = confined(fi)
            ctx.ob('C18-R2', fi, text, ok,
                   'reachable only from Config\'s validators: the instance is not published yet' if ok else
                   f'frozen configuration mutated outside the validation pipeline ({why})', line=node.lineno, nontrivial=False)
    ctx.stats['object_setattr_sites'] = n_sa
    ctx.floor('C18-R2/setattr', n_sa, 1, 'writes that bypass the frozen model')
    # proxy writes go through the frozen model: the proxy's __setattr__ must hand the write to the instance
    ps = m.func('ConfigProxy.__setattr__')
    fwd = [c for c in calls_in(ps.node) if call_name(c) == 'setattr' or (isinstance(c.func, ast.Attribute) and c.func.attr == '__setattr__'
                                                                          and call_name(c) != 'object.__setattr__')]
    ctx.ob('C18-R3', ps, 'proxy writes go through the frozen model', bool(fwd),
           'setattr(<active configuration>, …) — pydantic refuses on a frozen model' if fwd else
           'the proxy does not hand writes to the frozen model')

    # ---- R4 precedence --------------------------------------------------------
    rule_precedence(ctx, prog, m)
    ctx.assumptions += [
        "pydantic v2 runs mode='after' model validators in class-body declaration order, parents first",
        'a frozen pydantic model refuses attribute assignment',
        'a configuration section keeps its kind (table or plain value) across defaults, file and keyword arguments, so '
        'merging left to right and right to left agree',
    ]
