"""C18 — exactly one immutable configuration is active; a failed load leaves none.

R1  publish last (T-ORDER over the validation pipeline).  pydantic runs the
    class's `mode='after'` model validators in declaration order, so the
    pipeline is read off the class body.  The store of a non-None value to the
    module global `_config` must be in the *last* after-validator, must not sit
    in a `finally`/`except`, and nothing fallible may follow it on a normal
    path.  Accepted alternative: every fallible step after the publish is
    covered by a handler that stores None back and re-raises.
R2  frozen closure: every model class reachable from Config through field
    annotations declares frozen=True; object.__setattr__ on configuration
    objects occurs only inside Config's own validators.
R3  guards: Config.get and both proxy methods raise while `_config is None`;
    the "already initialised" refusal is the first thing the first
    after-validator does; reset stores None.
R5  key normalisation keeps the overlay order: every item is stored into the
    normalised dict, later spellings replacing earlier ones.
R4  precedence: load computes deep_update(defaults, deep_update(file, kwargs));
    every merge step is the recursive deep_update (a shallow merge loses
    nested keys); deep_update lets the overlay win and recurses only when both
    sides are dicts.
"""

from __future__ import annotations

import ast

from ..astutil import first_stmt, last_stmt  # noqa: F401
from ..astutil import (ancestors, call_name, calls_in, guards_of, kwarg, norm, single_def_value,
                       stores_to, walk_no_nested)
from ..cfg import CFG
from ..loader import ClassInfo
from ..resolve import _ann_class, closure, resolve_call

CORE = 'config/core.py'
GLOBAL = '_config'


def _after_validators(cls: ClassInfo):
    out = []
    for s in cls.node.body:
        if isinstance(s, ast.FunctionDef):
            for d in s.decorator_list:
                if isinstance(d, ast.Call) and call_name(d).endswith('model_validator'):
                    mode = kwarg(d, 'mode')
                    if isinstance(mode, ast.Constant) and mode.value == 'after':
                        out.append(cls.methods[s.name])
    return out


def _global_stores(fi):
    """Stores to the module global inside fi (needs `global _config`)."""
    has_global = any(isinstance(n, ast.Global) and GLOBAL in n.names for n in walk_no_nested(fi.node))
    out = []
    if not has_global:
        return out
    for t, st, how in stores_to(fi.node):
        if isinstance(t, ast.Name) and t.id == GLOBAL:
            out.append(st)
    return out


def rule_normalise(ctx):
    """R5: the overlay order survives key normalisation.  deep_update is case-sensitive, so a key of the file or of the
    keyword arguments that is capitalised differently from the default's key sits *after* it in the merged dict;
    CIBaseModel._normalize_dict folds both onto the field name, and the later one (the overlay) must win: the store
    into the normalised dict happens for every item, in order."""
    mm = ctx.prog.module('utils/models.py')
    nd = mm.func('CIBaseModel._normalize_dict')
    loops = [x for x in walk_no_nested(nd.node) if isinstance(x, ast.For) and norm(x.iter).endswith('.items()')]
    if len(loops) != 1:
        ctx.undecided('C18-R5', nd, 'for … in values.items()', f'{len(loops)} item loops')
    lp = loops[0]
    stores = [st for t, st, how in stores_to(nd.node) if isinstance(t, ast.Subscript) and norm(t.value) == 'normalized'
              and any(a is lp for a in ancestors(st))]
    ctx.floor('C18-R5', len(stores), 1, 'stores into the normalised dict')
    for st in stores:
        gs = [norm(t) for t, pol, o in guards_of(st) if any(a is lp for a in ancestors(o))]
        ok = not gs
        ctx.ob('C18-R5', nd, f'{norm(st)[:50]} for every item', ok, 'unconditional: the last spelling of a field wins' if ok else
               f'the store is conditional on {gs}: an overlay key may not replace the default', line=st.lineno)
    for c in [x for x in ast.walk(lp) if isinstance(x, (ast.Continue, ast.Break))]:
        gs = [norm(t) for t, pol, o in guards_of(c) if any(a is lp for a in ancestors(o))]
        ok = gs == ['field_name is None']
        ctx.ob('C18-R5', nd, f'item skipped when {gs}', ok, 'only when the key maps to no name at all' if ok else
               (f'items are skipped when {gs}: the first spelling of a field is kept and later ones are dropped, so a default '
                'beats the file and the file beats keyword arguments whenever the capitalisation differs'), line=c.lineno)


def run(ctx):
    rule_normalise(ctx)
    prog = ctx.prog
    m = prog.module(CORE)
    cfg = m.cls('Config')
    if GLOBAL not in m.constants:
        ctx.undecided('C18-R1', (m.relpath, '<module>'), GLOBAL, 'singleton global not found')

    # ---- R1 --------------------------------------------------------------
    pipeline = _after_validators(cfg)
    ctx.floor('C18-R1/pipeline', len(pipeline), 1, 'after-validators of Config')
    ctx.stats['after_validators_in_order'] = [f.qualname for f in pipeline]
    publishes = []
    for fi in m.functions.values():
        for st in _global_stores(fi):
            v = getattr(st, 'value', None)
            is_none = isinstance(v, ast.Constant) and v.value is None
            publishes.append((fi, st, is_none))
    pubs = [(fi, st) for fi, st, is_none in publishes if not is_none]
    ctx.floor('C18-R1', len(pubs), 1, 'publish sites of the singleton')
    for fi, st in pubs:
        # which pipeline stage does this function belong to?
        stage = None
        for i, v in enumerate(pipeline):
            if fi == v or fi in closure(prog, [v]):
                stage = i
        if stage is None:
            ctx.ob('C18-R1', fi, f'publish `{norm(st)}` inside the validation pipeline', False,
                   'the singleton is published outside Config\'s after-validators', line=st.lineno)
            continue
        last = stage == len(pipeline) - 1
        later = [v.qualname for v in pipeline[stage + 1:]]
        in_fin = any(isinstance(a, ast.Try) and any(st is s or _within(st, s) for s in a.finalbody)
                     for a in ancestors(st))
        in_exc = any(isinstance(a, ast.ExceptHandler) for a in ancestors(st))
        ok_stage = last and not in_fin and not in_exc
        why = 'published by the last after-validator, outside any finally/except'
        if not last:
            why = (f'published in {pipeline[stage].qualname}, but {later} run afterwards and can still '
                   'fail (e.g. FileNotFoundError from path resolution): a failed load leaves the system '
                   'configured and the next valid load is refused')
        elif in_fin or in_exc:
            why = 'published from a finally/except block: it also runs when validation failed'
        ctx.ob('C18-R1', fi, f'publish `{norm(st)}` is the last pipeline step', ok_stage, why, line=st.lineno)
        # nothing fallible after the publish inside its own function (and callers up to the validator)
        g = CFG(fi.node)
        pn = [n for n in g.nodes if n.stmt is st]
        for p in pn:
            after = g.reachable(p.id, labels={'n', 't', 'f'}) - {p.id}
            fall = [g.nodes[x] for x in after if g.nodes[x].why_raise & {'call', 'raise'}
                    and g.nodes[x].stmt is not None]
            # accepted idiom: handler that unpublishes and re-raises
            covered = []
            for x in fall:
                ok_h = False
                for a in ancestors(x.stmt):
                    if isinstance(a, ast.Try):
                        for h in a.handlers:
                            resets = any(isinstance(s, ast.Assign) and norm(s.targets[0]) == GLOBAL and
                                         isinstance(s.value, ast.Constant) and s.value.value is None
                                         for s in h.body)
                            rer = isinstance(last_stmt(h.body), ast.Raise)
                            if resets and rer and (h.type is None or norm(h.type) in ('BaseException', 'Exception')):
                                ok_h = True
                if ok_h:
                    covered.append(x)
            bad = [x for x in fall if x not in covered]
            ctx.ob('C18-R1', fi, 'nothing fallible follows the publish', not bad,
                   'only `return self` follows' if not bad else
                   f'`{bad[0].text()[:70]}` (line {bad[0].line}) can fail after the singleton was set',
                   line=(bad[0].line if bad else st.lineno))
        if fi != pipeline[stage]:
            # published from a helper: the validator must not do fallible work after calling it
            v = pipeline[stage]
            gv = CFG(v.node)
            for n in gv.nodes:
                if n.stmt is not None and n.kind == 'stmt' and any(
                        resolve_call(prog, v, c) is not None and
                        (resolve_call(prog, v, c) == fi or fi in closure(prog, [resolve_call(prog, v, c)]))
                        for c in calls_in(n.stmt)):
                    after = gv.reachable(n.id, labels={'n', 't', 'f'}) - {n.id}
                    bad = [gv.nodes[x] for x in after if gv.nodes[x].why_raise & {'call', 'raise'}
                           and gv.nodes[x].stmt is not None]
                    ctx.ob('C18-R1', v, f'nothing fallible after the publishing call {n.text()[:50]}', not bad,
                           'publishing helper is the last fallible step' if not bad else
                           f'`{bad[0].text()[:70]}` can fail after the helper set the singleton',
                           line=n.line)
    # subclass validators would run after the parent's
    for c in prog.subclasses_of('Config'):
        if c is not cfg and c.module.relpath.startswith('src/AEIC/config'):
            extra = _after_validators(c)
            ctx.ob('C18-R1', (c.file, c.name), 'subclass adds no later validator', not extra,
                   'none' if not extra else f'{[e.qualname for e in extra]} run after the publish')

    # ---- R3 guards --------------------------------------------------------
    first = pipeline[0]
    g = CFG(first.node)
    refusal = None
    for n in g.nodes:
        if n.kind == 'stmt' and isinstance(n.stmt, ast.Raise):
            gs = guards_of(n.stmt)
            if any(norm(t) == f'{GLOBAL} is not None' and pol for t, pol, _ in gs):
                refusal = (n, [x for _, _, o in gs for x in g.nodes_of(o)])
    ok = False
    if refusal is not None:
        dom = g.dominators(edge_ok=lambda a, b, lab: lab != 'e')
        test_nodes = refusal[1]
        others = [n for n in g.nodes if n.stmt is not None and n.id not in test_nodes
                  and n.id != refusal[0].id and n.why_raise]
        ok = all(any(t in dom[o.id] for t in test_nodes) for o in others)
    ctx.ob('C18-R3', first, 'second load refused before anything else happens', ok,
           '`if _config is not None: raise` dominates every other step of the first after-validator' if ok else
           'loading while a configuration is active is not refused first (or not at all)',
           line=(refusal[0].line if refusal else first.node.lineno))
    # the refusal must precede the publish in pipeline order: it is in stage 0 by construction
    for qn in ('Config.get', 'ConfigProxy.__getattr__', 'ConfigProxy.__setattr__'):
        fi = m.func(qn)
        g = CFG(fi.node)
        dom = g.dominators(edge_ok=lambda a, b, lab: lab != 'e')
        gate = None
        for n in g.nodes:
            if n.kind == 'stmt' and isinstance(n.stmt, ast.Raise):
                gs = guards_of(n.stmt)
                if any(norm(t) == f'{GLOBAL} is None' and pol for t, pol, _ in gs):
                    gate = [x for _, _, o in gs for x in g.nodes_of(o)]
        uses = [n for n in g.nodes if n.stmt is not None and n.kind == 'stmt' and
                isinstance(n.stmt, (ast.Return, ast.Expr)) and GLOBAL in norm(n.stmt)]
        ok = gate is not None and bool(uses) and all(any(t in dom[u.id] for t in gate) for u in uses)
        ctx.ob('C18-R3', fi, 'access refused while unconfigured', ok,
               '`if _config is None: raise` dominates the use' if ok else
               'settings can be read (or written) before any successful load')
    rs = m.func('Config.reset')
    sts = _global_stores(rs)
    ok = len(sts) == 1 and isinstance(sts[0].value, ast.Constant) and sts[0].value.value is None \
        and not guards_of(sts[0])
    ctx.ob('C18-R3', rs, 'reset clears the singleton unconditionally', ok,
           norm(sts[0]) if ok else 'reset does not (always) store None')
    # who may write the global
    for fi, st, is_none in publishes:
        ok = (is_none and fi.qualname == 'Config.reset') or (not is_none and fi.cls is cfg)
        ctx.ob('C18-R3', fi, f'writer of the singleton: {norm(st)}', ok,
               'Config validator / reset' if ok else 'the singleton is written from an unexpected place',
               line=st.lineno, nontrivial=False)
    # the singleton may be cleared only by reset() itself, or by a failed load that clears
    # *its own* publication (guarded by an identity test against the instance being built)
    all_validators = []
    for sdef in cfg.node.body:
        if isinstance(sdef, ast.FunctionDef) and any('validator' in norm(d_) for d_ in sdef.decorator_list):
            all_validators.append(cfg.methods[sdef.name])
    ctx.stats['validators_all_modes'] = [f'{f.name}:{[norm(d_) for d_ in f.node.decorator_list][0][:40]}' for f in all_validators]
    for fi in m.functions.values():
        if fi.qualname == 'Config.reset':
            continue
        for c in calls_in(fi.node):
            cn = call_name(c)
            if cn in ('cls.reset', 'Config.reset', 'self.reset', 'reset') and fi.cls is cfg:
                gs = [norm(t) for t, pol, _ in guards_of(c)]
                own = any(('_config is self' in g_) or ('_config is result' in g_) or ('is _config' in g_) for g_ in gs)
                ctx.ob('C18-R3', fi, f'{cn}() called inside {fi.qualname}', own,
                       'clears only a publication made by this very load' if own else
                       ('the singleton is cleared on a path that is also taken when a load is *refused* because a '
                        'configuration is already active (the refusal is raised inside validation): a refused second load '
                        'wipes the active configuration'), line=c.lineno)
        for st in _global_stores(fi):
            v = getattr(st, 'value', None)
            if isinstance(v, ast.Constant) and v.value is None and fi.qualname != 'Config.reset':
                ctx.ob('C18-R3', fi, f'`{norm(st)}` outside reset()', False,
                       'the active configuration is cleared outside reset()', line=st.lineno)
    # proxy setattr must delegate to setattr on the frozen instance (not object.__setattr__)
    ps = m.func('ConfigProxy.__setattr__')
    cs = [call_name(c) for c in calls_in(ps.node)]
    ok = 'setattr' in cs and 'object.__setattr__' not in cs
    ctx.ob('C18-R3', ps, 'proxy writes go through the frozen model', ok,
           'setattr(_config, …) — pydantic refuses on a frozen model' if ok else
           'the proxy bypasses the frozen model')

    # ---- R2 frozen closure --------------------------------------------------
    seen = {}
    st = [cfg]
    while st:
        c = st.pop()
        if c.name in seen:
            continue
        seen[c.name] = c
        for f, ann in c.all_fields().items():
            for node in ast.walk(ann):
                if isinstance(node, ast.Name):
                    rc = prog.resolve_name(c.module, node.id)
                    if isinstance(rc, ClassInfo) and rc.is_subclass_of('CIBaseModel') and rc.name not in seen:
                        st.append(rc)
    ctx.floor('C18-R2', len(seen), 3, 'model classes reachable from Config')
    for name, c in sorted(seen.items()):
        frozen = False
        for k in c.mro():
            v = k.class_assignments().get('model_config')
            if v is not None and isinstance(v, ast.Call):
                fz = kwarg(v, 'frozen')
                frozen = isinstance(fz, ast.Constant) and fz.value is True
                break
        ctx.ob('C18-R2', (c.file, c.name), 'model_config frozen=True', frozen,
               'frozen' if frozen else f'{name} is reachable from Config but not frozen: nested values can be changed')
    allowed = {f.qualname for f in pipeline} | {'Config._normalize_path'}
    n_sa = 0
    for fi in prog.all_functions():
        if not fi.file.startswith('src/AEIC/config') and 'config' not in fi.file:
            scope_all = True
        for c in calls_in(fi.node):
            if call_name(c) == 'object.__setattr__':
                n_sa += 1
                tgt = norm(c.args[0]) if c.args else '?'
                in_cfg = fi.file == m.relpath
                if in_cfg or 'config' in tgt.lower():
                    ok = fi.qualname in allowed
                    ctx.ob('C18-R2', fi, f'object.__setattr__({tgt}, {norm(c.args[1]) if len(c.args) > 1 else "?"})',
                           ok, 'inside Config\'s validators (before publication)' if ok else
                           'frozen configuration mutated outside the validation pipeline', line=c.lineno,
                           nontrivial=False)
    ctx.stats['object_setattr_sites'] = n_sa

    # ---- R4 precedence --------------------------------------------------------
    ld = m.func('Config.load')
    mv = [c for c in calls_in(ld.node) if call_name(c).endswith('model_validate')]
    if len(mv) != 1 or not mv[0].args:
        ctx.undecided('C18-R4', ld, 'model_validate', 'final validation call not found')
    final = mv[0].args[0]

    def is_du(e):
        return isinstance(e, ast.Call) and call_name(e) == 'deep_update' and len(e.args) == 2

    def shallow(e):
        if isinstance(e, ast.Dict) and any(k is None for k in e.keys):
            return 'dict display with ** unpacking'
        if isinstance(e, ast.BinOp) and isinstance(e.op, ast.BitOr):
            return 'dict | dict'
        if isinstance(e, ast.Call) and call_name(e) in ('dict', 'ChainMap', 'collections.ChainMap'):
            return call_name(e) + '(...)'
        return None

    def origin(e, depth=0, before=10**9):
        """describe where a data dict comes from"""
        if isinstance(e, ast.Name):
            defs = [s for t, s, how in stores_to(ld.node) if isinstance(t, ast.Name) and t.id == e.id
                    and s.lineno < before]
            if e.id == 'kwargs' and ld.node.args.kwarg and ld.node.args.kwarg.arg == 'kwargs':
                return 'kwargs'
            srcs = set()
            for d in defs:
                v = d.value
                if isinstance(v, ast.Call) and call_name(v) == 'tomllib.load':
                    w = next((a for a in ancestors(d) if isinstance(a, ast.With)), None)
                    txt = norm(w.items[0].context_expr) if w else ''
                    srcs.add('defaults' if 'default_config.toml' in txt else ('file' if 'config_file' in txt else 'toml?'))
                elif isinstance(v, ast.Dict) and not v.keys:
                    pass
                elif is_du(v):
                    srcs.add(f'deep_update({origin(v.args[0], depth + 1, d.lineno)}, {origin(v.args[1], depth + 1, d.lineno)})')
                else:
                    sh = shallow(v)
                    srcs.add(f'SHALLOW[{sh}]' if sh else f'?{norm(v)[:40]}')
            return '+'.join(sorted(srcs)) or '{}'
        if is_du(e):
            return f'deep_update({origin(e.args[0], depth + 1, before)}, {origin(e.args[1], depth + 1, before)})'
        sh = shallow(e)
        return f'SHALLOW[{sh}]' if sh else f'?{norm(e)[:40]}'

    desc = origin(final, 0, mv[0].lineno + 1)
    expected = 'deep_update(defaults, deep_update(file, kwargs)+file)'
    ok = desc in (expected, 'deep_update(defaults, deep_update(file, kwargs))')
    why = 'defaults overlaid by file overlaid by keyword arguments, each step recursive'
    if 'SHALLOW' in desc:
        why = ('a merge step is shallow: a keyword (or file) section replaces the whole section below it, '
               'so nested keys set by the lower layer are lost')
    elif not ok:
        why = f'merge order/shape is {desc}'
    ctx.ob('C18-R4', ld, f'effective data = {desc}', ok, why, line=mv[0].lineno)
    for c in calls_in(ld.node):
        if isinstance(c.func, ast.Attribute) and c.func.attr == 'update' and \
                norm(c.func.value) in ('overlay_data', 'default_data'):
            ctx.ob('C18-R4', ld, norm(c), False, 'dict.update is a shallow merge', line=c.lineno)

    du = m.func('deep_update')
    loop = next((n for n in walk_no_nested(du.node) if isinstance(n, ast.For)), None)
    ok = False
    why = 'deep_update shape not recognised'
    if loop is not None and 'overlay.items()' in norm(loop.iter) and isinstance(first_stmt(loop.body), ast.If):
        iff = first_stmt(loop.body)
        t = norm(iff.test)
        rec = any(call_name(c) == 'deep_update' for s in iff.body for c in calls_in(s))
        both = 'isinstance(base[key], dict)' in t and 'isinstance(value, dict)' in t and 'key in base' in t
        wins = any(isinstance(s, ast.Assign) and norm(s.targets[0]) == 'base[key]' and norm(s.value) == 'value'
                   for s in iff.orelse)
        ret = any(isinstance(n, ast.Return) and norm(n.value) == 'base' for n in walk_no_nested(du.node))
        ok = rec and both and wins and ret
        why = 'recurses only when both sides are dicts; otherwise the overlay value wins; returns base' if ok else \
            f'recursion={rec} both-dict-guard={both} overlay-wins={wins} returns-base={ret}'
    ctx.ob('C18-R4', du, 'deep_update semantics', ok, why)
    ctx.assumptions += [
        "pydantic v2 runs mode='after' model validators in class-body declaration order, parents first",
        'a frozen pydantic model refuses attribute assignment',
    ]


def _within(n, anc):
    return any(a is anc for a in ancestors(n))
