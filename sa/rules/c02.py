"""C02 — simulated trajectories obey mass, time, distance and route bookkeeping.

R1  paired decrement: on the flight path a point's fuel_mass / aircraft_mass are
    written only by the first-point initialisation and by `-=` pairs in one
    block with the same right-hand side.
R2  clamp dominance: in the level-change phase the subtracted segment fuel is,
    on every path, last written by the non-negativity clamp or by a
    definition the clamp test dominates.
R3  buffer-view discipline of the growable container (forward must-dataflow on
    the CFG of every method of Container and its subclasses).  A value read
    from the field table (`self._data[k]`, `self._data.get(k)`, a loop over
    `.values()` / `.items()`, or any local such a value flows into) may be a
    capacity-length per-point buffer unless the branches taken on *every* path
    to the use say otherwise (isinstance / type() / match class patterns /
    `is None` / dimension tests on the field's metadata / assert, in either
    polarity, through and/or/not, early return, continue, raise).  While it may
    be one it is used only through the `[: self._size]` view, as the append slot
    `[self._size] =`, as an argument of the whole-buffer operations, in a
    length-independent way (.dtype, identity tests), or indexed by an index
    that the paths to the use prove to be in [0, _size) (comparisons in either
    orientation, chained, `in range(_size)`, loop over `range(_size)`; the
    fact dies when the index or `_size` is written).  It is not returned,
    stored elsewhere, iterated, compared element-wise or passed on raw.
    Growth raises the capacity once and stores every resized array back into
    its slot; append has room (size < capacity on the path, or just grown)
    when slot `_size` is written and counts the point afterwards.
R4  position <-> distance pairing: positions written to a point come from
    ground_track.step(pt.ground_distance, d) and the same d is added to
    pt.ground_distance in that block; longitude<-longitude, latitude<-latitude.
    The forward-geodesic leg coherence rule of the ground track (C15-R5) is
    part of this clause.
R5  first point: starting mass / fuel come from the same context fields that
    fly() copies into the returned trajectory's metadata.
R6  infeasible schedules raise before the context is completed; the 3000 ft
    offsets and their ceiling fall-backs have the documented shape.
R7  accumulators: flight_time and ground_distance start at 0 and are only
    ever added to.
R9  resampling interpolates every per-point field against the trajectory's own
    flight-time view (x = new times, xp = own times, fp = the field view,
    NaN outside), copies per-trajectory fields, sizes the result by the new
    time vector.
R10 out-of-envelope states are refused rather than extrapolated or filled with
    NaN: the evaluate path of the performance model interpolates only with
    bounds-checked scipy interpn (C06-R2).
R8  level-change altitude schedule ends exactly at the target altitude
    (algebraic: start + (n-1)·(end-start)/(n-1) ≡ end) and is called with the
    phase's own start/end altitudes.
"""

from __future__ import annotations

import ast
import re

from ..algebra import normal_form, poly_equal
from ..astutil import first_stmt, last_stmt  # noqa: F401
from ..astutil import (ancestors, call_name, calls_in, conjuncts, guards_of, local_defs, norm, single_def_value,
                       stmt_of, stores_to, walk_no_nested)
from ..cfg import CFG
from ..loader import dotted_name
from ..resolve import closure

LEG = 'trajectories/builders/legacy.py'
BASE = 'trajectories/builders/base.py'
CONT = 'storage/container.py'
TRAJ = 'trajectories/trajectory.py'

# methods whose raw-buffer use is outside C02's statement (reason given)
R3_OUT_OF_SCOPE = {
    'Trajectory.compare': 'verification helper, not part of the builder / resampling behaviour C02 states '
                          '(it does pass raw buffers to ComparisonMetrics.compute — noted, not claimed)',
}
WHOLE_BUFFER_OPS = {'np.resize', 'deepcopy', 'copy.deepcopy', 'isinstance', 'numpy.resize'}


# ----------------------------------------------------------------- R3 -----
# Buffer-view discipline, decided by a forward must-dataflow over the CFG.
#
# Tracked values ("subjects"): an expression that reads a field value out of the
# container's own table -- `self._data[k]`, `self._data.get(k[, d])` -- and every
# local that may hold one (bound by assignment / unpacking / walrus / a loop over
# `self._data.values()` / `.items()`).  Facts are *must* facts (joined by
# intersection; no fact = "may be a capacity-length array"):
#   ('k', subject, 'ARR')    the value is an ndarray on every path to here
#   ('k', subject, 'OTHER')  the value is not a raw capacity-length buffer
#   ('a', local, key)        the local holds self._data[key] for the current key
#   ('dim', key, '')         the data-dictionary entry of key is not a per-point array
#   ('i', index, 'ge0')      index >= 0          ('i', index, 'lt')   index < self._size
# Facts come from the branch taken at a test (`isinstance`, `type() is`,
# `is None`, dimension tests on the field's metadata, index comparisons, in any
# boolean combination and either polarity), from `assert`, from `match` class
# patterns, from `for i in range(self._size)`, and from the value a local is
# bound to; they die when a name they mention is rebound or the table slot /
# `_size` is written.
_ND = {'np.ndarray', 'numpy.ndarray', 'ndarray'}
_LEN_FREE_ATTRS = {'dtype', 'ndim', 'itemsize'}
_MAPPING_API = {'keys', 'values', 'items', 'update'}
_IDENT = re.compile(r'[A-Za-z_]\w*')


def _size_text(e: ast.AST) -> bool:
    return norm(e) in ('self._size', 'len(self)', 'self.__len__()')


def _is_view_slice(sub: ast.Subscript) -> bool:
    s = sub.slice
    if not isinstance(s, ast.Slice) or s.upper is None or not _size_text(s.upper):
        return False
    lo_ok = s.lower is None or (isinstance(s.lower, ast.Constant) and s.lower.value in (0, None))
    st_ok = s.step is None or (isinstance(s.step, ast.Constant) and s.step.value in (1, None))
    return lo_ok and st_ok


def _is_table(e: ast.AST) -> bool:
    return norm(e) == 'self._data'


def _is_source(e: ast.AST) -> bool:
    """expression that reads a field value out of self._data"""
    if isinstance(e, ast.Subscript) and _is_table(e.value) and isinstance(e.ctx, ast.Load):
        return True
    return isinstance(e, ast.Call) and isinstance(e.func, ast.Attribute) and e.func.attr == 'get' \
        and _is_table(e.func.value) and bool(e.args)


def _key_of(e: ast.AST) -> str:
    return norm(e.slice) if isinstance(e, ast.Subscript) else norm(e.args[0])


def _table_iter(it: ast.AST) -> str | None:
    """'values' | 'items' when `it` iterates the table's values"""
    if isinstance(it, ast.Call) and isinstance(it.func, ast.Attribute) and _is_table(it.func.value) \
            and it.func.attr in ('values', 'items') and not it.args:
        return it.func.attr
    return None


def _bindings(t: ast.AST, v: ast.AST | None):
    """(local name, value expr | None) pairs of a binding, element-wise through tuples"""
    if isinstance(t, ast.Name):
        yield t.id, v
    elif isinstance(t, (ast.Tuple, ast.List)):
        if isinstance(v, (ast.Tuple, ast.List)) and len(v.elts) == len(t.elts) \
                and not any(isinstance(x, ast.Starred) for x in list(t.elts) + list(v.elts)):
            for a, b in zip(t.elts, v.elts):
                yield from _bindings(a, b)
        else:
            for a in t.elts:
                yield from _bindings(a, None)
    elif isinstance(t, ast.Starred):
        yield from _bindings(t.value, None)


def _type_parts(T: ast.AST) -> list[str]:
    if isinstance(T, ast.BinOp) and isinstance(T.op, ast.BitOr):
        return _type_parts(T.left) + _type_parts(T.right)
    if isinstance(T, (ast.Tuple, ast.List)):
        return [x for e in T.elts for x in _type_parts(e)]
    return [norm(T)]


def _pattern_classes(p) -> list[str] | None:
    if isinstance(p, ast.MatchClass) and not p.patterns and not p.kwd_patterns:
        return [norm(p.cls)]
    if isinstance(p, ast.MatchAs) and p.pattern is not None:
        return _pattern_classes(p.pattern)
    if isinstance(p, ast.MatchOr):
        out = []
        for q in p.patterns:
            c = _pattern_classes(q)
            if c is None:
                return None
            out += c
        return out
    return None


def _index_facts(l, op, r, pol):
    """facts about an index from `l op r` having truth value pol"""
    neg = {ast.Lt: ast.GtE, ast.GtE: ast.Lt, ast.Gt: ast.LtE, ast.LtE: ast.Gt}
    flip = {ast.Lt: ast.Gt, ast.Gt: ast.Lt, ast.LtE: ast.GtE, ast.GtE: ast.LtE}
    t = type(op)
    if t not in neg:
        return
    if not pol:
        t = neg[t]

    def size_minus_1(e):
        return isinstance(e, ast.BinOp) and isinstance(e.op, ast.Sub) and _size_text(e.left) \
            and isinstance(e.right, ast.Constant) and e.right.value == 1
    for x, rel, b in ((l, t, r), (r, flip[t], l)):
        c = b.value if isinstance(b, ast.Constant) and isinstance(b.value, int) and not isinstance(b.value, bool) else None
        if c is not None and ((rel is ast.GtE and c >= 0) or (rel is ast.Gt and c >= -1)):
            yield ('i', norm(x), 'ge0')
        if (_size_text(b) and rel is ast.Lt) or (size_minus_1(b) and rel is ast.LtE):
            yield ('i', norm(x), 'lt')


class _Buffers:
    """the analysis of one method"""

    def __init__(self, fn: ast.AST, size_writers: set[str]):
        self.fn = fn
        self.size_writers = size_writers
        self.g = CFG(fn)
        self.aliases: set[str] = set()
        self._find_aliases()
        self.meta_of = self._metadata_names()
        self.ins, _ = self.g.forward(frozenset(), self._transfer, lambda a, b: a & b,
                                     branch_transfer=self._branch)

    # -- which locals may hold a field value (flow-insensitive, to a fixpoint)
    def may_source(self, v) -> bool:
        if v is None:
            return False
        if _is_source(v) or (isinstance(v, ast.Name) and v.id in self.aliases):
            return True
        if isinstance(v, ast.IfExp):
            return self.may_source(v.body) or self.may_source(v.orelse)
        if isinstance(v, ast.NamedExpr):
            return self.may_source(v.value)
        if isinstance(v, ast.BoolOp):
            return any(self.may_source(x) for x in v.values)
        return False

    def _find_aliases(self):
        changed = True
        while changed:
            changed = False
            for n in walk_no_nested(self.fn):
                pairs = []
                if isinstance(n, ast.Assign):
                    for t in n.targets:
                        pairs += list(_bindings(t, n.value))
                elif isinstance(n, ast.AnnAssign) and n.value is not None:
                    pairs += list(_bindings(n.target, n.value))
                elif isinstance(n, ast.NamedExpr):
                    pairs.append((n.target.id, n.value))
                elif isinstance(n, (ast.For, ast.AsyncFor, ast.comprehension)):
                    how, t = _table_iter(n.iter), n.target
                    if how == 'values' and isinstance(t, ast.Name) and t.id not in self.aliases:
                        self.aliases.add(t.id)
                        changed = True
                    elif how == 'items' and isinstance(t, (ast.Tuple, ast.List)) and len(t.elts) == 2 \
                            and isinstance(t.elts[1], ast.Name) and t.elts[1].id not in self.aliases:
                        self.aliases.add(t.elts[1].id)
                        changed = True
                for name, v in pairs:
                    if name not in self.aliases and self.may_source(v):
                        self.aliases.add(name)
                        changed = True

    def _metadata_names(self) -> dict[str, str]:
        """locals that hold the data-dictionary entry of a key: `for k, f in
        <...>_data_dictionary.items()` and `f = <...>_data_dictionary[k]`; only
        when that is the local's single binding"""
        out: dict[str, list] = {}
        for n in walk_no_nested(self.fn):
            if isinstance(n, (ast.For, ast.comprehension)) and isinstance(n.iter, ast.Call) \
                    and isinstance(n.iter.func, ast.Attribute) and n.iter.func.attr == 'items' \
                    and norm(n.iter.func.value) == 'self._data_dictionary' \
                    and isinstance(n.target, (ast.Tuple, ast.List)) and len(n.target.elts) == 2 \
                    and all(isinstance(x, ast.Name) for x in n.target.elts):
                out.setdefault(n.target.elts[1].id, []).append(n.target.elts[0].id)
            elif isinstance(n, ast.Assign) and len(n.targets) == 1 and isinstance(n.targets[0], ast.Name) \
                    and isinstance(n.value, ast.Subscript) and norm(n.value.value) == 'self._data_dictionary':
                out.setdefault(n.targets[0].id, []).append(norm(n.value.slice))
        return {m: ks[0] for m, ks in out.items() if len(ks) == 1 and len(local_defs(self.fn, m)) == 1}

    # -- subjects
    def subject(self, e: ast.AST) -> str | None:
        if _is_source(e):
            return norm(e)
        if isinstance(e, ast.Name) and e.id in self.aliases:
            return e.id
        if isinstance(e, ast.NamedExpr) and e.target.id in self.aliases:
            return e.target.id
        return None

    def kind(self, st: frozenset, e: ast.AST) -> str:
        """'ARR' | 'OTHER' | 'ANY' for the value of subject expression e in state st"""
        s = self.subject(e)
        keys = set()
        if _is_source(e):
            keys.add(_key_of(e))
        keys |= {f[2] for f in st if f[0] == 'a' and f[1] == s}
        if ('k', s, 'OTHER') in st or any(('dim', k, '') in st for k in keys):
            return 'OTHER'
        if ('k', s, 'ARR') in st:
            return 'ARR'
        # a fact about the table slot the local was read from holds for the local too
        for k in keys:
            for txt in (f'self._data[{k}]',):
                if ('k', txt, 'OTHER') in st:
                    return 'OTHER'
                if ('k', txt, 'ARR') in st:
                    return 'ARR'
        return 'ANY'

    # -- facts from a condition known to have truth value `pol`
    def _refine(self, st: frozenset, test: ast.AST, pol: bool) -> frozenset:
        for a, p in conjuncts(test, pol):
            for w in ast.walk(a):
                if isinstance(w, ast.NamedExpr):
                    st = self._bind(st, w.target.id, w.value)
            add = set()
            if isinstance(a, ast.Call) and call_name(a) == 'isinstance' and len(a.args) == 2:
                s = self.subject(a.args[0])
                if s is not None:
                    parts = _type_parts(a.args[1])
                    has_nd = any(x in _ND for x in parts)
                    only_nd = has_nd and all(x in _ND for x in parts)
                    if p and only_nd:
                        add.add(('k', s, 'ARR'))
                    elif (p and not has_nd) or (not p and has_nd):
                        add.add(('k', s, 'OTHER'))
            elif isinstance(a, ast.Compare) and len(a.ops) == 1:
                l, op, r = a.left, a.ops[0], a.comparators[0]
                if isinstance(l, ast.Call) and call_name(l) == 'type' and len(l.args) == 1 \
                        and isinstance(op, (ast.Is, ast.Eq, ast.IsNot, ast.NotEq)):
                    s = self.subject(l.args[0])
                    if s is not None and p == isinstance(op, (ast.Is, ast.Eq)):
                        add.add(('k', s, 'ARR' if norm(r) in _ND else 'OTHER'))
                elif isinstance(op, (ast.Is, ast.IsNot)) and isinstance(r, ast.Constant) and r.value is None:
                    s = self.subject(l)
                    if s is not None and p == isinstance(op, ast.Is):
                        add.add(('k', s, 'OTHER'))
                elif isinstance(op, (ast.In, ast.NotIn)) and norm(l).startswith('Dimension.') \
                        and isinstance(r, ast.Attribute) and r.attr == 'dimensions':
                    inside = p == isinstance(op, ast.In)
                    dim = norm(l).split('.', 1)[1]
                    if (dim in ('SPECIES', 'THRUST_MODE') and inside) or (dim == 'POINT' and not inside):
                        m = r.value
                        key = None
                        if isinstance(m, ast.Name):
                            key = self.meta_of.get(m.id)
                        elif isinstance(m, ast.Subscript) and norm(m.value) == 'self._data_dictionary':
                            key = norm(m.slice)
                        if key is not None:
                            add.add(('dim', key, ''))
                elif isinstance(op, (ast.In, ast.NotIn)) and isinstance(r, ast.Call) and call_name(r) == 'range' \
                        and len(r.args) == 1 and _size_text(r.args[0]):
                    if p == isinstance(op, ast.In):
                        add |= {('i', norm(l), 'ge0'), ('i', norm(l), 'lt')}
                else:
                    add |= set(_index_facts(l, op, r, p))
            elif isinstance(a, ast.Compare) and p:
                # chained: 0 <= i < self._size
                left = a.left
                for op, right in zip(a.ops, a.comparators):
                    add |= set(_index_facts(left, op, right, True))
                    left = right
            if add:
                out = set(st)
                for f in add:
                    if f[0] == 'k':
                        out.discard(('k', f[1], 'ARR' if f[2] == 'OTHER' else 'OTHER'))
                    out.add(f)
                st = frozenset(out)
        return st

    # -- effects of statements
    @staticmethod
    def _kill_name(st: frozenset, name: str) -> frozenset:
        """drop every fact that mentions local `name` (as the subject, inside a subject's key, or as an index)"""
        return frozenset(f for f in st if name not in _IDENT.findall(f[1])
                         and not (f[0] == 'a' and name in _IDENT.findall(f[2])))

    def _bind(self, st: frozenset, name: str, v: ast.AST | None) -> frozenset:
        new = set()
        if v is not None:
            s = self.subject(v)
            if s == name:
                return st
            if s is not None:
                k = self.kind(st, v)
                if k != 'ANY':
                    new.add(('k', name, k))
                if _is_source(v) and name not in _IDENT.findall(_key_of(v)):
                    new.add(('a', name, _key_of(v)))
                new |= {('a', name, f[2]) for f in st if f[0] == 'a' and f[1] == s}
            elif not self.may_source(v):
                new.add(('k', name, 'OTHER'))     # a view, a copy, a constant, a call result ...
        return frozenset(set(self._kill_name(st, name)) | new)

    def _store(self, st, t):
        if isinstance(t, ast.Subscript) and _is_table(t.value):
            key = norm(t.slice)
            return frozenset(f for f in st if not (
                f[0] == 'k' and (f[1] == f'self._data[{key}]' or f[1].startswith(f'self._data.get({key}'))))
        if isinstance(t, ast.Attribute) and norm(t) == 'self._size':
            return frozenset(f for f in st if not (f[0] == 'i' and f[2] == 'lt'))
        if isinstance(t, ast.Attribute) and norm(t) in ('self._data', 'self._data_dictionary'):
            return frozenset(f for f in st if f[0] == 'i' or (f[0] == 'k' and 'self._data' not in f[1]))
        return st

    def _calls_effect(self, st, e):
        for c in walk_no_nested(e):
            if isinstance(c, ast.Call) and isinstance(c.func, ast.Attribute) and c.func.attr in self.size_writers \
                    and (norm(c.func.value) == 'self' or
                         (isinstance(c.func.value, ast.Call) and call_name(c.func.value) == 'super')):
                st = frozenset(x for x in st if not (x[0] == 'i' and x[2] == 'lt'))
        return st

    def _transfer(self, node, st: frozenset) -> frozenset:
        s = node.stmt
        if s is None or node.kind in ('join', 'finally', 'dispatch', 'entry', 'exit', 'raise'):
            return st
        if node.kind == 'with':
            for it in s.items:
                st = self._calls_effect(st, it.context_expr)
                if it.optional_vars is not None:
                    for nm, _ in _bindings(it.optional_vars, None):
                        st = self._bind(st, nm, None)
            return st
        if node.kind == 'except':
            return self._bind(st, s.name, None) if getattr(s, 'name', None) else st
        if node.kind in ('test', 'iter', 'match', 'case'):
            head = {'test': getattr(s, 'test', None), 'iter': getattr(s, 'iter', None),
                    'match': getattr(s, 'subject', None), 'case': getattr(s, 'guard', None)}[node.kind]
            if head is not None:
                st = self._calls_effect(st, head)
                if node.kind != 'test':            # a walrus in a test is bound per atom by _refine
                    for w in ast.walk(head):
                        if isinstance(w, ast.NamedExpr):
                            st = self._bind(st, w.target.id, w.value)
            return st
        st = self._calls_effect(st, s)
        for w in walk_no_nested(s):
            if isinstance(w, ast.NamedExpr):
                st = self._bind(st, w.target.id, w.value)
        if isinstance(s, ast.Assert):
            return self._refine(st, s.test, True)
        if isinstance(s, (ast.Assign, ast.AnnAssign)):
            if s.value is None:
                return st
            for t in (s.targets if isinstance(s, ast.Assign) else [s.target]):
                # simultaneous assignment: every right-hand side is read in the state before
                pairs = list(_bindings(t, s.value))
                bound = {nm for nm, _ in pairs}
                news = set()
                for nm, val in pairs:
                    news |= {f for f in self._bind(st, nm, val) if f[0] in ('k', 'a') and f[1] == nm
                             and not (f[0] == 'a' and bound & set(_IDENT.findall(f[2])))}
                for nm in bound:
                    st = self._kill_name(st, nm)
                st = frozenset(set(st) | news)
                for e in (t.elts if isinstance(t, (ast.Tuple, ast.List)) else [t]):
                    st = self._store(st, e)
        elif isinstance(s, ast.AugAssign):
            st = self._bind(st, s.target.id, None) if isinstance(s.target, ast.Name) else self._store(st, s.target)
        elif isinstance(s, ast.Delete):
            for t in s.targets:
                st = self._bind(st, t.id, None) if isinstance(t, ast.Name) else self._store(st, t)
        elif isinstance(s, (ast.Import, ast.ImportFrom)):
            for al in s.names:
                st = self._bind(st, (al.asname or al.name).split('.')[0], None)
        return st

    def _branch(self, node, lab, st):
        s = node.stmt
        if node.kind == 'test':
            return self._refine(st, s.test, lab == 't')
        if node.kind == 'iter' and lab == 't':
            for nm, _ in _bindings(s.target, None):
                st = self._bind(st, nm, None)
            t = s.target
            if _table_iter(s.iter) == 'items' and isinstance(t, (ast.Tuple, ast.List)) and len(t.elts) == 2 \
                    and all(isinstance(x, ast.Name) for x in t.elts):
                st = frozenset(set(st) | {('a', t.elts[1].id, t.elts[0].id)})
            if isinstance(t, ast.Name) and isinstance(s.iter, ast.Call) and call_name(s.iter) == 'range' \
                    and not s.iter.keywords:
                a = s.iter.args

                def nonneg(e):
                    return isinstance(e, ast.Constant) and isinstance(e.value, int) and e.value >= 0

                def pos(e):
                    return isinstance(e, ast.Constant) and isinstance(e.value, int) and e.value > 0
                if (len(a) == 1 and _size_text(a[0])) or (
                        len(a) in (2, 3) and nonneg(a[0]) and _size_text(a[1]) and (len(a) == 2 or pos(a[2]))):
                    st = frozenset(set(st) | {('i', t.id, 'ge0'), ('i', t.id, 'lt')})
            return st
        if node.kind == 'case':
            m = getattr(s, '_parent', None)
            subj = self.subject(m.subject) if isinstance(m, ast.Match) else None
            classes = _pattern_classes(s.pattern)
            if subj is None or classes is None or (s.guard is not None and lab == 'f'):
                return st
            has_nd = any(c in _ND for c in classes)
            only_nd = has_nd and all(c in _ND for c in classes)
            out = set(st)
            if lab == 't' and only_nd:
                out.discard(('k', subj, 'OTHER'))
                out.add(('k', subj, 'ARR'))
            elif (lab == 't' and not has_nd) or (lab == 'f' and has_nd):
                out.discard(('k', subj, 'ARR'))
                out.add(('k', subj, 'OTHER'))
            return frozenset(out)
        return st

    # -- the states in which a load is evaluated (one per CFG copy of its statement)
    def states_at(self, e: ast.AST) -> list[frozenset]:
        a, ids = e, []
        while a is not None and not ids:
            ids = [i for i in self.g.nodes_of(a) if self.g.nodes[i].kind not in ('join', 'finally', 'dispatch')]
            a = getattr(a, '_parent', None)
        out = []
        for i in ids:
            if i not in self.ins:
                continue            # unreachable code
            st = self.ins[i]
            # short-circuit / conditional-expression / comprehension-filter guards inside the statement
            for t, pol, owner in reversed(guards_of(e)):
                if not isinstance(owner, (ast.If, ast.While)):
                    st = self._refine(st, t, pol)
            out.append(st)
        return out

    def index_proven(self, st: frozenset, idx: ast.AST) -> bool:
        t = norm(idx)
        return ('i', t, 'ge0') in st and ('i', t, 'lt') in st

    # -- how one load of a subject is consumed
    def classify(self, st: frozenset, e: ast.AST):
        """(ok, how) for the use of subject expression e evaluated in state st; ok None = binding of a local"""
        kind = self.kind(st, e)
        if kind == 'OTHER':
            return True, 'not a per-point array on any path that reaches this use'
        p = getattr(e, '_parent', None)
        # value positions that hand the value on unchanged
        while isinstance(p, ast.IfExp) and e is not p.test:
            e, p = p, getattr(p, '_parent', None)
        if isinstance(p, ast.NamedExpr) and p.value is e:
            return None, 'alias'
        if isinstance(p, ast.Subscript) and p.value is e:
            if _is_view_slice(p):
                return True, 'view [: self._size]'
            if isinstance(p.ctx, ast.Store) and _size_text(p.slice):
                return True, 'append slot [self._size] ='
            if not isinstance(p.slice, (ast.Slice, ast.Tuple)) and self.index_proven(st, p.slice):
                return True, (f'index {norm(p.slice)} is in [0, _size) on every path that reaches this use')
            if isinstance(p.slice, ast.Slice):
                return False, f'sliced by {norm(p.slice)} instead of [: self._size]'
            return False, (f'indexed by `{norm(p.slice)}` on the capacity-length buffer: a negative or '
                           'unchecked index resolves against the allocated capacity, not the stored points')
        if isinstance(p, ast.Call) and (e in p.args or any(k.value is e for k in p.keywords)):
            cn = call_name(p)
            if cn in WHOLE_BUFFER_OPS or cn == 'type':
                return True, f'whole-buffer operation {cn}'
            return False, (f'raw capacity-length buffer passed to {cn}(): the unused tail takes part in '
                           'the computation')
        if isinstance(p, ast.Attribute):
            if p.attr in _MAPPING_API and kind != 'ARR':
                return True, f'mapping API .{p.attr} (species-indexed value, not an array)'
            if p.attr in _LEN_FREE_ATTRS:
                return True, f'.{p.attr} does not depend on the length'
            return False, f'attribute .{p.attr} of the raw buffer'
        if isinstance(p, ast.Compare):
            if all(isinstance(o, (ast.Is, ast.IsNot)) for o in p.ops):
                return True, 'identity comparison'
            if kind == 'ARR':
                return False, 'element-wise comparison of the raw capacity-length buffer (the unused tail takes part)'
            return True, 'comparison'
        if isinstance(p, ast.Assert):
            return True, 'assertion'
        if isinstance(p, ast.Match) and p.subject is e and all(
                _pattern_classes(c.pattern) is not None or
                (isinstance(c.pattern, ast.MatchAs) and c.pattern.pattern is None) for c in p.cases):
            return True, 'dispatch on the class of the value'
        if isinstance(p, ast.Return):
            return False, 'raw buffer returned to the caller'
        if isinstance(p, (ast.Assign, ast.AnnAssign)) and getattr(p, 'value', None) is e:
            tgts = p.targets if isinstance(p, ast.Assign) else [p.target]
            if all(isinstance(t, ast.Name) for t in tgts):
                return None, 'alias'
            return False, f'raw buffer stored as {norm(tgts[0])}'
        if isinstance(p, (ast.Tuple, ast.List)) and isinstance(getattr(p, '_parent', None), ast.Assign) \
                and p._parent.value is p:
            i = p.elts.index(e)
            if all(isinstance(t, (ast.Tuple, ast.List)) and len(t.elts) == len(p.elts) and isinstance(t.elts[i], ast.Name)
                   for t in p._parent.targets):
                return None, 'alias'
        if isinstance(p, (ast.For, ast.comprehension)) and p.iter is e:
            return False, 'iteration over the raw capacity-length buffer'
        return False, f'unrecognised use in `{norm(p)[:60]}`'


def _size_writers(classes) -> set[str]:
    """names of methods of the container classes that (transitively, over self./super() calls) store self._size"""
    meths = {}
    for cls in classes:
        for name, m in cls.methods.items():
            meths.setdefault(name, []).append(m.node)
    out: set[str] = set()
    changed = True
    while changed:
        changed = False
        for name, nodes in meths.items():
            if name in out:
                continue
            for fn in nodes:
                hit = any(norm(t) == 'self._size' for t, st, how in stores_to(fn)) or any(
                    isinstance(c.func, ast.Attribute) and c.func.attr in out and name != '__init__'
                    for c in calls_in(fn))
                if hit:
                    out.add(name)
                    changed = True
                    break
    return out


def rule_buffers(ctx):
    prog = ctx.prog
    classes = prog.subclasses_of('Container')
    writers = _size_writers(classes)
    n_acc = 0
    for cls in classes:
        for meth in cls.methods.values():
            if meth.qualname in R3_OUT_OF_SCOPE:
                ctx.note(f'C02-R3: {meth.qualname} out of scope — {R3_OUT_OF_SCOPE[meth.qualname]}')
                continue
            fn = meth.node
            if not any(_is_source(n) or _table_iter(n) is not None for n in walk_no_nested(fn)):
                continue
            an = _Buffers(fn, writers)
            for n in walk_no_nested(fn):
                s = an.subject(n) if isinstance(n, (ast.Subscript, ast.Call, ast.Name)) else None
                if s is None or not isinstance(getattr(n, 'ctx', ast.Load()), ast.Load):
                    continue
                verdicts = [an.classify(st, n) for st in an.states_at(n)]
                if not verdicts:
                    continue                    # unreachable
                if all(v[0] is None for v in verdicts):
                    continue                    # binding of a local: its loads are judged where they happen
                bad = [v for v in verdicts if v[0] is False]
                ok, how = (False, bad[0][1]) if bad else (True, next(v[1] for v in verdicts if v[0]))
                n_acc += 1
                par = getattr(n, '_parent', None)
                ctx.ob('C02-R3', meth, f'{s} used as {norm(par)[:50]}', ok, how, line=n.lineno)
    ctx.floor('C02-R3', n_acc, 20, 'reads of the per-point buffers in Container and subclasses')

    # growth keeps the stored prefix and enlarges every buffer to the new capacity
    cm = prog.module(CONT)
    ex = cm.func('Container._expand_capacity')
    g = CFG(ex.node)
    dom = g.dominators(edge_ok=lambda a, b, lab: lab != 'e')
    caps = [(st, how) for t, st, how in stores_to(ex.node) if norm(t) == 'self._capacity']
    rs = [c for c in calls_in(ex.node) if call_name(c) in ('np.resize', 'numpy.resize')]

    def grows(st, how):
        if how == 'aug':
            return isinstance(st.op, (ast.Add, ast.Mult))
        v = st.value
        if isinstance(v, ast.Name):
            v = single_def_value(ex.node, v.id) or v
        return isinstance(v, ast.BinOp) and isinstance(v.op, (ast.Add, ast.Mult)) and \
            'self._capacity' in (norm(v.left), norm(v.right))

    def new_capacity(e):
        if isinstance(e, (ast.Tuple, ast.List)) and len(e.elts) == 1:
            e = e.elts[0]
        if norm(e) == 'self._capacity':
            return True
        return isinstance(e, ast.Name) and any(how == 'assign' and norm(st.value) == e.id for st, how in caps)
    ok = len(caps) == 1 and grows(*caps[0]) and bool(rs)
    why = 'growth no longer raises the capacity exactly once and resizes the arrays'
    if ok:
        capn = g.nodes_of(caps[0][0])
        for c in rs:
            st = stmt_of(c)
            size = c.args[1] if len(c.args) > 1 else next((k.value for k in c.keywords if k.arg == 'new_shape'), None)
            src = c.args[0] if c.args else None
            back = isinstance(st, ast.Assign) and st.value is c and src is not None and _is_source(src) \
                and all(isinstance(t, ast.Subscript) and _is_table(t.value) and norm(t.slice) == _key_of(src)
                        for t in st.targets)
            after = all(any(x in dom.get(i, ()) for x in capn) for i in g.nodes_of(st))
            if size is None or not new_capacity(size):
                ok, why = False, f'`{norm(c)[:60]}` does not resize to the new capacity'
            elif not back:
                ok, why = False, f'`{norm(st)[:60]}`: the enlarged array is not stored back into the slot it was read from'
            elif not after:
                ok, why = False, 'an array is resized before the capacity is raised'
    ctx.ob('C02-R3', ex, 'growth enlarges every buffer to the new capacity', ok,
           'capacity raised first, every array resized to it and stored back' if ok else why)

    # append: there is room for slot _size when it is written, and the point is counted afterwards
    ap = cm.func('Container._append_from_dict')
    g = CFG(ap.node)

    def room_branch(node, lab, st):
        if node.kind != 'test':
            return st
        for a, p in conjuncts(node.stmt.test, lab == 't'):
            if isinstance(a, ast.Compare) and len(a.ops) == 1:
                l, op, r = a.left, type(a.ops[0]), a.comparators[0]
                if not p:
                    op = {ast.Lt: ast.GtE, ast.GtE: ast.Lt, ast.Gt: ast.LtE, ast.LtE: ast.Gt,
                          ast.Eq: ast.NotEq, ast.NotEq: ast.Eq}.get(op)
                sl, sr = _size_text(l), _size_text(r)
                cl, cr = norm(l) == 'self._capacity', norm(r) == 'self._capacity'
                # size < capacity, capacity > size; size != capacity (size never exceeds the capacity)
                if (sl and cr and op in (ast.Lt, ast.NotEq)) or (cl and sr and op in (ast.Gt, ast.NotEq)):
                    return True
        return st

    def room_transfer(node, st):
        s = node.stmt
        if s is None or node.kind in ('join', 'finally', 'dispatch'):
            return st
        head = {'test': getattr(s, 'test', None), 'iter': getattr(s, 'iter', None), 'stmt': s}.get(node.kind)
        if head is None:
            return st
        if any(call_name(c) == 'self._expand_capacity' for c in calls_in(head)):
            st = True
        if node.kind == 'stmt' and any(norm(t) == 'self._size' for t, _, _ in stores_to(s)):
            st = False
        return st
    ins, _ = g.forward(False, room_transfer, lambda a, b: a and b, branch_transfer=room_branch)
    wr = [n for n in g.nodes if n.kind == 'stmt' and any(
        isinstance(t, ast.Subscript) and _size_text(t.slice) and isinstance(t.value, ast.Subscript) and _is_table(t.value.value)
        for t, _, _ in stores_to(n.stmt))]
    inc = [n for n in g.nodes if n.kind == 'stmt' and isinstance(n.stmt, ast.AugAssign)
           and norm(n.stmt.target) == 'self._size' and isinstance(n.stmt.op, ast.Add) and norm(n.stmt.value) == '1']
    allsz = [n for n in g.nodes if n.kind == 'stmt' and any(norm(t) == 'self._size' for t, _, _ in stores_to(n.stmt))]
    noexc = lambda a, b, lab: lab != 'e'   # noqa: E731
    ok = bool(wr) and all(ins.get(w.id, False) for w in wr) and len(inc) == 1 and len(allsz) == 1 \
        and all(g.reaches(w.id, inc[0].id, edge_ok=noexc) for w in wr) \
        and not any(g.reaches(inc[0].id, w.id, edge_ok=noexc) for w in wr)
    ctx.ob('C02-R3', ap, 'append: grow when full, write slot _size, then count it', ok,
           'there is room (size < capacity, or the buffers were just grown) on every path to the slot writes; '
           '_size += 1 follows them' if ok else
           'append ordering changed (write past capacity, or size counted before the write)')


# ----------------------------------------------------------------- R1/R2/R4/R7 ---
def flight_methods(prog):
    lm = prog.module(LEG)
    lb = lm.cls('LegacyBuilder')
    roots = [m for n, m in lb.methods.items() if n.startswith(('fly_', '_fly'))]
    roots.append(prog.func(BASE, 'Builder._start_point'))
    roots.append(prog.func(BASE, 'Builder._fly_iteration'))
    fns = [f for f in closure(prog, roots) if f.file.endswith((LEG, BASE))]
    return fns


def rule_bookkeeping(ctx):
    prog = ctx.prog
    fns = flight_methods(prog)
    mass_attrs = ('fuel_mass', 'aircraft_mass')
    pairs = 0
    for fi in fns:
        stores = [(t, st, how) for t, st, how in stores_to(fi.node)
                  if isinstance(t, ast.Attribute) and t.attr in mass_attrs + ('flight_time', 'ground_distance')
                  and norm(t.value) not in ('self', 'traj')]
        by_block = {}
        for t, st, how in stores:
            by_block.setdefault(id(getattr(st, '_parent', None)), []).append((t, st, how))
        for t, st, how in stores:
            a = t.attr
            if fi.qualname == 'Builder._start_point':
                if a in mass_attrs:
                    want = {'aircraft_mass': 'self.starting_mass', 'fuel_mass': 'self.total_fuel_mass'}[a]
                    ok = how == 'assign' and norm(st.value) == want
                    ctx.ob('C02-R5', fi, norm(st), ok,
                           'first point carries the context value fly() reports' if ok else
                           f'first point {a} is not initialised from {want}', line=st.lineno)
                else:
                    ok = how == 'assign' and isinstance(st.value, ast.Constant) and st.value.value == 0
                    ctx.ob('C02-R7', fi, norm(st), ok, 'accumulator starts at zero' if ok else
                           f'{a} does not start at zero', line=st.lineno)
                continue
            if a in mass_attrs:
                if not (how == 'aug' and isinstance(st.op, ast.Sub)):
                    ctx.ob('C02-R1', fi, norm(st), False,
                           f'{a} written other than by subtracting the segment fuel', line=st.lineno)
                    continue
                other = 'aircraft_mass' if a == 'fuel_mass' else 'fuel_mass'
                sib = [s for tt, s, h in by_block[id(getattr(st, '_parent', None))]
                       if tt.attr == other and norm(tt.value) == norm(t.value) and h == 'aug'
                       and isinstance(s.op, ast.Sub)]
                ok = len(sib) == 1 and norm(sib[0].value) == norm(st.value)
                if ok:
                    # no redefinition of the subtracted name between the two statements
                    lo, hi = sorted([st.lineno, sib[0].lineno])
                    names = {x.id for x in ast.walk(st.value) if isinstance(x, ast.Name)}
                    redef = [s for tt, s, h in stores_to(fi.node) if isinstance(tt, ast.Name) and tt.id in names
                             and lo < s.lineno < hi]
                    ok = not redef
                pairs += 1 if a == 'fuel_mass' else 0
                ctx.ob('C02-R1', fi, f'{norm(st)} paired with {other}', ok,
                       'same segment fuel subtracted from both in one block' if ok else
                       f'{a} and {other} are not decremented by the same amount in the same block: '
                       'aircraft mass minus fuel mass is no longer constant', line=st.lineno)
            else:
                ok = how == 'aug' and isinstance(st.op, ast.Add)
                ctx.ob('C02-R7', fi, norm(st), ok, 'accumulated by addition' if ok else
                       f'{a} is assigned or decreased on the flight path', line=st.lineno)
    ctx.floor('C02-R1', pairs, 2, 'fuel/aircraft mass decrement pairs')

    # R2 clamp dominance
    lm = prog.module(LEG)
    lc = lm.func('LegacyBuilder._fly_level_change')
    g = CFG(lc.node)
    dom = g.dominators(edge_ok=lambda a, b, lab: lab != 'e')
    uses = [n for n in g.nodes if n.kind == 'stmt' and isinstance(n.stmt, ast.AugAssign)
            and isinstance(n.stmt.target, ast.Attribute) and n.stmt.target.attr in mass_attrs]
    for u in uses:
        var = norm(u.stmt.value)
        clamp_tests = [n for n in g.nodes if n.kind == 'test' and isinstance(n.stmt, ast.If)
                       and norm(n.stmt.test) in (f'{var} < 0', f'{var} <= 0', f'0 > {var}')
                       and any(isinstance(s, ast.Assign) and norm(s.targets[0]) == var and
                               isinstance(s.value, ast.Constant) and s.value.value == 0 for s in n.stmt.body)]
        maxform = [n for n in g.nodes if n.kind == 'stmt' and isinstance(n.stmt, ast.Assign)
                   and norm(n.stmt.targets[0]) == var and isinstance(n.stmt.value, ast.Call)
                   and call_name(n.stmt.value) in ('max', 'np.maximum', 'np.clip')]
        gates = clamp_tests + maxform
        ok = False
        why = f'no non-negativity clamp on `{var}` before it is subtracted'
        for t in gates:
            if t.id in dom[u.id]:
                # no other def of var between the clamp test and the use
                clamp_body = set()
                if t.kind == 'test':
                    clamp_body = {x for s in t.stmt.body for x in g.nodes_of(s)}
                defs = [n for n in g.nodes if n.kind == 'stmt' and n.id not in clamp_body and n.id != t.id and any(
                    isinstance(tt, ast.Name) and tt.id == var for tt, s, h in stores_to(n.stmt))]
                between = [d for d in defs if g.reaches(t.id, d.id, edge_ok=lambda a, b, lab: lab != 'e' and b != u.id)
                           and g.reaches(d.id, u.id, edge_ok=lambda a, b, lab: lab != 'e')
                           and not _loop_back(g, d.id, t.id, u.id)]
                if not between:
                    ok, why = True, f'clamp at line {t.line} dominates the decrement and nothing redefines `{var}` after it'
                else:
                    why = f'`{var}` is redefined at line {between[0].line} after the clamp'
        ctx.ob('C02-R2', lc, f'{norm(u.stmt)} uses clamped {var}', ok, why, line=u.line)
    ctx.floor('C02-R2', len(uses), 2, 'mass decrements in _fly_level_change')

    # R4 position/distance pairing
    npos = 0
    for fi in fns:
        if fi.qualname == 'Builder._start_point':
            continue
        for t, st, how in stores_to(fi.node):
            if isinstance(t, ast.Attribute) and t.attr in ('longitude', 'latitude', 'azimuth') \
                    and norm(t.value) == 'pt':
                npos += 1
                v = st.value
                src_ok = isinstance(v, ast.Attribute) and v.attr == t.attr
                base = v
                while isinstance(base, ast.Attribute):
                    base = base.value
                step_call = single_def_value(fi.node, base.id) if isinstance(base, ast.Name) else None
                from_step = isinstance(step_call, ast.Call) and call_name(step_call) == 'self.ground_track.step'
                ok = src_ok and from_step
                why = f'{t.attr} taken from the stepped ground-track point'
                if not src_ok:
                    why = f'pt.{t.attr} receives `{norm(v)}`: a different component'
                elif not from_step:
                    why = 'position does not come from ground_track.step()'
                if ok:
                    a0, a1 = step_call.args[0], step_call.args[1]
                    ok = norm(a0) == 'pt.ground_distance'
                    if not ok:
                        why = f'step starts from `{norm(a0)}`, not from the point\'s accumulated ground distance'
                    else:
                        blk = getattr(st, '_parent', None)
                        adds = [s for tt, s, h in stores_to(fi.node) if norm(tt) == 'pt.ground_distance'
                                and getattr(s, '_parent', None) is blk]
                        ok = len(adds) == 1 and isinstance(adds[0], ast.AugAssign) and norm(adds[0].value) == norm(a1)
                        why = (f'the same `{norm(a1)}` is added to pt.ground_distance in that block' if ok else
                               f'the distance stepped (`{norm(a1)}`) is not the distance added to pt.ground_distance')
                        if ok:
                            sc = stmt_of(step_call)
                            lo, hi = sorted([sc.lineno, adds[0].lineno])
                            ok = adds[0].lineno > sc.lineno
                            if not ok:
                                why = 'ground distance is advanced before the step is taken from it'
                ctx.ob('C02-R4', fi, norm(st), ok, why, line=st.lineno)
    ctx.floor('C02-R4', npos, 6, 'position writes on the flight path')
    sp = prog.func(BASE, 'Builder._start_point')
    for t, st, how in stores_to(sp.node):
        if isinstance(t, ast.Attribute) and t.attr in ('longitude', 'latitude', 'azimuth'):
            ok = isinstance(st.value, ast.Attribute) and st.value.attr == t.attr and 'start' in norm(st.value)
            ctx.ob('C02-R4', sp, norm(st), ok, 'first point is the start of the ground track' if ok else
                   'first point position does not come from the track start', line=st.lineno, nontrivial=False)
    from .c15 import rule_track  # leg coherence of the forward geodesic
    sub = type(ctx)(ctx.prop, ctx.prog, ctx.tier)
    rule_track(sub)
    for o in sub.obligations:
        if o.rule == 'C15-R5':
            o.rule = 'C02-R4'
            ctx.obligations.append(o)

    # R5: fly() reports the same context fields
    fly = prog.func(BASE, 'Builder.fly')
    want = {'traj.starting_mass': 'self.starting_mass', 'traj.total_fuel_mass': 'self.total_fuel_mass'}
    for t, st, how in stores_to(fly.node):
        if norm(t) in want:
            ok = norm(st.value) == want[norm(t)]
            ctx.ob('C02-R5', fly, norm(st), ok, 'reported metadata is the context value' if ok else
                   'reported starting mass / fuel load differs from what the first point carries', line=st.lineno)


def _loop_back(g, d, t, u):
    return False


# ----------------------------------------------------------------- R6/R8 ---
def rule_schedule(ctx):
    prog = ctx.prog
    lm = prog.module(LEG)
    ini = lm.func('LegacyContext.__init__')
    g = CFG(ini.node)
    dom = g.dominators(edge_ok=lambda a, b, lab: lab != 'e')
    sup = [n for n in g.nodes if n.stmt is not None and n.kind == 'stmt' and
           any(call_name(c) == 'super().__init__' or (isinstance(c.func, ast.Attribute) and c.func.attr == '__init__'
               and isinstance(c.func.value, ast.Call) and call_name(c.func.value) == 'super') for c in calls_in(n.stmt))]
    raises = [n for n in g.nodes if n.kind == 'stmt' and isinstance(n.stmt, ast.Raise)]
    want = [
        ('cruise level below climb start', lambda t: 'crz_start_altitude < self.clm_start_altitude' in t),
        ('descent end above descent start', lambda t: 'des_end_altitude > self.des_start_altitude' in t),
        ('arrival above cruise level', lambda t: 'descent_dist_approx < 0' in t),
    ]
    for what, pred in want:
        hit = [r for r in raises if any(pred(norm(t)) and pol for t, pol, _ in guards_of(r.stmt))]
        ok = bool(hit) and bool(sup) and all(
            any(x in dom[sup[0].id] for _, _, o in guards_of(h.stmt) for x in g.nodes_of(o)) for h in hit)
        ctx.ob('C02-R6', ini, f'infeasible schedule refused: {what}', ok,
               'raise evaluated before the context is completed' if ok else
               f'a mission with {what} is no longer refused before flying', line=(hit[0].line if hit else ini.node.lineno))
    # offsets and fall-backs
    defs = {}
    for t, st, how in stores_to(ini.node):
        if isinstance(t, ast.Attribute) and norm(t.value) == 'self':
            defs.setdefault(t.attr, []).append(st)
    shape = [
        ('clm_start_altitude', 0, 'mission.origin_position.altitude + 3000.0 * FEET_TO_METERS', None),
        ('clm_start_altitude', 1, 'mission.origin_position.altitude', 'self.clm_start_altitude >= ac_performance.maximum_altitude'),
        ('des_end_altitude', 0, 'mission.destination_position.altitude + 3000.0 * FEET_TO_METERS', None),
        ('des_end_altitude', 1, 'ac_performance.maximum_altitude', 'self.des_end_altitude >= ac_performance.maximum_altitude'),
        ('des_start_altitude', 0, 'self.crz_start_altitude', None),
        ('crz_start_altitude', 1, 'self.clm_start_altitude', 'self.crz_start_altitude < self.clm_start_altitude'),
        ('crz_start_altitude', 2, 'ac_performance.maximum_altitude', 'self.crz_start_altitude > ac_performance.maximum_altitude'),
    ]
    for attr, i, val, guard in shape:
        sts = sorted(defs.get(attr, []), key=lambda s: s.lineno)
        if len(sts) <= i:
            ctx.ob('C02-R6', ini, f'{attr} definition #{i}', False, 'definition missing', line=ini.node.lineno)
            continue
        st = sts[i]
        v = norm(st.value).replace('3000 *', '3000.0 *')
        gs = [norm(t) for t, pol, _ in guards_of(st) if pol]
        ok = v == val and (guard is None and not gs or guard in gs)
        ctx.ob('C02-R6', ini, f'self.{attr} = {v}' + (f' if {gs}' if gs else ''), ok,
               'documented altitude schedule' if ok else f'expected `{val}`' + (f' under `{guard}`' if guard else ''),
               line=st.lineno)
    ia = [k for k in (sup[0].stmt.value.keywords if sup else []) if k.arg == 'initial_altitude']
    ok = bool(ia) and norm(ia[0].value) == 'self.clm_start_altitude'
    ctx.ob('C02-R6', ini, 'trajectory starts at the climb start altitude', ok,
           'initial_altitude=self.clm_start_altitude' if ok else 'initial altitude is not the climb start altitude',
           nontrivial=False)

    # R8
    lc = lm.func('LegacyBuilder._fly_level_change')
    da = single_def_value(lc.node, 'delta_altitude')
    alt = [st for t, st, how in stores_to(lc.node) if norm(t) == 'pt.altitude']
    loop = next((n for n in walk_no_nested(lc.node) if isinstance(n, ast.For) and any(a is n for s in alt for a in ancestors(s))), None)
    ok = False
    why = 'altitude schedule shape not recognised'
    if da is not None and len(alt) == 1 and loop is not None and isinstance(loop.iter, ast.Call) \
            and call_name(loop.iter) == 'range' and len(loop.iter.args) == 1:
        n_expr = loop.iter.args[0]
        ivar = norm(loop.target)
        last = ast.BinOp(left=n_expr, op=ast.Sub(), right=ast.Constant(1))
        env = {ivar: last, 'delta_altitude': da}
        try:
            lhs = normal_form(alt[0].value, env)
            rhs = normal_form(ast.Name('end_altitude', ast.Load()), {})
            ok = poly_equal(lhs, rhs)
            why = ('with i = n_points − 1: start + i·(end − start)/(n_points − 1) ≡ end_altitude' if ok else
                   f'last point altitude normalises to {lhs}, not end_altitude')
        except Exception as e:  # unknown operator: undecided
            ctx.undecided('C02-R8', lc, norm(alt[0]), f'cannot normalise: {e}')
        # the last iteration must append and stop
        brk = [n for n in walk_no_nested(loop) if isinstance(n, ast.If) and norm(n.test) in (
            f'{ivar} == {norm(n_expr)} - 1',) and any(isinstance(s, ast.Break) for s in n.body)
            and any('traj.append' in norm(s) for s in n.body)]
        ok = ok and bool(brk)
        if not brk and ok is False and 'normalises' not in why:
            why = 'last point is not appended before leaving the loop'
    ctx.ob('C02-R8', lc, 'altitude schedule ends exactly at the target level', ok, why,
           line=(alt[0].lineno if alt else lc.node.lineno))
    calls = {'LegacyBuilder.fly_climb': ('self.clm_start_altitude', 'self.crz_start_altitude', 'FlightPhase.CLIMB', 'SimpleFlightRules.CLIMB'),
             'LegacyBuilder.fly_descent': ('self.des_start_altitude', 'self.des_end_altitude', 'FlightPhase.DESCENT', 'SimpleFlightRules.DESCEND')}
    for qn, (s, e, ph, rl) in calls.items():
        fi = lm.func(qn)
        cs = [c for c in calls_in(fi.node) if call_name(c) == 'self._fly_level_change']
        ok = len(cs) == 1 and len(cs[0].args) == 6 and norm(cs[0].args[4]) == s and norm(cs[0].args[5]) == e \
            and norm(cs[0].args[1]) == ph and norm(cs[0].args[2]) == rl
        ctx.ob('C02-R8', fi, f'level change from {s} to {e} under {rl}', ok,
               'phase flown between its own altitudes with its own flight rule' if ok else
               'phase is flown between the wrong altitudes or with the wrong performance rule',
               line=(cs[0].lineno if cs else fi.node.lineno))
    cz = lm.func('LegacyBuilder.fly_cruise')
    a = [st for t, st, how in stores_to(cz.node) if norm(t) == 'pt.altitude']
    ok = len(a) == 1 and norm(a[0].value) == 'self.crz_start_altitude' and not any(isinstance(x, (ast.For, ast.While)) for x in ancestors(a[0]))
    ctx.ob('C02-R8', cz, 'cruise altitude constant at the cruise level', ok,
           'set once before the cruise loop' if ok else 'cruise altitude varies or is not the cruise level',
           line=(a[0].lineno if a else cz.node.lineno))


def rule_resample(ctx):
    """R9: time resampling interpolates each per-point field against the
    trajectory's own flight-time axis (np.interp(x=new times, xp=own times,
    fp=field view)), copies per-trajectory fields, and sizes the result by the
    new time vector."""
    prog = ctx.prog
    fi = prog.func(TRAJ, 'Trajectory.interpolate_time')
    ot = single_def_value(fi.node, 'orig_time')
    ok = ot is not None and norm(ot) == "self._data['flight_time'][:self._size]"
    ctx.ob('C02-R9', fi, f'abscissa = {norm(ot) if ot is not None else "?"}', ok,
           'the stored flight times' if ok else 'resampling abscissa is not the view of the flight_time field')
    calls = [c for c in calls_in(fi.node) if call_name(c) in ('np.interp', 'numpy.interp')]
    ctx.floor('C02-R9', len(calls), 2, 'np.interp calls in interpolate_time')
    for c in calls:
        a = [norm(x) for x in c.args[:3]]
        ok = len(a) == 3 and a[0] == fi.params[1] and a[1] == 'orig_time' and a[2].startswith('self._data[name]')
        ctx.ob('C02-R9', fi, f'np.interp({", ".join(a)})', ok, 'x = new times, xp = own times, fp = the field' if ok else
               'interpolation arguments are permuted or refer to another array', line=c.lineno)
        edge = {k.arg: norm(k.value) for k in c.keywords}
        ok = edge == {'left': 'np.nan', 'right': 'np.nan'}
        ctx.ob('C02-R9', fi, f'outside the flown interval: {edge}', ok, 'NaN, not an extrapolated value' if ok else
               'times outside the trajectory are extrapolated/clamped', line=c.lineno, nontrivial=False)
    nt = single_def_value(fi.node, 'new_traj')
    ok = nt is not None and norm(nt) == f'Trajectory(len({fi.params[1]}), fieldsets=list(self._fieldsets))'
    ctx.ob('C02-R9', fi, 'result sized by the new time vector, same field sets', ok, norm(nt) if ok else 'result container changed')
    cp = [st for t, st, how in stores_to(fi.node) if norm(t) == 'new_traj._data[name]' and isinstance(getattr(st, 'value', None), ast.Call)
          and call_name(st.value) == 'deepcopy']
    ok = len(cp) == 1 and norm(cp[0].value) == 'deepcopy(self._data[name])'
    ctx.ob('C02-R9', fi, 'per-trajectory fields copied unchanged', ok, 'deepcopy' if ok else 'per-trajectory fields are not carried over', nontrivial=False)


def run(ctx):
    rule_resample(ctx)
    rule_buffers(ctx)
    rule_bookkeeping(ctx)
    rule_schedule(ctx)
    # R10: a state outside the performance envelope is refused (the no-extrapolation rule of C06)
    from .c06 import rule_no_extrapolation
    sub = type(ctx)(ctx.prop, ctx.prog, ctx.tier)
    rule_no_extrapolation(sub)
    for o in sub.obligations:
        o.rule = 'C02-R10'
        ctx.obligations.append(o)
    ctx.controls += sub.controls
    ctx.assumptions += ['monotonicity of time/distance and altitude values depend on table values (not decided)',
                        'np.resize keeps the leading elements of the resized buffer']
