"""C02 — simulated trajectories obey mass, time, distance and route bookkeeping.

R3 is a dataflow rule on the CFG.  The other rules are decided on the values
that flow, with the symbolic execution engine of c06.py ("Value flow"): each
phase method of the builder (fly_<phase> for the members of FlightPhase) is
executed with the builder's own helpers inlined; the stepping loop of a phase is
summarised by one symbolic iteration in which the point's fields read back as the
value the previous step left (`_cur(point.field)`); a *step* is one way through
that iteration.  Helper extraction, hoisting, renaming, reordering of
independent statements, `x -= a` vs `x = x - a`, for vs while do not change what
the rules see.

R1  paired decrement: on every step the total taken off fuel_mass and the total
    taken off aircraft_mass of the same point are the same amount (algebraic
    equality), both are written only by subtracting from their previous value
    (a bound put on the result of one subtraction -- max(prev - a, 0), clip --
    takes a different amount off that mass than off the other and is reported
    as such), and a phase that is not the first continues from the last stored
    point (make_point(-1)).
R2  clamp: in the level-change phases the amount subtracted on a step is zero,
    max(., 0), or the step's path condition excludes a negative amount (the path
    condition is evaluated with the amount at -1).
R3  buffer-view discipline of the growable container (forward must-dataflow on
    the CFG of every method of Container and its subclasses).  A value read
    from the field table (`self._data[k]`, `self._data.get(k)`, a loop over
    `.values()` / `.items()`, or any local such a value flows into) may be a
    capacity-length per-point buffer unless the branches taken on *every* path
    to the use say otherwise (isinstance / type() / match class patterns /
    `is None` / dimension tests on the field's metadata / assert, in either
    polarity, through and/or/not, early return, continue, raise).  While it may
    be one it is used only through the `[: self._size]` view, as the append slot
    `[self._size] =`, as an argument of the whole-buffer operations, in a
    length-independent way (.dtype, identity tests), or indexed by an index
    that the paths to the use prove to be in [0, _size) (comparisons in either
    orientation, chained, `in range(_size)`, loop over `range(_size)`; a
    negative index resolved against the stored points -- `i + _size` / `i +=
    _size` where the paths prove -_size <= i < 0 -- , `i % _size`, a
    conditional between proven arms, a local bound to a proven index; the
    facts die when the index or `_size` is written).  It is not returned,
    stored elsewhere, iterated, compared element-wise or passed on raw.
    Growth (value flow): the capacity is raised once; every np.resize takes an
    array out of the field table under a key, resizes it to the *raised*
    capacity and stores it back under the same key.  Append has room (size <
    capacity on the path, or just grown) when slot `_size` is written and counts
    the point afterwards.
R4  position <-> distance pairing: on every step the longitude / latitude /
    azimuth written to the point are those components of one track point
    (when the track's point class is a NamedTuple, position k of a point reads
    as its k-th field, so unpacking and attribute access are one thing),
    obtained by ground_track.step(a, d) with a the point's ground distance on
    entry and a + d equal (algebraically) to the ground distance the step
    leaves, or by location(x) with x equal to that distance and a path that
    excludes a negative advance; ground_track.step itself refuses a negative
    step: every returning path, evaluated with the step at -1, is closed by a
    test on the way (helpers of the file opened; a result delegated to methods
    of the class -- directly, through a conditional callee or a literal
    dispatch table -- followed into every delegate, so a refusal that covers
    only some of the ways to a returned point is reported with that return).
    The first point is the start of the track.  The forward-geodesic leg
    coherence rule of the ground track (C15-R5) is part of this clause.
    A helper object the flight context keeps (a cursor whose methods step /
    look up a track held in one of its fields; its methods are opened) is
    read through: its track field must be the context's ground track at every
    construction, and the distance it keeps must equal the point's ground
    distance whenever a step begins -- by induction: every way through the
    stepping loop changes the two by the same amount, and on the way to the
    loop (for the first phase: from the start of a flight iteration, the unit
    the mass iteration repeats) the last value it is given is the point's
    ground distance there.  A cursor never seated inside the flight iteration
    steps a second pass from where the first one ended.
R5  first point: the point the climb loop advances is initialised with the
    context's starting_mass / total_fuel_mass, the same fields fly() copies
    into the returned trajectory's metadata (through whatever helper); or it
    reads those two reported fields off the trajectory it belongs to, and on
    every returning path of fly() (helpers opened) each trajectory has them
    stored before any call receives it (the phases flown on it see the value)
    and not set to another value afterwards, and the trajectory returned is
    one of these.  The context fields still hold what the returned trajectory
    was flown with when fly() reports them (forward dataflow over the CFGs of
    fly() and the builder methods it calls: no store to self.starting_mass /
    self.total_fuel_mass lies on a path between the last call of the method
    that builds and flies a trajectory and the store into the trajectory's
    metadata).
R6  altitude schedule and refusals (scenario evaluation): the paths of the
    context constructor are evaluated on eleven explicit missions (origin /
    destination elevation / ceiling covering every branch of the documented
    schedule); the path taken must give the documented climb start, cruise
    level, descent start and end, start the trajectory at the climb start, and
    refuse -- before the base context is initialised -- exactly the missions
    whose climb start lies above the cruise level or whose descent would end
    above it.
R7  accumulators: flight_time and ground_distance start at 0 and on every step
    become their previous value plus the step's amounts.
R8  altitude schedule of a phase (algebra): the altitude written in the stepping
    loop, as a function of the loop index, is the phase's own start altitude at
    index 0 and its own end altitude at index n-1; the step with index n-1
    appends its point and flies no further segment; cruise altitude is set once
    to the cruise level; each phase evaluates the performance model under its
    own flight rule and marks its points with its own phase.
R9  resampling (value flow over Trajectory.interpolate_time, evaluated per kind
    of field from the dimension tests on the path): a per-point field of the
    result is np.interp(x = the new times as given, xp = the stored-points view
    of this trajectory's own flight_time, fp = the stored-points view of the same
    field, NaN outside); a per-point species field is that per species of the
    same field; other fields are deep copies of the same field; the result is a
    Trajectory sized by the new time vector with the same field sets.
R10 out-of-envelope states are refused rather than extrapolated or filled with
    NaN: the evaluate path of the performance model interpolates only with
    look-ups that refuse a point outside the grid -- scipy interpn or a prebuilt
    RegularGridInterpolator / interp1d object with bounds checking on -- over
    its own table (C06-R2).
"""

from __future__ import annotations

import ast
import re

from ..algebra import poly_equal
from ..astutil import first_stmt, last_stmt  # noqa: F401
from ..astutil import (call_name, calls_in, conjuncts, const_value, guards_of, local_defs, norm, stores_to, walk_no_nested)
from ..cfg import CFG
from ..loader import AnalysisError

LEG = 'trajectories/builders/legacy.py'
BASE = 'trajectories/builders/base.py'
CONT = 'storage/container.py'
TRAJ = 'trajectories/trajectory.py'

# methods whose raw-buffer use is outside C02's statement (reason given)
R3_OUT_OF_SCOPE = {
    'Trajectory.compare': 'verification helper, not part of the builder / resampling behaviour C02 states '
                          '(it does pass raw buffers to ComparisonMetrics.compute — noted, not claimed)',
}
WHOLE_BUFFER_OPS = {'np.resize', 'deepcopy', 'copy.deepcopy', 'isinstance', 'numpy.resize'}


# ----------------------------------------------------------------- R3 -----
# Buffer-view discipline, decided by a forward must-dataflow over the CFG.
#
# Tracked values ("subjects"): an expression that reads a field value out of the
# container's own table -- `self._data[k]`, `self._data.get(k[, d])` -- and every
# local that may hold one (bound by assignment / unpacking / walrus / a loop over
# `self._data.values()` / `.items()`).  Facts are *must* facts (joined by
# intersection; no fact = "may be a capacity-length array"):
#   ('k', subject, 'ARR')    the value is an ndarray on every path to here
#   ('k', subject, 'OTHER')  the value is not a raw capacity-length buffer
#   ('a', local, key)        the local holds self._data[key] for the current key
#   ('dim', key, '')         the data-dictionary entry of key is not a per-point array
#   ('i', index, 'ge0')      index >= 0          ('i', index, 'lt')   index < self._size
#   ('i', index, 'neg')      index < 0           ('i', index, 'gem')  index >= -self._size
# Facts come from the branch taken at a test (`isinstance`, `type() is`,
# `is None`, dimension tests on the field's metadata, index comparisons, in any
# boolean combination and either polarity), from `assert`, from `match` class
# patterns, from `for i in range(self._size)`, and from the value a local is
# bound to; they die when a name they mention is rebound or the table slot /
# `_size` is written.
_ND = {'np.ndarray', 'numpy.ndarray', 'ndarray'}
_LEN_FREE_ATTRS = {'dtype', 'ndim', 'itemsize'}
_MAPPING_API = {'keys', 'values', 'items', 'update'}
_IDENT = re.compile(r'[A-Za-z_]\w*')


def _size_text(e: ast.AST) -> bool:
    return norm(e) in ('self._size', 'len(self)', 'self.__len__()')


def _is_view_slice(sub: ast.Subscript) -> bool:
    s = sub.slice
    if not isinstance(s, ast.Slice) or s.upper is None or not _size_text(s.upper):
        return False
    lo_ok = s.lower is None or (isinstance(s.lower, ast.Constant) and s.lower.value in (0, None))
    st_ok = s.step is None or (isinstance(s.step, ast.Constant) and s.step.value in (1, None))
    return lo_ok and st_ok


def _is_table(e: ast.AST) -> bool:
    return norm(e) == 'self._data'


def _is_source(e: ast.AST) -> bool:
    """expression that reads a field value out of self._data"""
    if isinstance(e, ast.Subscript) and _is_table(e.value) and isinstance(e.ctx, ast.Load):
        return True
    return isinstance(e, ast.Call) and isinstance(e.func, ast.Attribute) and e.func.attr == 'get' \
        and _is_table(e.func.value) and bool(e.args)


def _key_of(e: ast.AST) -> str:
    return norm(e.slice) if isinstance(e, ast.Subscript) else norm(e.args[0])


def _table_iter(it: ast.AST) -> str | None:
    """'values' | 'items' when `it` iterates the table's values"""
    if isinstance(it, ast.Call) and isinstance(it.func, ast.Attribute) and _is_table(it.func.value) \
            and it.func.attr in ('values', 'items') and not it.args:
        return it.func.attr
    return None


def _bindings(t: ast.AST, v: ast.AST | None):
    """(local name, value expr | None) pairs of a binding, element-wise through tuples"""
    if isinstance(t, ast.Name):
        yield t.id, v
    elif isinstance(t, (ast.Tuple, ast.List)):
        if isinstance(v, (ast.Tuple, ast.List)) and len(v.elts) == len(t.elts) \
                and not any(isinstance(x, ast.Starred) for x in list(t.elts) + list(v.elts)):
            for a, b in zip(t.elts, v.elts):
                yield from _bindings(a, b)
        else:
            for a in t.elts:
                yield from _bindings(a, None)
    elif isinstance(t, ast.Starred):
        yield from _bindings(t.value, None)


def _type_parts(T: ast.AST) -> list[str]:
    if isinstance(T, ast.BinOp) and isinstance(T.op, ast.BitOr):
        return _type_parts(T.left) + _type_parts(T.right)
    if isinstance(T, (ast.Tuple, ast.List)):
        return [x for e in T.elts for x in _type_parts(e)]
    return [norm(T)]


def _pattern_classes(p) -> list[str] | None:
    if isinstance(p, ast.MatchClass) and not p.patterns and not p.kwd_patterns:
        return [norm(p.cls)]
    if isinstance(p, ast.MatchAs) and p.pattern is not None:
        return _pattern_classes(p.pattern)
    if isinstance(p, ast.MatchOr):
        out = []
        for q in p.patterns:
            c = _pattern_classes(q)
            if c is None:
                return None
            out += c
        return out
    return None


def _index_facts(l, op, r, pol):
    """facts about an index from `l op r` having truth value pol"""
    neg = {ast.Lt: ast.GtE, ast.GtE: ast.Lt, ast.Gt: ast.LtE, ast.LtE: ast.Gt}
    flip = {ast.Lt: ast.Gt, ast.Gt: ast.Lt, ast.LtE: ast.GtE, ast.GtE: ast.LtE}
    t = type(op)
    if t not in neg:
        return
    if not pol:
        t = neg[t]

    def size_minus_1(e):
        return isinstance(e, ast.BinOp) and isinstance(e.op, ast.Sub) and _size_text(e.left) \
            and isinstance(e.right, ast.Constant) and e.right.value == 1
    for x, rel, b in ((l, t, r), (r, flip[t], l)):
        c = b.value if isinstance(b, ast.Constant) and isinstance(b.value, int) and not isinstance(b.value, bool) else None
        if c is not None and ((rel is ast.GtE and c >= 0) or (rel is ast.Gt and c >= -1)):
            yield ('i', norm(x), 'ge0')
        if (_size_text(b) and rel is ast.Lt) or (size_minus_1(b) and rel is ast.LtE):
            yield ('i', norm(x), 'lt')
        if c is not None and ((rel is ast.Lt and c <= 0) or (rel is ast.LtE and c <= -1)):
            yield ('i', norm(x), 'neg')
        if isinstance(b, ast.UnaryOp) and isinstance(b.op, ast.USub) and _size_text(b.operand) and rel in (ast.GtE, ast.Gt):
            yield ('i', norm(x), 'gem')


class _Buffers:
    """the analysis of one method"""

    def __init__(self, fn: ast.AST, size_writers: set[str]):
        self.fn = fn
        self.size_writers = size_writers
        self.g = CFG(fn)
        self.aliases: set[str] = set()
        self._find_aliases()
        self.meta_of = self._metadata_names()
        self.ins, _ = self.g.forward(frozenset(), self._transfer, lambda a, b: a & b,
                                     branch_transfer=self._branch)

    # -- which locals may hold a field value (flow-insensitive, to a fixpoint)
    def may_source(self, v) -> bool:
        if v is None:
            return False
        if _is_source(v) or (isinstance(v, ast.Name) and v.id in self.aliases):
            return True
        if isinstance(v, ast.IfExp):
            return self.may_source(v.body) or self.may_source(v.orelse)
        if isinstance(v, ast.NamedExpr):
            return self.may_source(v.value)
        if isinstance(v, ast.BoolOp):
            return any(self.may_source(x) for x in v.values)
        return False

    def _find_aliases(self):
        changed = True
        while changed:
            changed = False
            for n in walk_no_nested(self.fn):
                pairs = []
                if isinstance(n, ast.Assign):
                    for t in n.targets:
                        pairs += list(_bindings(t, n.value))
                elif isinstance(n, ast.AnnAssign) and n.value is not None:
                    pairs += list(_bindings(n.target, n.value))
                elif isinstance(n, ast.NamedExpr):
                    pairs.append((n.target.id, n.value))
                elif isinstance(n, (ast.For, ast.AsyncFor, ast.comprehension)):
                    how, t = _table_iter(n.iter), n.target
                    if how == 'values' and isinstance(t, ast.Name) and t.id not in self.aliases:
                        self.aliases.add(t.id)
                        changed = True
                    elif how == 'items' and isinstance(t, (ast.Tuple, ast.List)) and len(t.elts) == 2 \
                            and isinstance(t.elts[1], ast.Name) and t.elts[1].id not in self.aliases:
                        self.aliases.add(t.elts[1].id)
                        changed = True
                for name, v in pairs:
                    if name not in self.aliases and self.may_source(v):
                        self.aliases.add(name)
                        changed = True

    def _metadata_names(self) -> dict[str, str]:
        """locals that hold the data-dictionary entry of a key: `for k, f in
        <...>_data_dictionary.items()` and `f = <...>_data_dictionary[k]`; only
        when that is the local's single binding"""
        out: dict[str, list] = {}
        for n in walk_no_nested(self.fn):
            if isinstance(n, (ast.For, ast.comprehension)) and isinstance(n.iter, ast.Call) \
                    and isinstance(n.iter.func, ast.Attribute) and n.iter.func.attr == 'items' \
                    and norm(n.iter.func.value) == 'self._data_dictionary' \
                    and isinstance(n.target, (ast.Tuple, ast.List)) and len(n.target.elts) == 2 \
                    and all(isinstance(x, ast.Name) for x in n.target.elts):
                out.setdefault(n.target.elts[1].id, []).append(n.target.elts[0].id)
            elif isinstance(n, ast.Assign) and len(n.targets) == 1 and isinstance(n.targets[0], ast.Name) \
                    and isinstance(n.value, ast.Subscript) and norm(n.value.value) == 'self._data_dictionary':
                out.setdefault(n.targets[0].id, []).append(norm(n.value.slice))
        return {m: ks[0] for m, ks in out.items() if len(ks) == 1 and len(local_defs(self.fn, m)) == 1}

    # -- subjects
    def subject(self, e: ast.AST) -> str | None:
        if _is_source(e):
            return norm(e)
        if isinstance(e, ast.Name) and e.id in self.aliases:
            return e.id
        if isinstance(e, ast.NamedExpr) and e.target.id in self.aliases:
            return e.target.id
        return None

    def kind(self, st: frozenset, e: ast.AST) -> str:
        """'ARR' | 'OTHER' | 'ANY' for the value of subject expression e in state st"""
        s = self.subject(e)
        keys = set()
        if _is_source(e):
            keys.add(_key_of(e))
        keys |= {f[2] for f in st if f[0] == 'a' and f[1] == s}
        if ('k', s, 'OTHER') in st or any(('dim', k, '') in st for k in keys):
            return 'OTHER'
        if ('k', s, 'ARR') in st:
            return 'ARR'
        # a fact about the table slot the local was read from holds for the local too
        for k in keys:
            for txt in (f'self._data[{k}]',):
                if ('k', txt, 'OTHER') in st:
                    return 'OTHER'
                if ('k', txt, 'ARR') in st:
                    return 'ARR'
        return 'ANY'

    # -- facts from a condition known to have truth value `pol`
    def _refine(self, st: frozenset, test: ast.AST, pol: bool) -> frozenset:
        for a, p in conjuncts(test, pol):
            for w in ast.walk(a):
                if isinstance(w, ast.NamedExpr):
                    st = self._bind(st, w.target.id, w.value)
            add = set()
            if isinstance(a, ast.Call) and call_name(a) == 'isinstance' and len(a.args) == 2:
                s = self.subject(a.args[0])
                if s is not None:
                    parts = _type_parts(a.args[1])
                    has_nd = any(x in _ND for x in parts)
                    only_nd = has_nd and all(x in _ND for x in parts)
                    if p and only_nd:
                        add.add(('k', s, 'ARR'))
                    elif (p and not has_nd) or (not p and has_nd):
                        add.add(('k', s, 'OTHER'))
            elif isinstance(a, ast.Compare) and len(a.ops) == 1:
                l, op, r = a.left, a.ops[0], a.comparators[0]
                if isinstance(l, ast.Call) and call_name(l) == 'type' and len(l.args) == 1 \
                        and isinstance(op, (ast.Is, ast.Eq, ast.IsNot, ast.NotEq)):
                    s = self.subject(l.args[0])
                    if s is not None and p == isinstance(op, (ast.Is, ast.Eq)):
                        add.add(('k', s, 'ARR' if norm(r) in _ND else 'OTHER'))
                elif isinstance(op, (ast.Is, ast.IsNot)) and isinstance(r, ast.Constant) and r.value is None:
                    s = self.subject(l)
                    if s is not None and p == isinstance(op, ast.Is):
                        add.add(('k', s, 'OTHER'))
                elif isinstance(op, (ast.In, ast.NotIn)) and norm(l).startswith('Dimension.') \
                        and isinstance(r, ast.Attribute) and r.attr == 'dimensions':
                    inside = p == isinstance(op, ast.In)
                    dim = norm(l).split('.', 1)[1]
                    if (dim in ('SPECIES', 'THRUST_MODE') and inside) or (dim == 'POINT' and not inside):
                        m = r.value
                        key = None
                        if isinstance(m, ast.Name):
                            key = self.meta_of.get(m.id)
                        elif isinstance(m, ast.Subscript) and norm(m.value) == 'self._data_dictionary':
                            key = norm(m.slice)
                        if key is not None:
                            add.add(('dim', key, ''))
                elif isinstance(op, (ast.In, ast.NotIn)) and isinstance(r, ast.Call) and call_name(r) == 'range' \
                        and len(r.args) == 1 and _size_text(r.args[0]):
                    if p == isinstance(op, ast.In):
                        add |= {('i', norm(l), 'ge0'), ('i', norm(l), 'lt')}
                else:
                    add |= set(_index_facts(l, op, r, p))
            elif isinstance(a, ast.Compare) and p:
                # chained: 0 <= i < self._size
                left = a.left
                for op, right in zip(a.ops, a.comparators):
                    add |= set(_index_facts(left, op, right, True))
                    left = right
            if add:
                out = set(st)
                for f in add:
                    if f[0] == 'k':
                        out.discard(('k', f[1], 'ARR' if f[2] == 'OTHER' else 'OTHER'))
                    out.add(f)
                st = frozenset(out)
        return st

    # -- effects of statements
    @staticmethod
    def _kill_name(st: frozenset, name: str) -> frozenset:
        """drop every fact that mentions local `name` (as the subject, inside a subject's key, or as an index)"""
        return frozenset(f for f in st if name not in _IDENT.findall(f[1])
                         and not (f[0] == 'a' and name in _IDENT.findall(f[2])))

    def _bind(self, st: frozenset, name: str, v: ast.AST | None) -> frozenset:
        new = set()
        if v is not None:
            # what the state proves about the value as an index holds for the local it is bound to
            if self.index_proven(st, v):
                new |= {('i', name, 'ge0'), ('i', name, 'lt')}
            elif isinstance(v, ast.Name) and v.id != name:
                new |= {('i', name, f[2]) for f in st if f[0] == 'i' and f[1] == v.id}
            s = self.subject(v)
            if s == name:
                return st
            if s is not None:
                k = self.kind(st, v)
                if k != 'ANY':
                    new.add(('k', name, k))
                if _is_source(v) and name not in _IDENT.findall(_key_of(v)):
                    new.add(('a', name, _key_of(v)))
                new |= {('a', name, f[2]) for f in st if f[0] == 'a' and f[1] == s}
            elif not self.may_source(v):
                new.add(('k', name, 'OTHER'))     # a view, a copy, a constant, a call result ...
        return frozenset(set(self._kill_name(st, name)) | new)

    def _store(self, st, t):
        if isinstance(t, ast.Subscript) and _is_table(t.value):
            key = norm(t.slice)
            return frozenset(f for f in st if not (
                f[0] == 'k' and (f[1] == f'self._data[{key}]' or f[1].startswith(f'self._data.get({key}'))))
        if isinstance(t, ast.Attribute) and norm(t) == 'self._size':
            return frozenset(f for f in st if not (f[0] == 'i' and f[2] in ('lt', 'gem')))
        if isinstance(t, ast.Attribute) and norm(t) in ('self._data', 'self._data_dictionary'):
            return frozenset(f for f in st if f[0] == 'i' or (f[0] == 'k' and 'self._data' not in f[1]))
        return st

    def _calls_effect(self, st, e):
        for c in walk_no_nested(e):
            if isinstance(c, ast.Call) and isinstance(c.func, ast.Attribute) and c.func.attr in self.size_writers \
                    and (norm(c.func.value) == 'self' or
                         (isinstance(c.func.value, ast.Call) and call_name(c.func.value) == 'super')):
                st = frozenset(x for x in st if not (x[0] == 'i' and x[2] in ('lt', 'gem')))
        return st

    def _transfer(self, node, st: frozenset) -> frozenset:
        s = node.stmt
        if s is None or node.kind in ('join', 'finally', 'dispatch', 'entry', 'exit', 'raise'):
            return st
        if node.kind == 'with':
            for it in s.items:
                st = self._calls_effect(st, it.context_expr)
                if it.optional_vars is not None:
                    for nm, _ in _bindings(it.optional_vars, None):
                        st = self._bind(st, nm, None)
            return st
        if node.kind == 'except':
            return self._bind(st, s.name, None) if getattr(s, 'name', None) else st
        if node.kind in ('test', 'iter', 'match', 'case'):
            head = {'test': getattr(s, 'test', None), 'iter': getattr(s, 'iter', None),
                    'match': getattr(s, 'subject', None), 'case': getattr(s, 'guard', None)}[node.kind]
            if head is not None:
                st = self._calls_effect(st, head)
                if node.kind != 'test':            # a walrus in a test is bound per atom by _refine
                    for w in ast.walk(head):
                        if isinstance(w, ast.NamedExpr):
                            st = self._bind(st, w.target.id, w.value)
            return st
        st = self._calls_effect(st, s)
        for w in walk_no_nested(s):
            if isinstance(w, ast.NamedExpr):
                st = self._bind(st, w.target.id, w.value)
        if isinstance(s, ast.Assert):
            return self._refine(st, s.test, True)
        if isinstance(s, (ast.Assign, ast.AnnAssign)):
            if s.value is None:
                return st
            for t in (s.targets if isinstance(s, ast.Assign) else [s.target]):
                # simultaneous assignment: every right-hand side is read in the state before
                pairs = list(_bindings(t, s.value))
                bound = {nm for nm, _ in pairs}
                news = set()
                for nm, val in pairs:
                    news |= {f for f in self._bind(st, nm, val) if f[0] in ('k', 'a', 'i') and f[1] == nm
                             and not (f[0] == 'a' and bound & set(_IDENT.findall(f[2])))}
                for nm in bound:
                    st = self._kill_name(st, nm)
                st = frozenset(set(st) | news)
                for e in (t.elts if isinstance(t, (ast.Tuple, ast.List)) else [t]):
                    st = self._store(st, e)
        elif isinstance(s, ast.AugAssign):
            if isinstance(s.target, ast.Name):
                # x op= v binds x to (x op v), evaluated in the state before
                was = ast.BinOp(left=ast.Name(id=s.target.id, ctx=ast.Load()), op=s.op, right=s.value)
                proven = self.index_proven(st, was)
                st = self._bind(st, s.target.id, None)
                if proven:
                    st = frozenset(set(st) | {('i', s.target.id, 'ge0'), ('i', s.target.id, 'lt')})
            else:
                st = self._store(st, s.target)
        elif isinstance(s, ast.Delete):
            for t in s.targets:
                st = self._bind(st, t.id, None) if isinstance(t, ast.Name) else self._store(st, t)
        elif isinstance(s, (ast.Import, ast.ImportFrom)):
            for al in s.names:
                st = self._bind(st, (al.asname or al.name).split('.')[0], None)
        return st

    def _branch(self, node, lab, st):
        s = node.stmt
        if node.kind == 'test':
            return self._refine(st, s.test, lab == 't')
        if node.kind == 'iter' and lab == 't':
            for nm, _ in _bindings(s.target, None):
                st = self._bind(st, nm, None)
            t = s.target
            if _table_iter(s.iter) == 'items' and isinstance(t, (ast.Tuple, ast.List)) and len(t.elts) == 2 \
                    and all(isinstance(x, ast.Name) for x in t.elts):
                st = frozenset(set(st) | {('a', t.elts[1].id, t.elts[0].id)})
            if isinstance(t, ast.Name) and isinstance(s.iter, ast.Call) and call_name(s.iter) == 'range' \
                    and not s.iter.keywords:
                a = s.iter.args

                def nonneg(e):
                    return isinstance(e, ast.Constant) and isinstance(e.value, int) and e.value >= 0

                def pos(e):
                    return isinstance(e, ast.Constant) and isinstance(e.value, int) and e.value > 0
                if (len(a) == 1 and _size_text(a[0])) or (
                        len(a) in (2, 3) and nonneg(a[0]) and _size_text(a[1]) and (len(a) == 2 or pos(a[2]))):
                    st = frozenset(set(st) | {('i', t.id, 'ge0'), ('i', t.id, 'lt')})
            return st
        if node.kind == 'case':
            m = getattr(s, '_parent', None)
            subj = self.subject(m.subject) if isinstance(m, ast.Match) else None
            classes = _pattern_classes(s.pattern)
            if subj is None or classes is None or (s.guard is not None and lab == 'f'):
                return st
            has_nd = any(c in _ND for c in classes)
            only_nd = has_nd and all(c in _ND for c in classes)
            out = set(st)
            if lab == 't' and only_nd:
                out.discard(('k', subj, 'OTHER'))
                out.add(('k', subj, 'ARR'))
            elif (lab == 't' and not has_nd) or (lab == 'f' and has_nd):
                out.discard(('k', subj, 'ARR'))
                out.add(('k', subj, 'OTHER'))
            return frozenset(out)
        return st

    # -- the states in which a load is evaluated (one per CFG copy of its statement)
    def states_at(self, e: ast.AST) -> list[frozenset]:
        a, ids = e, []
        while a is not None and not ids:
            ids = [i for i in self.g.nodes_of(a) if self.g.nodes[i].kind not in ('join', 'finally', 'dispatch')]
            a = getattr(a, '_parent', None)
        out = []
        for i in ids:
            if i not in self.ins:
                continue            # unreachable code
            st = self.ins[i]
            # short-circuit / conditional-expression / comprehension-filter guards inside the statement
            for t, pol, owner in reversed(guards_of(e)):
                if not isinstance(owner, (ast.If, ast.While)):
                    st = self._refine(st, t, pol)
            out.append(st)
        return out

    def index_proven(self, st: frozenset, idx: ast.AST) -> bool:
        """the state proves 0 <= idx < _size: by the facts about idx itself; for `a if c else b` by each arm under
        its side of c; for `x + _size` when -_size <= x < 0 is proven (a negative index resolved against the stored
        points, not against the capacity); for `x % _size` by arithmetic (it raises when the container is empty)"""
        t = norm(idx)
        if ('i', t, 'ge0') in st and ('i', t, 'lt') in st:
            return True
        if isinstance(idx, ast.IfExp):
            return self.index_proven(self._refine(st, idx.test, True), idx.body) \
                and self.index_proven(self._refine(st, idx.test, False), idx.orelse)
        if isinstance(idx, ast.BinOp) and isinstance(idx.op, ast.Mod):
            return _size_text(idx.right)
        if isinstance(idx, ast.BinOp) and isinstance(idx.op, ast.Add):
            for a, b in ((idx.left, idx.right), (idx.right, idx.left)):
                if _size_text(b) and ('i', norm(a), 'gem') in st and ('i', norm(a), 'neg') in st:
                    return True
        return False

    # -- how one load of a subject is consumed
    def classify(self, st: frozenset, e: ast.AST):
        """(ok, how) for the use of subject expression e evaluated in state st; ok None = binding of a local"""
        kind = self.kind(st, e)
        if kind == 'OTHER':
            return True, 'not a per-point array on any path that reaches this use'
        p = getattr(e, '_parent', None)
        # value positions that hand the value on unchanged
        while isinstance(p, ast.IfExp) and e is not p.test:
            e, p = p, getattr(p, '_parent', None)
        if isinstance(p, ast.NamedExpr) and p.value is e:
            return None, 'alias'
        if isinstance(p, ast.Subscript) and p.value is e:
            if _is_view_slice(p):
                return True, 'view [: self._size]'
            if isinstance(p.ctx, ast.Store) and _size_text(p.slice):
                return True, 'append slot [self._size] ='
            if not isinstance(p.slice, (ast.Slice, ast.Tuple)) and self.index_proven(st, p.slice):
                return True, (f'index {norm(p.slice)} is in [0, _size) on every path that reaches this use')
            if isinstance(p.slice, ast.Slice):
                return False, f'sliced by {norm(p.slice)} instead of [: self._size]'
            return False, (f'indexed by `{norm(p.slice)}` on the capacity-length buffer: a negative or '
                           'unchecked index resolves against the allocated capacity, not the stored points')
        if isinstance(p, ast.Call) and (e in p.args or any(k.value is e for k in p.keywords)):
            cn = call_name(p)
            if cn in WHOLE_BUFFER_OPS or cn == 'type':
                return True, f'whole-buffer operation {cn}'
            return False, (f'raw capacity-length buffer passed to {cn}(): the unused tail takes part in '
                           'the computation')
        if isinstance(p, ast.Attribute):
            if p.attr in _MAPPING_API and kind != 'ARR':
                return True, f'mapping API .{p.attr} (species-indexed value, not an array)'
            if p.attr in _LEN_FREE_ATTRS:
                return True, f'.{p.attr} does not depend on the length'
            return False, f'attribute .{p.attr} of the raw buffer'
        if isinstance(p, ast.Compare):
            if all(isinstance(o, (ast.Is, ast.IsNot)) for o in p.ops):
                return True, 'identity comparison'
            if kind == 'ARR':
                return False, 'element-wise comparison of the raw capacity-length buffer (the unused tail takes part)'
            return True, 'comparison'
        if isinstance(p, ast.Assert):
            return True, 'assertion'
        if isinstance(p, ast.Match) and p.subject is e and all(
                _pattern_classes(c.pattern) is not None or
                (isinstance(c.pattern, ast.MatchAs) and c.pattern.pattern is None) for c in p.cases):
            return True, 'dispatch on the class of the value'
        if isinstance(p, ast.Return):
            return False, 'raw buffer returned to the caller'
        if isinstance(p, (ast.Assign, ast.AnnAssign)) and getattr(p, 'value', None) is e:
            tgts = p.targets if isinstance(p, ast.Assign) else [p.target]
            if all(isinstance(t, ast.Name) for t in tgts):
                return None, 'alias'
            return False, f'raw buffer stored as {norm(tgts[0])}'
        if isinstance(p, (ast.Tuple, ast.List)) and isinstance(getattr(p, '_parent', None), ast.Assign) \
                and p._parent.value is p:
            i = p.elts.index(e)
            if all(isinstance(t, (ast.Tuple, ast.List)) and len(t.elts) == len(p.elts) and isinstance(t.elts[i], ast.Name)
                   for t in p._parent.targets):
                return None, 'alias'
        if isinstance(p, (ast.For, ast.comprehension)) and p.iter is e:
            return False, 'iteration over the raw capacity-length buffer'
        return False, f'unrecognised use in `{norm(p)[:60]}`'


def _size_writers(classes) -> set[str]:
    """names of methods of the container classes that (transitively, over self./super() calls) store self._size"""
    meths = {}
    for cls in classes:
        for name, m in cls.methods.items():
            meths.setdefault(name, []).append(m.node)
    out: set[str] = set()
    changed = True
    while changed:
        changed = False
        for name, nodes in meths.items():
            if name in out:
                continue
            for fn in nodes:
                hit = any(norm(t) == 'self._size' for t, st, how in stores_to(fn)) or any(
                    isinstance(c.func, ast.Attribute) and c.func.attr in out and name != '__init__'
                    for c in calls_in(fn))
                if hit:
                    out.add(name)
                    changed = True
                    break
    return out


def rule_buffers(ctx):
    prog = ctx.prog
    classes = prog.subclasses_of('Container')
    writers = _size_writers(classes)
    n_acc = 0
    for cls in classes:
        for meth in cls.methods.values():
            if meth.qualname in R3_OUT_OF_SCOPE:
                ctx.note(f'C02-R3: {meth.qualname} out of scope — {R3_OUT_OF_SCOPE[meth.qualname]}')
                continue
            fn = meth.node
            if not any(_is_source(n) or _table_iter(n) is not None for n in walk_no_nested(fn)):
                continue
            an = _Buffers(fn, writers)
            for n in walk_no_nested(fn):
                s = an.subject(n) if isinstance(n, (ast.Subscript, ast.Call, ast.Name)) else None
                if s is None or not isinstance(getattr(n, 'ctx', ast.Load()), ast.Load):
                    continue
                verdicts = [an.classify(st, n) for st in an.states_at(n)]
                if not verdicts:
                    continue                    # unreachable
                if all(v[0] is None for v in verdicts):
                    continue                    # binding of a local: its loads are judged where they happen
                bad = [v for v in verdicts if v[0] is False]
                ok, how = (False, bad[0][1]) if bad else (True, next(v[1] for v in verdicts if v[0]))
                n_acc += 1
                par = getattr(n, '_parent', None)
                ctx.ob('C02-R3', meth, f'{s} used as {norm(par)[:50]}', ok, how, line=n.lineno)
    ctx.floor('C02-R3', n_acc, 20, 'reads of the per-point buffers in Container and subclasses')

    # growth keeps the stored prefix and enlarges every buffer to the new capacity (decided on the values that flow:
    # the capacity is raised once; every resize takes the array out of the field table under a key, resizes it to the
    # *raised* capacity and stores the result back under the same key -- through whatever locals)
    from .c06 import Engine, Undecided, canon, uncur
    cm = prog.module(CONT)
    ex = cm.func('Container._expand_capacity')
    eng = Engine(prog)
    try:
        outs = eng.run(ex, self_cls=ex.cls)
    except Undecided as e:
        ctx.undecided('C02-R3', ex, ex.name, str(e))
    ok, why = True, ''
    n_resize = 0
    for kind, v, st in outs:
        if kind != 'return':
            continue
        caps = [e for e in st.events if e.kind == 'store' and canon(e.target) == 'self._capacity']
        rs = [e for e in st.events if e.kind == 'call' and e.name in ('numpy.resize', 'np.resize')]
        if not rs:
            continue
        raised = None
        if len(caps) == 1 and isinstance(caps[0].value, ast.BinOp) and isinstance(caps[0].value.op, (ast.Add, ast.Mult)) \
                and 'self._capacity' in (canon(caps[0].value.left), canon(caps[0].value.right)):
            raised = canon(caps[0].value)
        if raised is None:
            ok, why = False, 'growth no longer raises the capacity exactly once before the arrays are resized'
            break
        for e in rs:
            n_resize += 1
            src = e.arg(0, 'a')
            src = uncur(src) if src is not None else None
            size = e.arg(1, 'new_shape')
            if isinstance(size, (ast.Tuple, ast.List)) and len(size.elts) == 1:
                size = size.elts[0]
            if not (src is not None and _is_source(src)):
                ok, why = False, f'`{canon(e.value)[:60]}` does not resize an array of the field table'
                break
            if size is None or canon(size) != raised:
                ok, why = False, (f'`{canon(e.value)[:70]}` does not resize to the raised capacity `{raised}`'
                                  + (' (an array is resized before the capacity is raised)' if size is not None and canon(size) == 'self._capacity' else ''))
                break
            back = [x for x in st.events if x.kind == 'store' and x.value is e.value or
                    (x.kind == 'store' and canon(x.value) == canon(e.value))]
            if not any(isinstance(x.target, ast.Subscript) and _is_table(x.target.value) and canon(x.target.slice) == _key_of(src)
                       for x in back):
                ok, why = False, f'`{canon(e.value)[:60]}`: the enlarged array is not stored back into the slot it was read from'
                break
        if not ok:
            break
    if ok and not n_resize:
        ok, why = False, 'growth no longer resizes the arrays'
    ctx.ob('C02-R3', ex, 'growth enlarges every buffer to the new capacity', ok,
           'capacity raised first, every array resized to it and stored back' if ok else why)

    # append: there is room for slot _size when it is written, and the point is counted afterwards
    ap = cm.func('Container._append_from_dict')
    g = CFG(ap.node)

    def room_branch(node, lab, st):
        if node.kind != 'test':
            return st
        for a, p in conjuncts(node.stmt.test, lab == 't'):
            if isinstance(a, ast.Compare) and len(a.ops) == 1:
                l, op, r = a.left, type(a.ops[0]), a.comparators[0]
                if not p:
                    op = {ast.Lt: ast.GtE, ast.GtE: ast.Lt, ast.Gt: ast.LtE, ast.LtE: ast.Gt,
                          ast.Eq: ast.NotEq, ast.NotEq: ast.Eq}.get(op)
                sl, sr = _size_text(l), _size_text(r)
                cl, cr = norm(l) == 'self._capacity', norm(r) == 'self._capacity'
                # size < capacity, capacity > size; size != capacity (size never exceeds the capacity)
                if (sl and cr and op in (ast.Lt, ast.NotEq)) or (cl and sr and op in (ast.Gt, ast.NotEq)):
                    return True
        return st

    def room_transfer(node, st):
        s = node.stmt
        if s is None or node.kind in ('join', 'finally', 'dispatch'):
            return st
        head = {'test': getattr(s, 'test', None), 'iter': getattr(s, 'iter', None), 'stmt': s}.get(node.kind)
        if head is None:
            return st
        if any(call_name(c) == 'self._expand_capacity' for c in calls_in(head)):
            st = True
        if node.kind == 'stmt' and any(norm(t) == 'self._size' for t, _, _ in stores_to(s)):
            st = False
        return st
    ins, _ = g.forward(False, room_transfer, lambda a, b: a and b, branch_transfer=room_branch)
    wr = [n for n in g.nodes if n.kind == 'stmt' and any(
        isinstance(t, ast.Subscript) and _size_text(t.slice) and isinstance(t.value, ast.Subscript) and _is_table(t.value.value)
        for t, _, _ in stores_to(n.stmt))]
    inc = [n for n in g.nodes if n.kind == 'stmt' and isinstance(n.stmt, ast.AugAssign)
           and norm(n.stmt.target) == 'self._size' and isinstance(n.stmt.op, ast.Add) and norm(n.stmt.value) == '1']
    allsz = [n for n in g.nodes if n.kind == 'stmt' and any(norm(t) == 'self._size' for t, _, _ in stores_to(n.stmt))]
    noexc = lambda a, b, lab: lab != 'e'   # noqa: E731
    ok = bool(wr) and all(ins.get(w.id, False) for w in wr) and len(inc) == 1 and len(allsz) == 1 \
        and all(g.reaches(w.id, inc[0].id, edge_ok=noexc) for w in wr) \
        and not any(g.reaches(inc[0].id, w.id, edge_ok=noexc) for w in wr)
    ctx.ob('C02-R3', ap, 'append: grow when full, write slot _size, then count it', ok,
           'there is room (size < capacity, or the buffers were just grown) on every path to the slot writes; '
           '_size += 1 follows them' if ok else
           'append ordering changed (write past capacity, or size counted before the write)')


# ----------------------------------------------------------------- R1/R2/R4/R5/R7/R8 ---
# The flight phases, decided on the values that flow.  Each phase method of the builder (fly_<phase> for the members
# of FlightPhase) is executed symbolically with the builder's own helpers inlined (_fly_level_change with the phase's
# arguments, _start_point ...).  A loop over the steps of a phase is summarised by one symbolic iteration in which the
# fields of the point that the loop itself writes read back as `_cur(point.field)` -- the value the previous step left.
# A *step* below is one way through that iteration: its stores, in order, with values in terms of `_cur(...)`.
PHASE_RULE = {'CLIMB': 'CLIMB', 'CRUISE': 'CRUISE', 'DESCENT': 'DESCEND'}
PHASE_ALTS = {'CLIMB': ('self.clm_start_altitude', 'self.crz_start_altitude'),
              'DESCENT': ('self.des_start_altitude', 'self.des_end_altitude')}


class _Step:
    def __init__(self, events):
        self.events = events
        self.final = {}          # canon(target) -> (target, value, event) of the last store
        for e in events:
            if e.kind == 'store':
                self.final[_c(e.target)] = (e.target, e.value, e)

    def stores(self, attr):
        return [(t, v, e) for t, v, e in self.final.values() if isinstance(t, ast.Attribute) and t.attr == attr]


def _c(e):
    from .c06 import canon
    return canon(e)


# ---- helper objects the builder keeps for the flight (a "cursor" along the ground track) ----
# A refactoring may put the accumulated distance into a stateful helper object (`self.walker.advance(d)` instead of
# `self.ground_track.step(pt.ground_distance, d)`).  The engine resolves methods of `self` only; the flight engine below
# also resolves `self.<field>.<method>(..)` when <field> is a field of the builder's per-flight context (the builder
# forwards attribute access to it) whose class is a repository class with a method that steps / looks up a track
# (`<self.attr>.step(..)` / `.location(..)`), and opens such methods: the values then read
# `<obj>.<track field>.step(_cur(<obj>.<distance field>), d)` and the object's own state changes are stores on the path.
def _class_by_annotation(prog, m, ann):
    if isinstance(ann, ast.Constant) and isinstance(ann.value, str):
        try:
            ann = ast.parse(ann.value, mode='eval').body
        except SyntaxError:
            return None
    if ann is None:
        return None
    if isinstance(ann, ast.BinOp) and isinstance(ann.op, ast.BitOr):       # X | None
        return _class_by_annotation(prog, m, ann.left) or _class_by_annotation(prog, m, ann.right)
    try:
        k = prog.resolve_class_expr(m, ann)
    except Exception:
        k = None
    if k is not None:
        return k
    d = norm(ann)
    if not re.fullmatch(r'[A-Za-z_][\w.]*', d) or d == 'None':
        return None
    cands = [c for c in prog.all_classes() if c.name == d or c.name.endswith('.' + d) or c.name.split('.')[-1] == d.split('.')[-1]]
    exact = [c for c in cands if c.name == d]
    cands = exact or cands
    return cands[0] if len(cands) == 1 else None


def _methods_of(k) -> dict:
    """name -> FunctionInfo of the methods of class k (bases first, overridden by the class).  The loader does not list
    the methods of a class nested in another class under that class (and qualifies them by the outer class): they are
    found among the module's functions by their class and given the qualified name the engine expects of a method"""
    from ..loader import FunctionInfo
    out = {}
    for c in reversed(k.mro()):
        ms = dict(c.methods)
        if not ms:
            for q, fi in c.module.functions.items():
                if fi.cls is c and '<locals>' not in q and '@' not in q and q.rsplit('.', 1)[0].split('.')[-1] == c.name:
                    ms[fi.name] = fi if fi.qualname == f'{c.name}.{fi.name}' else FunctionInfo(f'{c.name}.{fi.name}', fi.node, fi.module, c)
        out.update(ms)
    return out


def _steps_a_track(k) -> bool:
    """some method of class k calls `.step(..)` / `.location(..)` on an attribute of self"""
    for c in [k]:
        for meth in _methods_of(k).values():
            for n in walk_no_nested(meth.node):
                if isinstance(n, ast.Call) and isinstance(n.func, ast.Attribute) and n.func.attr in ('step', 'location') \
                        and isinstance(n.func.value, ast.Attribute) and isinstance(n.func.value.value, ast.Name) \
                        and n.func.value.value.id == 'self':
                    return True
    return False


def _context_class(prog, k):
    """the per-flight context class of builder class k (its CONTEXT_CLASS), or None"""
    for c in (k.mro() if k is not None else []):
        v = c.class_assignments().get('CONTEXT_CLASS')
        if v is not None and not (isinstance(v, ast.Constant) and v.value is None):
            try:
                r = prog.resolve_class_expr(c.module, v)
            except Exception:
                r = None
            if r is not None:
                return r
    return None


def _context_field_class(prog, ck, attr):
    """class of the field `attr` of context class ck: its annotation, or what the context's methods store there"""
    ann = ck.all_fields().get(attr)
    if ann is not None:
        owner = next((c for c in ck.mro() if attr in c.annotated_fields()), ck)
        r = _class_by_annotation(prog, owner.module, ann)
        if r is not None:
            return r
    from ..resolve import expr_class
    for c in ck.mro():
        for meth in c.methods.values():
            for n in walk_no_nested(meth.node):
                tgts = n.targets if isinstance(n, ast.Assign) else [n.target] if isinstance(n, ast.AnnAssign) else []
                for t in tgts:
                    if isinstance(t, ast.Attribute) and t.attr == attr and isinstance(t.value, ast.Name) and t.value.id == 'self':
                        if isinstance(n, ast.AnnAssign):
                            r = _class_by_annotation(prog, c.module, n.annotation)
                            if r is not None:
                                return r
                        if n.value is not None:
                            try:
                                r = expr_class(prog, meth, n.value)
                            except Exception:
                                r = None
                            if r is not None:
                                return r
    return None


def _flight_engine(prog, track_cls):
    from .c06 import Engine

    class FlightEngine(Engine):
        def __init__(self, *a, **kw):
            super().__init__(*a, **kw)
            self._resolve_cache = {}        # what this engine resolves other engines do not (and the reverse)
            self.cursors: dict = {}         # class name -> ClassInfo of the helper classes whose methods were opened
            base = self.inline
            self.inline = lambda fi: base(fi) or (fi.cls is not None and fi.cls.name in self.cursors)

        def _held_class(self, fr, e, depth=0):
            if depth > 3 or fr.cls is None:
                return None
            if isinstance(e, ast.Name) and e.id not in ('self', 'cls'):
                from ..astutil import single_def_value
                v = single_def_value(fr.fi.node, e.id)
                return self._held_class(fr, v, depth + 1) if v is not None else None
            if isinstance(e, ast.Attribute):
                b = e.value
                if isinstance(b, ast.Attribute) and b.attr == 'ctx':
                    b = b.value
                if isinstance(b, ast.Name) and b.id == 'self' and fr.cls.find_method(e.attr) is None:
                    ck = _context_class(self.prog, fr.cls)
                    return _context_field_class(self.prog, ck, e.attr) if ck is not None else None
            return None

        def _resolve(self, fr, c):
            r = super()._resolve(fr, c)
            f = c.func
            if r is None and isinstance(f, ast.Attribute) and not (isinstance(f.value, ast.Name) and f.value.id in ('self', 'cls')):
                k = self._held_class(fr, f.value)
                if k is not None and k is not track_cls and not track_cls.is_subclass_of(k.name) and _steps_a_track(k):
                    m = _methods_of(k).get(f.attr)
                    if m is not None:
                        self.cursors[k.name] = k
                        for c2 in k.mro():
                            if c2 is not track_cls:
                                self.cursors[c2.name] = c2
                        return m
            return r
    return FlightEngine


def _phase_runs(ctx):
    """{phase: (method, pre-loop events, [steps])} for the phases the builder flies"""
    from .c06 import Engine, Undecided
    prog = ctx.prog
    cached = prog.__dict__.get('_c02_phases')
    if cached is not None:
        return cached
    lm = prog.module(LEG)
    lb = lm.cls('LegacyBuilder')
    phases = prog.cls('storage/phase.py', 'FlightPhase')
    track_cls = prog.func('trajectories/ground_track.py', 'GroundTrack.step').cls
    out = {}
    cursors: dict = {}          # helper classes (cursors along the track) whose methods the runs opened
    entries: dict = {}          # phase -> per path with a stepping loop: the events before the loop, in order
    for ph in [k for k, v in phases.class_assignments().items() if k.isupper()]:
        meth = lb.find_method('fly_' + ph.lower())
        if meth is None:
            continue
        eng = _flight_engine(prog, track_cls)(prog, inline=lambda fi: fi.file.endswith((LEG, BASE)))
        try:
            outs = eng.run(meth, self_cls=lb)
        except Undecided as ex:
            ctx.undecided('C02-R1', meth, meth.name, str(ex))
        cursors.update(eng.cursors)
        pre, steps, seen = [], [], set()
        for kind, v, st in outs:
            cur = []
            if any(e.loops for e in st.events):
                head = []
                for e in st.events:
                    if e.loops:
                        break
                    head.append(e)
                entries.setdefault(ph, []).append(head)
            for e in st.events:
                if e.kind == 'endpath':
                    key = tuple(id(x.node) for x in cur) + tuple(_c(c) + str(p) for c, p in (cur[-1].pc if cur else ()))
                    if cur and key not in seen:
                        seen.add(key)
                        steps.append(_Step(cur))
                    cur = []
                elif e.loops:
                    cur.append(e)
                elif id(e) not in seen:
                    seen.add(id(e))
                    if not any(x.node is e.node and _c(x.value or ast.Constant(0)) == _c(e.value or ast.Constant(0))
                               and _c(x.target or ast.Constant(0)) == _c(e.target or ast.Constant(0)) for x in pre):
                        pre.append(e)
        out[ph] = (meth, pre, steps)
    missing = [p for p in PHASE_RULE if p not in out]
    if missing:
        raise AnalysisError(f'anchor vanished: the builder has no fly_{missing[0].lower()}')
    prog.__dict__['_c02_phases'] = out
    prog.__dict__['_c02_cursors'] = (cursors, entries, track_cls)
    return out


def _delta(final_value, cur_text):
    """(sign, amount expression) when final_value is `_cur(x) + a` / `_cur(x) - a` (nested: the total), else None"""
    from .c06 import is_sym
    terms = []

    def walk(e, sign):
        if isinstance(e, ast.BinOp) and isinstance(e.op, (ast.Add, ast.Sub)):
            walk(e.left, sign)
            walk(e.right, sign if isinstance(e.op, ast.Add) else -sign)
        else:
            terms.append((sign, e))
    walk(final_value, 1)
    base = [(s, t) for s, t in terms if is_sym(t, '_cur') and _c(t.args[0]) == cur_text]
    rest = [(s, t) for s, t in terms if not (is_sym(t, '_cur') and _c(t.args[0]) == cur_text)]
    if len(base) != 1 or base[0][0] != 1:
        return None
    return rest


def _clamped(v):
    """x when v bounds x from one side: max(x, c) / min(x, c) / np.maximum / np.minimum / np.fmax / np.fmin / np.clip(x, ...)
    / x.clip(...)"""
    while isinstance(v, ast.Call) and _c(v.func) in ('float', 'np.float64', 'numpy.float64') and len(v.args) == 1 and not v.keywords:
        v = v.args[0]
    if not isinstance(v, ast.Call) or v.keywords and not all(k.arg in ('a_min', 'a_max', 'min', 'max') for k in v.keywords):
        return None
    nm = _c(v.func)
    if nm in ('max', 'min', 'np.maximum', 'np.minimum', 'np.fmax', 'np.fmin', 'numpy.maximum', 'numpy.minimum') and len(v.args) == 2:
        a, b = v.args
        return b if isinstance(a, ast.Constant) else a
    if nm in ('np.clip', 'numpy.clip') and v.args:
        return v.args[0]
    if isinstance(v.func, ast.Attribute) and v.func.attr == 'clip':
        return v.func.value
    return None


def _amount_nf(rest):
    from .c06 import _nf
    expr = None
    for s, t in rest:
        t2 = t if s > 0 else ast.UnaryOp(op=ast.USub(), operand=t)
        expr = t2 if expr is None else ast.BinOp(left=expr, op=ast.Add(), right=t2)
    return _nf(expr if expr is not None else ast.Constant(0), {})


def _track_point_fields(prog) -> list[str] | None:
    """field names, in positional order, of the points the ground track hands out when they are tuples (the class
    named by the return annotation of GroundTrack.step is a NamedTuple); None when a point has no positions"""
    m = prog.module('trajectories/ground_track.py')
    stepf = m.func('GroundTrack.step')
    ann = stepf.node.returns
    if isinstance(ann, ast.Constant) and isinstance(ann.value, str):
        try:
            ann = ast.parse(ann.value, mode='eval').body
        except SyntaxError:
            return None
    if ann is None:
        return None
    name = norm(ann)
    cls = m.classes.get(name) or next((c for k, c in m.classes.items() if k.split('.')[-1] == name.split('.')[-1]), None)
    if cls is None or not any(b.split('.')[-1] == 'NamedTuple' for b in cls.base_exprs):
        return None
    return list(cls.annotated_fields())


def _positions_as_fields(e, fields):
    """e with `P[k]` (k a constant position) read as `P.<field k>` wherever P is a point of the ground track: the
    result of ground_track.step(..) / .location(..) or an item ground_track[i]"""
    from .c06 import canon, clone
    if not fields or e is None:
        return e

    def is_point(p):
        if isinstance(p, ast.Call) and isinstance(p.func, ast.Attribute) and p.func.attr in ('step', 'location'):
            return canon(p.func.value).endswith('ground_track')
        return isinstance(p, ast.Subscript) and canon(p.value).endswith('ground_track')

    class T(ast.NodeTransformer):
        def visit_Subscript(self, n):
            self.generic_visit(n)
            k = n.slice.value if isinstance(n.slice, ast.Constant) else None
            if isinstance(k, int) and not isinstance(k, bool) and -len(fields) <= k < len(fields) and is_point(n.value):
                return ast.Attribute(value=n.value, attr=fields[k], ctx=ast.Load())
            return n
    return T().visit(clone(e))


# ---- R4 through a cursor object: which field holds the track, and the invariant distance == pt.ground_distance ----
def _cursor_track_field(prog, k, attr, track_cls):
    """True when field `attr` of helper class k is the ground track of the flight: the constructor binds it once to a
    parameter, and every construction of k in the program passes for that parameter the context's ground track --
    `<..>.ground_track`, or `self` inside a method of the track class that is only ever called on `<..>.ground_track`.
    None when that cannot be told."""
    meths = _methods_of(k)
    init = meths.get('__init__')
    if init is None:
        return None
    stores = [(m, n) for m in meths.values() for n in walk_no_nested(m.node) if isinstance(n, (ast.Assign, ast.AnnAssign, ast.AugAssign))
              for t in (n.targets if isinstance(n, ast.Assign) else [n.target])
              if isinstance(t, ast.Attribute) and t.attr == attr and isinstance(t.value, ast.Name) and t.value.id == 'self']
    if len(stores) != 1 or stores[0][0].node is not init.node or not isinstance(stores[0][1], (ast.Assign, ast.AnnAssign)) \
            or not isinstance(stores[0][1].value, ast.Name) or stores[0][1].value.id not in init.params[1:]:
        return None
    par = stores[0][1].value.id
    pos = init.params.index(par) - 1
    short = k.name.split('.')[-1]
    sites = []
    for fi in prog.all_functions():
        for n in walk_no_nested(fi.node):
            if isinstance(n, ast.Call) and (norm(n.func) == short or norm(n.func).endswith('.' + short)) \
                    and _class_by_annotation(prog, fi.module, n.func) is k:
                a = n.args[pos] if len(n.args) > pos and not any(isinstance(x, ast.Starred) for x in n.args[:pos + 1]) \
                    else next((kw.value for kw in n.keywords if kw.arg == par), None)
                sites.append((fi, a))
    if not sites:
        return None
    for fi, a in sites:
        if a is None:
            return None
        if norm(a).split('.')[-1] == 'ground_track':
            continue
        if isinstance(a, ast.Name) and a.id == 'self' and fi.cls is not None and (fi.cls is track_cls or fi.cls.is_subclass_of(track_cls.name)):
            calls = [n for f2 in prog.all_functions() for n in walk_no_nested(f2.node)
                     if isinstance(n, ast.Call) and isinstance(n.func, ast.Attribute) and n.func.attr == fi.name]
            if calls and all(norm(n.func.value).split('.')[-1] == 'ground_track' for n in calls):
                continue
        return None
    return True


def _cursor_invariant(ctx, ph, first_phase, steps, ctext, ptext):
    """(ok, why) for: whenever a step of phase `ph` begins, the distance a cursor object keeps (`ctext`, e.g.
    self.walker.distance) is the ground distance of the point the phase advances (`ptext`.ground_distance).  By
    induction: every way through the stepping loop changes the two by the same amount (or leaves the cursor at the
    distance the point is left at), and on every path to the loop the last value given to the cursor before the loop is
    the point's ground distance there.  For the first phase the seat may also be taken on the way from the start of a
    flight iteration (the unit the mass iteration repeats) to the phases.  ok None = cannot tell."""
    from .c06 import canon, uncur, _nf, Undecided
    prog = ctx.prog
    cursors, entries, track_cls = prog.__dict__['_c02_cursors']
    gtext = f'{ptext}.ground_distance'

    def change(stp, text):
        hit = stp.final.get(text)
        if hit is None:
            return 'same', None
        d = _delta(hit[1], text)
        if d is None:
            return 'abs', _nf(hit[1], {})
        return 'rel', _amount_nf(d)
    for stp in steps:
        kc, vc = change(stp, ctext)
        kg, vg = change(stp, gtext)
        line = stp.final[ctext][2].line if ctext in stp.final else (stp.final[gtext][2].line if gtext in stp.final else 0)
        if kc == 'same' and kg == 'same':
            continue
        if kc == 'abs':
            end = _nf(stp.final[gtext][1], {}) if kg != 'same' else _nf(ast.parse(f'_cur({gtext})', mode='eval').body, {})
            if vc is None or end is None:
                return None, f'cannot normalise the distance `{ctext}` is left at'
            if poly_equal(vc, end):
                continue
            return False, (f'a step leaves `{ctext}` at `{canon(uncur(stp.final[ctext][1]))[:50]}`, which is not the ground distance '
                           f'the point is left at: the next step is taken from another place than the point\'s accumulated ground distance')
        if kc == 'same' or kg == 'same' or kg == 'abs':
            return False, (f'`{ctext}` (the distance the track is stepped from) and the point\'s ground_distance are not advanced together '
                           f'on every step (line {line}): the next step is taken from another place than the point\'s accumulated ground distance')
        if vc is None or vg is None:
            return None, f'cannot normalise the amounts added to `{ctext}` and to ground_distance'
        if not poly_equal(vc, vg):
            return False, (f'the distance added to `{ctext}` (where the track is stepped from) is not the distance added to '
                           f'pt.ground_distance on the same step')
    # the seat on entry
    heads = entries.get(ph) or []
    if not heads:
        return None, 'no path to the stepping loop found'
    unseated = False
    for head in heads:
        cv = gv = None
        for e in head:
            if e.kind == 'store' and canon(e.target) == ctext:
                cv = e.value
            elif e.kind == 'store' and canon(e.target) == gtext:
                gv = e.value
        if gv is None:
            gv = ast.parse(gtext, mode='eval').body
        if cv is None:
            unseated = True
            continue
        a, b = _nf(cv, {}), _nf(gv, {})
        if not (canon(cv) == canon(gv) or (a is not None and b is not None and poly_equal(a, b))):
            return False, (f'before the {ph.lower()} loop `{ctext}` is set to `{canon(cv)[:50]}` while the point it advances has ground distance '
                           f'`{canon(gv)[:50]}`: the steps are taken from another place than the point\'s accumulated ground distance')
    if not unseated:
        return True, ''
    if not first_phase:
        return None, (f'`{ctext}` is not set between the start of {ph.lower()} and its stepping loop: whether the previous phase left it at the '
                      'last stored point is not decided')
    # the first phase: a seat taken between the start of a flight iteration and the phases counts
    lb = prog.module(LEG).cls('LegacyBuilder')
    it = lb.find_method('_fly_iteration')
    seats = []
    if it is not None:
        eng = _flight_engine(prog, track_cls)(prog, inline=lambda fi: fi.file.endswith((LEG, BASE)) and not fi.name.startswith('fly_'))
        try:
            for kind, v, st in eng.run(it, self_cls=lb):
                seats += [e for e in st.events if e.kind == 'store' and canon(uncur(e.target)) == ctext]
        except Undecided as ex:
            return None, str(ex)
    if seats:
        ok = all(isinstance(e.value, ast.Constant) and e.value.value == 0 for e in seats)
        return (True, '') if ok else (None, f'`{ctext}` is set by the flight iteration to a value that is not the start of the track')
    # set somewhere else on the way (per pass of the mass iteration, per flight)?  then the rule cannot tell
    attr = ctext.rsplit('.', 1)[1]
    setters = set()
    for k in cursors.values():
        for nme, m in _methods_of(k).items():
            if nme != '__init__' and any(isinstance(t, ast.Attribute) and t.attr == attr and isinstance(t.ctx, ast.Store)
                                         for n in walk_no_nested(m.node) for t in ast.walk(n)):
                setters.add(nme)
    runs = prog.__dict__.get('_c02_phases') or {}
    covered = {id(it.node)} if it is not None else set()
    covered |= {id(e.fi.node) for hs in entries.values() for h in hs for e in h}
    covered |= {id(e.fi.node) for _, _, sts in runs.values() for s in sts for e in s.events}
    obj = ctext.rsplit('.', 2)[-2]
    for rel in (LEG, BASE):
        for fi in prog.module(rel).functions.values():
            if id(fi.node) in covered:
                continue
            for n in walk_no_nested(fi.node):
                if (isinstance(n, ast.Call) and isinstance(n.func, ast.Attribute) and n.func.attr in setters
                        and norm(n.func.value).split('.')[-1] == obj) \
                        or (isinstance(n, ast.Attribute) and isinstance(n.ctx, ast.Store) and n.attr == attr
                            and norm(n.value).split('.')[-1] == obj):
                    return None, (f'`{ctext}` is set in {fi.qualname}, outside the flight iteration: whether every pass of the mass '
                                  'iteration starts from 0 is not decided')
    return False, (f'the track is stepped from `{ctext}`, a distance kept by a helper object that lives as long as the flight context, and nothing '
                   f'between the start of a flight iteration and the {ph.lower()} loop puts it at the first point\'s ground distance (0): a second pass '
                   f'of the mass iteration steps the {ph.lower()} from where the previous pass left off, so the positions are not the track points at '
                   f'the recorded ground distance')


def _reseat(x, kept, obj, ptext):
    """the track call x made through a cursor object `obj`, read as the call on the ground track itself: the receiver
    is self.ground_track and every kept distance `_cur(obj.f)` in `kept` is `_cur(<point>.ground_distance)` (what
    _cursor_invariant established); also returns the same reading for any other value of the step"""
    from .c06 import canon, clone, is_sym

    class T(ast.NodeTransformer):
        def visit_Call(self, n):
            if is_sym(n, '_cur') and canon(n.args[0]) in kept:
                return ast.parse(f'_cur({ptext}.ground_distance)', mode='eval').body
            return self.generic_visit(n)
    y = clone(x)
    y.args = [T().visit(a) for a in y.args]
    for kw in y.keywords:
        kw.value = T().visit(kw.value)
    y.func = ast.Attribute(value=ast.parse('self.ground_track', mode='eval').body, attr=y.func.attr, ctx=ast.Load())
    return y, (lambda e: T().visit(clone(e)))


def rule_flight(ctx):
    from .c06 import canon, ceval, is_sym, uncur, _nf
    prog = ctx.prog
    runs = _phase_runs(ctx)
    pfields = _track_point_fields(prog)
    n_pairs = n_pos = n_clamp = 0
    cursors, _entries, track_cls = prog.__dict__['_c02_cursors']
    inv: dict = {}
    for ph, (meth, pre, steps) in runs.items():
        if not steps:
            ctx.undecided('C02-R1', meth, ph, 'no stepping loop found in the phase')
        for stp in steps:
            fm, am = stp.stores('fuel_mass'), stp.stores('aircraft_mass')
            # ---- R1: the same amount leaves the fuel and the aircraft
            for t, v, e in fm + am:
                other = 'aircraft_mass' if t.attr == 'fuel_mass' else 'fuel_mass'
                sib = [(t2, v2, e2) for t2, v2, e2 in (am if t.attr == 'fuel_mass' else fm) if canon(t2.value) == canon(t.value)]
                d = _delta(v, canon(t))
                if d is None or any(s > 0 and not (isinstance(x, ast.Constant) and x.value == 0) for s, x in d):
                    why = f'{t.attr} written other than by subtracting the segment fuel from its previous value'
                    inner = _clamped(v)
                    if d is None and inner is not None and _delta(inner, canon(t)) is not None:
                        # a bound on the *result* of the subtraction: what leaves this mass is no longer the segment fuel
                        sd = _delta(sib[0][1], canon(sib[0][0])) if sib else None
                        why = (f'{t.attr} is bounded after the subtraction (`{canon(uncur(v))[:50]}`)'
                               + (f' while {other} is reduced by the full amount' if sd is not None else '')
                               + f': once the bound acts the two masses stop moving together and aircraft mass minus fuel mass is no longer constant')
                    ctx.ob('C02-R1', e.fi, f'{t.attr} = {canon(uncur(v))[:60]}', False, why, line=e.line)
                    continue
                if not sib:
                    ctx.ob('C02-R1', e.fi, f'{t.attr} -= {canon(uncur(v))[:50]} paired with {other}', False,
                           f'{t.attr} is decremented on a step that leaves {other} alone: aircraft mass minus fuel mass is no longer constant',
                           line=e.line)
                    continue
                d2 = _delta(sib[0][1], canon(sib[0][0]))
                a1, a2 = _amount_nf(d), (_amount_nf(d2) if d2 is not None else None)
                same = (a1 is not None and a2 is not None and poly_equal(a1, a2)) or \
                    (d2 is not None and sorted((s, canon(x)) for s, x in d) == sorted((s, canon(x)) for s, x in d2))
                if t.attr == 'fuel_mass':
                    n_pairs += 1
                    ctx.ob('C02-R1', e.fi, f'{ph.lower()} step: fuel_mass and aircraft_mass change by {canon(uncur(v)).split(" - ", 1)[-1][:60]}', same,
                           'same segment fuel subtracted from both' if same else
                           'fuel_mass and aircraft_mass are not decremented by the same amount on this step: '
                           'aircraft mass minus fuel mass is no longer constant', line=e.line)
            # ---- R2 (level changes): the amount subtracted cannot be negative
            if ph in PHASE_ALTS:
                for t, v, e in fm:
                    d = _delta(v, canon(t))
                    if not d:
                        continue
                    n_clamp += 1
                    if isinstance(v, ast.BinOp) and isinstance(v.op, ast.Sub) and is_sym(v.left, '_cur') and canon(v.left.args[0]) == canon(t):
                        d = [(-1, v.right)]         # one amount, however it was put together
                    ok, why = _non_negative(d, e, ceval, canon, is_sym)
                    if ok is None:
                        ctx.undecided('C02-R2', e.fi, canon(uncur(v))[:80], why)
                    ctx.ob('C02-R2', e.fi, f'{ph.lower()} step subtracts {" ".join(("-" if s > 0 else "+") + canon(uncur(x))[:40] for s, x in d)}',
                           ok, why, line=e.line)
            # ---- R4: the new position is the track point at the new ground distance
            gd = stp.stores('ground_distance')
            for attr, want in (('longitude', ('location', 'longitude')), ('latitude', ('location', 'latitude')), ('azimuth', ('azimuth',))):
                for t, v, e in stp.stores(attr):
                    n_pos += 1
                    chain = []
                    x = v = _positions_as_fields(v, pfields)      # a point that is a tuple: position k is field k
                    while isinstance(x, ast.Attribute):
                        chain.append(x.attr)
                        x = x.value
                    chain.reverse()
                    resub = lambda e_: e_
                    # a point obtained through a cursor object (its methods opened by the engine): the object's track
                    # field is the ground track and its distance field is the point's ground distance, when that holds
                    if isinstance(x, ast.Call) and isinstance(x.func, ast.Attribute) and x.func.attr in ('step', 'location') \
                            and isinstance(x.func.value, ast.Attribute) and not canon(x.func.value).endswith('ground_track') and cursors:
                        obj, tf = x.func.value.value, x.func.value.attr
                        is_track = next((r for r in (_cursor_track_field(prog, k, tf, track_cls) for k in cursors.values()
                                                     if '__init__' in _methods_of(k)) if r), None)
                        if not is_track:
                            ctx.undecided('C02-R4', e.fi, canon(uncur(x))[:80],
                                          f'cannot tell that `{canon(x.func.value)}` is the ground track of the flight')
                        kept = sorted({canon(n.args[0]) for a_ in list(x.args) + [kw.value for kw in x.keywords] for n in ast.walk(a_)
                                       if is_sym(n, '_cur') and isinstance(n.args[0], ast.Attribute) and canon(n.args[0].value) == canon(obj)})
                        bad = False
                        for ctext in kept:
                            key = (ph, ctext, canon(t.value))
                            if key not in inv:
                                inv[key] = _cursor_invariant(ctx, ph, ph == list(runs)[0], steps, ctext, canon(t.value))
                            okc, whyc = inv[key]
                            if okc is None:
                                ctx.undecided('C02-R4', e.fi, canon(uncur(x))[:80], whyc)
                            if not okc:
                                ctx.ob('C02-R4', e.fi, f'{ph.lower()} step: pt.{attr} = {canon(uncur(x))[:70]}', False, whyc, line=e.line)
                                bad = True
                                break
                        if bad:
                            continue
                        x, resub = _reseat(x, kept, canon(obj), canon(t.value))
                    step_ok = isinstance(x, ast.Call) and isinstance(x.func, ast.Attribute) and x.func.attr == 'step' \
                        and canon(x.func.value).endswith('ground_track') and len(x.args) + len(x.keywords) == 2
                    look_ok = isinstance(x, ast.Call) and isinstance(x.func, ast.Attribute) and x.func.attr == 'location' \
                        and canon(x.func.value).endswith('ground_track') and len(x.args) + len(x.keywords) == 1
                    if look_ok and tuple(chain) == want:
                        # looked up at an absolute distance: must be the new ground distance, and nothing on the way
                        # refuses a negative advance unless the path itself does
                        a = x.args[0] if x.args else x.keywords[0].value
                        mine = [g for g in gd if canon(g[0].value) == canon(t.value)]
                        final = _nf(resub(mine[0][1]), {}) if mine else None
                        reached = _nf(a, {})
                        if not mine or final is None or reached is None or not poly_equal(final, reached):
                            ctx.ob('C02-R4', e.fi, f'{ph.lower()} step: pt.{attr} = ground_track.location({canon(uncur(a))[:40]}).{".".join(want)}', False,
                                   'the point is looked up at a distance that is not the ground distance the step arrives at', line=e.line)
                            continue
                        adv = _delta(resub(mine[0][1]), canon(mine[0][0]))
                        okn, whyn = _non_negative([(-s, y) for s, y in adv] if adv else [], e, ceval, canon, is_sym) if adv and len(adv) == 1 \
                            else (None, 'advance is not a single amount')
                        if okn is None:
                            ctx.undecided('C02-R4', e.fi, canon(uncur(v))[:80], whyn)
                        ctx.ob('C02-R4', e.fi, f'{ph.lower()} step: pt.{attr} = ground_track.location(pt.ground_distance + d).{".".join(want)}', okn,
                               'track point at the new ground distance; the path refuses a negative advance' if okn else
                               ('the position is looked up with location(ground_distance + d), which accepts a negative d (step() is what refuses it): '
                                'a mission too short for its climb and descent flies this phase backwards -- distance and time decrease, '
                                'mass increases -- instead of being refused'), line=e.line)
                        continue
                    if not step_ok:
                        ctx.ob('C02-R4', e.fi, f'pt.{attr} = {canon(uncur(v))[:60]}', False,
                               'position does not come from the ground track at the distance the step arrives at', line=e.line)
                        continue
                    if tuple(chain) != want:
                        ctx.ob('C02-R4', e.fi, f'pt.{attr} = <step>.{".".join(chain)}', False,
                               f'pt.{attr} receives `.{".".join(chain)}` of the stepped point: a different component', line=e.line)
                        continue
                    a0 = x.args[0] if x.args else next(k.value for k in x.keywords if k.arg in ('from_distance', 'start', 'distance'))
                    a1 = x.args[1] if len(x.args) > 1 else next((k.value for k in x.keywords if k.arg not in ('from_distance', 'start')), None)
                    mine = [g for g in gd if canon(g[0].value) == canon(t.value)]
                    cur_gd = f'{canon(t.value)}.ground_distance'
                    if not mine:
                        ok, why = False, 'the point is moved along the track but its ground distance is not advanced on this step'
                    else:
                        reached = _nf(ast.BinOp(left=a0, op=ast.Add(), right=a1), {})
                        final = _nf(resub(mine[0][1]), {})
                        ok = reached is not None and final is not None and poly_equal(reached, final)
                        start_ok = canon(uncur(a0)) == cur_gd
                        if ok and not start_ok:
                            ok = False
                        why = ('track point at ground_distance + d, and the same d is added to pt.ground_distance' if ok else
                               (f'the step starts from `{canon(uncur(a0))[:50]}`, not from the point\'s accumulated ground distance' if not start_ok else
                                f'the distance stepped (`{canon(uncur(a1))[:50]}`) is not the distance added to pt.ground_distance'))
                    ctx.ob('C02-R4', e.fi, f'{ph.lower()} step: pt.{attr} = ground_track.step(pt.ground_distance, d).{".".join(want)}', ok, why, line=e.line)
            # ---- R7: time and distance only ever grow by the step's own amount
            for attr in ('flight_time', 'ground_distance'):
                for t, v, e in stp.stores(attr):
                    d = _delta(v, canon(t))
                    ok = d is not None and all(s > 0 for s, _ in d)
                    ctx.ob('C02-R7', e.fi, f'{ph.lower()} step: {attr} = {canon(uncur(v))[:60]}', ok,
                           'accumulated by addition' if ok else f'{attr} is assigned or decreased on the flight path', line=e.line)
    # a phase that is not the first continues from the last stored point of the trajectory
    order = [ph for ph in runs]
    for ph, (meth, pre, steps) in runs.items():
        pts = sorted({canon(t.value) for stp in steps for t, v, e in stp.stores('fuel_mass')})
        for ptxt in pts:
            pe = ast.parse(ptxt, mode='eval').body
            is_mk = isinstance(pe, ast.Call) and isinstance(pe.func, ast.Attribute) and pe.func.attr == 'make_point'
            if not is_mk:
                ctx.undecided('C02-R1', meth, ptxt[:80], 'the point a phase advances is not made by make_point()')
            idx = pe.args[0] if pe.args else next((k.value for k in pe.keywords if k.arg == 'idx'), None)
            if ph == order[0]:
                ok = idx is None or (isinstance(idx, ast.Constant) and idx.value is None)
                why = 'first phase starts from a fresh point' if ok else 'the first phase starts from a stored point'
            else:
                ok = idx is not None and (const_value(idx) == -1 or canon(idx) in ('len(traj) - 1', 'traj._size - 1'))
                why = 'continues from the last stored point' if ok else \
                    (f'{ph.lower()} starts from point `{canon(idx) if idx is not None else "(uninitialised)"}`, not from the last point of the '
                     'previous phase: mass, time and distance jump at the hand-over')
            ctx.ob('C02-R1', meth, f'{ph.lower()} advances {ptxt.replace("traj.", "")}', ok, why, nontrivial=False)
    ctx.floor('C02-R1', n_pairs, 2, 'fuel/aircraft mass decrement pairs')
    ctx.floor('C02-R2', n_clamp, 2, 'mass decrements in the level-change phases')
    ctx.floor('C02-R4', n_pos, 6, 'position writes on the flight path')

    # ---- R5 / R7 / R4: the first point
    meth, pre, csteps = runs['CLIMB']
    points = {canon(t.value) for stp in csteps for t, v, e in stp.stores('fuel_mass')}
    first = {}
    for e in pre:
        if e.kind == 'store' and isinstance(e.target, ast.Attribute) and canon(e.target.value) in points \
                and not any(x.kind == 'endpath' for x in ()):
            first.setdefault(e.target.attr, e)      # the initialisation of the point the climb loop then advances
    def ctx_field(v):
        # the builder forwards attribute access to its per-flight context: self.x and self.ctx.x are one field
        return canon(v).replace('self.ctx.', 'self.') if v is not None else None
    # the first point takes its masses from the context fields fly() reports, or reads the reported fields of the
    # trajectory it belongs to (the trajectory parameter of the phase, the one the point is made from)
    tparam = meth.params[1] if len(meth.params) > 1 else 'traj'
    own_traj = all(pt_ == f'{tparam}.make_point()' for pt_ in points)
    from_traj = {}          # reported field -> True when the first point reads it off its own trajectory
    for attr, want in (('aircraft_mass', 'self.starting_mass'), ('fuel_mass', 'self.total_fuel_mass')):
        e = first.get(attr)
        got = ctx_field(e.value) if e is not None else None
        field_ = want.split('.', 1)[1]
        from_traj[field_] = own_traj and got == f'{tparam}.{field_}'
        ok = e is not None and (got == want or from_traj[field_])
        ctx.ob('C02-R5', (e.fi if e is not None else meth), f'pt.{attr} = {canon(e.value)[:50] if e is not None else "?"}', ok,
               ('first point carries the context value fly() reports' if not from_traj[field_] else
                f'first point carries the {field_} its own trajectory reports') if ok else
               f'first point {attr} is not initialised from {want}', line=(e.line if e is not None else 0))
    for attr in ('flight_time', 'ground_distance'):
        e = first.get(attr)
        ok = e is not None and isinstance(e.value, ast.Constant) and e.value.value == 0
        ctx.ob('C02-R7', (e.fi if e is not None else meth), f'pt.{attr} = {canon(e.value)[:30] if e is not None else "?"}', ok,
               'accumulator starts at zero' if ok else f'{attr} does not start at zero', line=(e.line if e is not None else 0))
    for attr, tail in (('longitude', 'location.longitude'), ('latitude', 'location.latitude'), ('azimuth', 'azimuth')):
        e = first.get(attr)
        if e is None:
            ctx.ob('C02-R4', meth, f'pt.{attr} of the first point', False, f'the first point\'s {attr} is never set', nontrivial=False)
            continue
        txt = ctx_field(_positions_as_fields(e.value, pfields))
        heads = ('self.ground_track[0].', 'self.ground_track.location(0).', 'self.ground_track.location(0.0).',
                 'self.ground_track.step(0, 0).', 'self.ground_track.step(0.0, 0.0).')
        head = next((h for h in heads if txt.startswith(h)), None)
        if head is None:
            ctx.undecided('C02-R4', e.fi, txt[:80], 'source of the first point\'s position not recognised as the start of the ground track')
        ok = txt[len(head):] == tail
        ctx.ob('C02-R4', e.fi, f'pt.{attr} = {txt[:50]}', ok,
               'first point is the start of the ground track' if ok else
               f'pt.{attr} of the first point receives `.{txt[len(head):]}` of the track start: a different component',
               line=e.line, nontrivial=False)
    # ground_track.step() itself refuses a negative advance (that refusal is what rejects a mission that is too short)
    from .c06 import Undecided as _U
    stepf = prog.func('trajectories/ground_track.py', 'GroundTrack.step')
    dpar = stepf.params[2] if len(stepf.params) > 2 else 'distance_step'
    try:
        open_paths = _paths_answering(prog, stepf, None, {dpar: -1.0, stepf.params[1]: 5.0})
    except _U as ex:
        ctx.undecided('C02-R4', stepf, 'step', str(ex))
    if open_paths:
        # say it on step's own text when the open path shows there (helpers not opened), else on the opened text
        try:
            own = _paths_answering(prog, stepf, None, {dpar: -1.0, stepf.params[1]: 5.0}, depth=0, opened=False)
        except _U:
            own = []
        v0, st0 = (own or open_paths)[0]
        tests = []
        for c, p in st0.pc:
            try:
                ceval(c, {dpar: -1.0, stepf.params[1]: 5.0})
            except Exception:
                continue
            if dpar in {n.id for n in ast.walk(c) if isinstance(n, ast.Name)}:
                tests.append(canon(uncur(c)))
        how = (f'`return {canon(uncur(v0))[:60]}` is reached with {dpar} < 0 '
               + (f'(the sign tests on the way, `{"`, `".join(t[:50] for t in tests[:2])}`, let it through)' if tests else
                  f'(no test of the sign of {dpar} lies on that path: the refusal of negative distances does not cover it)'))
    ctx.ob('C02-R4', stepf, 'ground_track.step refuses a negative distance step', not open_paths,
           'every returning path excludes distance_step < 0' if not open_paths else
           'a negative step is answered with a point: ' + how + '; a mission too short for its climb and descent is flown '
           'backwards instead of being refused')
    # leg coherence of the forward geodesic: the two parts of C15's ground-track rules that judge C15-R5 (the sample
    # queries and the leg components), under rule_track's own policy for a part that cannot decide -- an established
    # incoherence stands; the parts about C15's other clauses (slots, mission, private helpers) are not C02's
    from .c15 import rule_legs, rule_queries
    sub = type(ctx)(ctx.prop, ctx.prog, ctx.tier)
    covered: set = set()
    first_error = None
    for part in (lambda c: rule_queries(c, covered), lambda c: rule_legs(c, covered)):
        try:
            part(sub)
        except AnalysisError as ex:
            first_error = first_error or ex
    if first_error is not None and not any(not o.ok and o.rule == 'C15-R5' for o in sub.obligations):
        raise first_error
    for o in sub.obligations:
        if o.rule == 'C15-R5':
            o.rule = 'C02-R4'
            ctx.obligations.append(o)

    # ---- R5: fly() reports the same context fields
    from .c06 import Engine, Undecided
    fly = prog.func(BASE, 'Builder.fly')
    eng = Engine(prog, inline=lambda fi: fi.file == fly.file, read_back=False)
    try:
        outs = eng.run(fly, self_cls=fly.cls)
    except Undecided as ex:
        ctx.undecided('C02-R5', fly, 'fly', str(ex))
    want = {'starting_mass': 'self.starting_mass', 'total_fuel_mass': 'self.total_fuel_mass'}
    seen = {}
    for kind, v, st in outs:
        if kind != 'return':
            continue
        got = {e.target.attr: e for e in st.events if e.kind == 'store' and isinstance(e.target, ast.Attribute)
               and e.target.attr in want and canon(e.target.value) == canon(v)}
        for attr, w in want.items():
            if from_traj.get(attr):
                # the first point reads the reported field of the trajectory it belongs to: what it carries is what
                # is reported when the field is set on the trajectory before its phases are flown and not changed after
                key = (attr, 'own', _own_metadata_discipline(st, v, attr))
                if key in seen:
                    continue
                seen[key] = True
                ok, why, line = key[2]
                if ok is None:
                    ctx.undecided('C02-R5', fly, f'traj.{attr}', why)
                ctx.ob('C02-R5', fly, f'traj.{attr} is set before the phases are flown and kept', ok, why,
                       line=(line or fly.node.lineno))
                continue
            e = got.get(attr)
            key = (attr, canon(e.value) if e is not None else None)
            if key in seen:
                continue
            seen[key] = True
            ok = e is not None and ctx_field(e.value) == w
            ctx.ob('C02-R5', fly, f'traj.{attr} = {canon(e.value)[:50] if e is not None else "(not set)"}', ok,
                   'reported metadata is the context value' if ok else
                   'reported starting mass / fuel load differs from what the first point carries', line=(e.line if e is not None else fly.node.lineno))

    # ---- R5: ... and the reported fields still hold what the returned trajectory was flown with
    for sfi, part, attr, dirty in _masses_after_flight(prog, fly, runs['CLIMB'][0].cls or fly.cls):
        if from_traj.get(attr):
            continue
        ctx.ob('C02-R5', sfi, f'traj.{attr} is reported as it was when the returned trajectory was flown', not dirty,
               'no write to the context field between the flight of the returned trajectory and the report' if not dirty else
               (f'self.{attr} is changed (line {int(dirty)}) after the trajectory that is returned has been flown and before it is reported '
                f'in traj.{attr}: the first point of the returned trajectory carries the value before that change, not the reported one'),
               line=part.lineno)

    # ---- R8: the altitude schedule of each phase
    rules_seen = {}
    for ph, (meth, pre, steps) in runs.items():
        alt_pre = [e for e in pre if e.kind == 'store' and isinstance(e.target, ast.Attribute) and e.target.attr == 'altitude']
        alt_loop = {}
        for stp in steps:
            for t, v, e in stp.stores('altitude'):
                alt_loop[canon(v)] = (v, e, stp)
        if ph in PHASE_ALTS:
            s_alt, e_alt = PHASE_ALTS[ph]
            if len(alt_loop) != 1:
                ctx.undecided('C02-R8', meth, f'{ph} altitude', f'{len(alt_loop)} different altitude assignments in the stepping loop')
            v, e, stp = next(iter(alt_loop.values()))
            each = next((n for n in ast.walk(v) if is_sym(n, '_each')), None)
            rng = each.args[0] if each is not None else None
            if not (isinstance(rng, ast.Call) and canon(rng.func) == 'range' and len(rng.args) == 1):
                ctx.undecided('C02-R8', e.fi, canon(v)[:80], 'altitude schedule is not a function of the index of a range(n) loop')
            n_expr = rng.args[0]

            def at(index_expr):
                class Sub(ast.NodeTransformer):
                    def visit_Call(self, n):
                        if is_sym(n, '_each') and canon(n) == canon(each):
                            return index_expr
                        return self.generic_visit(n)
                from .c06 import clone
                return _nf(Sub().visit(clone(v)), {})
            last = at(ast.BinOp(left=n_expr, op=ast.Sub(), right=ast.Constant(1)))
            first_ = at(ast.Constant(0))
            want_last = _nf(ast.parse(e_alt, mode='eval').body, {})
            want_first = _nf(ast.parse(s_alt, mode='eval').body, {})
            if last is None or first_ is None:
                ctx.undecided('C02-R8', e.fi, canon(v)[:80], 'cannot normalise the altitude schedule')
            ok = poly_equal(last, want_last) and poly_equal(first_, want_first)
            ctx.ob('C02-R8', e.fi, f'{ph.lower()} altitude schedule runs from {s_alt} to {e_alt}', ok,
                   'with i = 0: start; with i = n − 1: start + (n − 1)·(end − start)/(n − 1) ≡ end' if ok else
                   (f'last point altitude normalises to {last}, not {e_alt}' if not poly_equal(last, want_last) else
                    f'first point altitude normalises to {first_}, not {s_alt}'), line=e.line)
            # the last index appends the point and leaves the loop without flying a further segment
            lasts = []
            for stp2 in steps:
                pc = stp2.events[-1].pc if stp2.events else ()
                for c, p in pc:
                    if p and isinstance(c, ast.Compare) and len(c.ops) == 1 and isinstance(c.ops[0], ast.Eq):
                        l = _nf(ast.BinOp(left=c.left, op=ast.Sub(), right=c.comparators[0]), {})
                        w = _nf(ast.BinOp(left=each, op=ast.Sub(), right=ast.BinOp(left=n_expr, op=ast.Sub(), right=ast.Constant(1))), {})
                        if l is not None and w is not None and (poly_equal(l, w) or (l + w).is_zero()):
                            lasts.append(stp2)
            ok = bool(lasts) and all(any(x.kind == 'call' and x.name == '.append' for x in s2.events) and not s2.stores('fuel_mass')
                                     for s2 in lasts)
            ctx.ob('C02-R8', meth, f'{ph.lower()}: the last altitude step appends its point and stops', ok,
                   'point appended, no further segment flown' if ok else 'last point is not appended before leaving the loop',
                   nontrivial=False)
        else:
            ok = not alt_loop and len({canon(e.value) for e in alt_pre}) == 1 and canon(alt_pre[0].value) == 'self.crz_start_altitude'
            ctx.ob('C02-R8', meth, 'cruise altitude constant at the cruise level', ok,
                   'set once before the cruise loop' if ok else 'cruise altitude varies or is not the cruise level',
                   line=(alt_pre[0].line if alt_pre else meth.node.lineno))
        # the performance rule and the phase marker of the phase
        for stp in steps:
            for x in stp.events:
                if x.kind == 'call' and x.name == '.evaluate' and len(x.args) + len(x.kwargs) >= 2:
                    r = x.args[1] if len(x.args) > 1 else x.kwargs.get('rules')
                    rules_seen.setdefault(ph, set()).add(canon(r))
        got = rules_seen.get(ph, set())
        ok = got == {f'SimpleFlightRules.{PHASE_RULE[ph]}'}
        ctx.ob('C02-R8', meth, f'{ph.lower()} evaluates the performance model under {sorted(got)}', ok,
               'phase flown with its own flight rule' if ok else
               'phase is flown between the wrong altitudes or with the wrong performance rule')
        marks = {canon(x.args[0]) for x in pre if x.kind == 'call' and x.name == '.set_phase' and x.args}
        ok = marks == {f'FlightPhase.{ph}'}
        ctx.ob('C02-R8', meth, f'{ph.lower()} points are marked {sorted(marks)}', ok, 'own phase' if ok else 'points are counted under another phase',
               nontrivial=False)


# ---- R5: the masses reported are the ones the returned trajectory was flown with ----
def _masses_after_flight(prog, fly, builder_cls, fields=('starting_mass', 'total_fuel_mass')):
    """[(stamp statement, field, line of the offending write)] over fly() and the builder methods it calls: forward
    may-dataflow on the CFGs.  The state is 0 while the context's `fields` are what the last flown trajectory started
    with, else the line of a write to one of them since; a call of the method that builds and flies a trajectory
    (constructs Trajectory) makes it 0, a call of another builder method continues in that method's CFG, a store to
    self.<field> / self.ctx.<field> makes it that line.  A *stamp* is a store `<trajectory>.<field> = self.<field>`;
    it must be reached with state 0 on every path."""
    memo: dict = {}
    stamps: list = []

    def is_ctx_field(t):
        return isinstance(t, ast.Attribute) and t.attr in fields and norm(t.value) in ('self', 'self.ctx')

    def parts(stmt):
        if isinstance(stmt, (ast.If, ast.While)):
            return [stmt.test]
        if isinstance(stmt, (ast.For, ast.AsyncFor)):
            return [stmt.iter]
        if isinstance(stmt, (ast.With, ast.AsyncWith)):
            return [i.context_expr for i in stmt.items]
        if isinstance(stmt, ast.Match):
            return [stmt.subject]
        if isinstance(stmt, (ast.Try, ast.FunctionDef, ast.AsyncFunctionDef, ast.ClassDef)) or not isinstance(stmt, ast.AST):
            return []
        return [stmt]

    def flies(fi):
        return any(isinstance(n, ast.Call) and norm(n.func).split('.')[-1] == 'Trajectory' for n in walk_no_nested(fi.node))

    def flow(fi, init, stack=()):
        key = (fi.qualname, init)
        if key in memo:
            return memo[key]
        if fi.qualname in stack or len(stack) > 6:
            return init
        memo[key] = init
        g = CFG(fi.node)

        def transfer(node, st):
            for part in parts(node.stmt):
                calls = sorted((n for n in walk_no_nested(part) if isinstance(n, ast.Call)),
                               key=lambda n: (getattr(n, 'end_lineno', 0), getattr(n, 'end_col_offset', 0)))
                for c in calls:
                    f = c.func
                    if isinstance(f, ast.Attribute) and isinstance(f.value, ast.Name) and f.value.id == 'self':
                        m = builder_cls.find_method(f.attr)
                        if m is None or m.node is fi.node:
                            continue
                        st = 0 if flies(m) else flow(m, st, stack + (fi.qualname,))
                if isinstance(part, (ast.Assign, ast.AugAssign, ast.AnnAssign)) and not (isinstance(part, ast.AnnAssign) and part.value is None):
                    tgts = part.targets if isinstance(part, ast.Assign) else [part.target]
                    flat = [x for t in tgts for x in (t.elts if isinstance(t, (ast.Tuple, ast.List)) else [t])]
                    for t in flat:
                        if is_ctx_field(t):
                            st = part.lineno
                        elif isinstance(t, ast.Attribute) and t.attr in fields and isinstance(part, ast.Assign) \
                                and isinstance(part.value, ast.Attribute) and is_ctx_field(part.value) and part.value.attr == t.attr:
                            stamps.append((fi, part, t.attr, st))
            return st
        ins, _ = g.forward(init, transfer, lambda a, b: max(a, b))
        # the stamps were recorded while iterating to the fixpoint: keep the final in-state of each
        final = {}
        for i, node in enumerate(g.nodes):
            if node.id in ins and isinstance(node.stmt, ast.Assign) and node.kind == 'stmt':
                final[id(node.stmt)] = max(final.get(id(node.stmt), 0), ins[node.id])
        for j, (f2, part, attr, st) in enumerate(stamps):
            if f2 is fi and id(part) in final:
                stamps[j] = (f2, part, attr, final[id(part)])
        memo[key] = ins.get(g.exit, init)
        return memo[key]
    flow(fly, 0)
    seen, out = set(), []
    for fi, part, attr, st in stamps:
        if (id(part), attr) not in seen:
            seen.add((id(part), attr))
            out.append((fi, part, attr, max(s for f, p, a, s in stamps if p is part and a == attr)))
    return out


def _own_metadata_discipline(st, v, attr):
    """(ok, why, line) for one returning path of fly() (helpers opened) when the first point reads `attr` off the
    trajectory it belongs to.  Every trajectory object X that has X.attr stored on the path: the stores come before
    every call that receives X (the phases flown on it see the value) and no store of another value follows such a
    call.  The trajectory returned is one of these (the same object; or, handed on through a loop-carried local, one
    of the trajectories the path built -- all of which then satisfy the condition).  ok None = cannot tell."""
    from .c06 import canon, is_sym
    ev = list(st.events)
    recv: dict = {}
    born: dict = {}         # text of a constructed object -> positions of its constructor events (same text, new object)
    for i, e in enumerate(ev):
        if e.kind == 'ctor' and e.value is not None:
            born.setdefault(canon(e.value), []).append(i)
    for i, e in enumerate(ev):
        if e.kind == 'store' and isinstance(e.target, ast.Attribute) and e.target.attr == attr:
            r = canon(e.target.value)
            if r in ('self', 'self.ctx'):
                continue
            gen = sum(1 for b in born.get(r, ()) if b <= i)
            recv.setdefault((r, gen), []).append((i, e))
    if not recv:
        return False, f'{attr} of the trajectory is never set, yet the first point is initialised from it', 0
    for (r, gen), stores in recv.items():
        life = [b for b in born.get(r, ())]
        lo = life[gen - 1] if gen >= 1 else -1
        hi = life[gen] if gen < len(life) else len(ev)
        uses = [i for i, e in enumerate(ev) if lo < i < hi and e.kind == 'call'
                and any(canon(a) == r for a in list(e.args) + list(e.kwargs.values()))]
        if not uses:
            continue
        before = [(i, e) for i, e in stores if i < uses[0]]
        if not before:
            i, e = stores[0]
            return False, (f'{attr} of the trajectory is set only after its phases have been flown: the first point is '
                           'initialised from a field that has no value yet'), e.line
        val = canon(before[-1][1].value)
        late = [(i, e) for i, e in stores if i > uses[0] and canon(e.value) != val]
        if late:
            return False, (f'{attr} of the trajectory is set to `{val[:40]}` before the phases are flown (the first point '
                           f'carries that) and to `{canon(late[0][1].value)[:40]}` afterwards (that is reported)'), late[0][1].line
    rv = canon(v)
    if any(r == rv for r, _ in recv):
        return True, 'set on the trajectory before its phases are flown, not changed afterwards; that trajectory is returned', 0
    if any(is_sym(n, '_loopvar') for n in ast.walk(v)):
        return True, ('set on every trajectory the path builds before its phases are flown, not changed afterwards; the '
                      'trajectory returned is handed on through a loop-carried local'), 0
    return None, f'cannot relate the returned `{rv[:50]}` to the trajectories whose {attr} is set on the path', 0


def _delegates(func) -> list[str] | None:
    """names of the methods of `self` that the callee expression `func` can denote: self.m, a conditional between
    such, an entry (or the default) of a literal table of such"""
    if isinstance(func, ast.Attribute) and isinstance(func.value, ast.Name) and func.value.id in ('self', 'cls'):
        return [func.attr]
    if isinstance(func, ast.IfExp):
        a, b = _delegates(func.body), _delegates(func.orelse)
        return a + b if a is not None and b is not None else None
    table, extra = None, []
    if isinstance(func, ast.Subscript) and isinstance(func.value, ast.Dict):
        table = func.value
    elif isinstance(func, ast.Subscript) and isinstance(func.value, (ast.Tuple, ast.List)):
        table = func.value
    elif isinstance(func, ast.Call) and isinstance(func.func, ast.Attribute) and func.func.attr == 'get' \
            and isinstance(func.func.value, ast.Dict) and len(func.args) == 2 and not func.keywords:
        table, extra = func.func.value, [func.args[1]]
    if table is None:
        return None
    out = []
    for v in list(table.values if isinstance(table, ast.Dict) else table.elts) + extra:
        d = _delegates(v)
        if d is None:
            return None
        out += d
    return out or None


def _paths_answering(prog, fi, args, probe, depth=3, opened=True):
    """[(value, St)] of the returning paths of `fi` that the inputs `probe` ({parameter of the outermost function:
    number}) may take.  Path conditions are evaluated on the probe (a condition that cannot be evaluated decides
    nothing); helpers of the same file are opened by the engine; a result that is delegated to a method of the same
    class -- `return self.m(..)`, also through a conditional callee or a literal dispatch table -- is followed into
    every method the callee can denote, with its parameters bound to the arguments, so that a refusal placed in the
    delegate counts for the path and one placed in only one of the delegates does not."""
    from .c06 import Engine, Undecided, ceval
    try:
        if not opened:
            raise Undecided('as written')
        outs = Engine(prog, inline=lambda f: f.file == fi.file).run(fi, self_cls=fi.cls, args=args)
    except Undecided:
        outs = Engine(prog, inline=lambda f: False).run(fi, self_cls=fi.cls, args=args)
    res = []
    for kind, v, st in outs:
        if kind != 'return':
            continue
        closed = False
        for cond, pol in st.pc:
            try:
                if bool(ceval(cond, dict(probe))) != pol:
                    closed = True
                    break
            except Exception:
                continue
        if closed:
            continue
        names = _delegates(v.func) if isinstance(v, ast.Call) and depth > 0 else None
        cands = [fi.cls.find_method(n) for n in names] if names and fi.cls is not None else []
        if not cands or any(c is None or c.node is fi.node for c in cands) \
                or any(isinstance(a, ast.Starred) for a in v.args) or any(k.arg is None for k in v.keywords):
            res.append((v, st))
            continue
        for c in cands:
            decs = [d.split('.')[-1].split('(')[0] for d in c.decorators()]
            params = list(c.params) if 'staticmethod' in decs else list(c.params[1:])
            bound = dict(zip(params, v.args))
            bound.update({k.arg: k.value for k in v.keywords if k.arg in params})
            res += _paths_answering(prog, c, bound, probe, depth - 1, opened)
    return res


def _non_negative(d, e, ceval, canon, is_sym):
    """(ok, why): the total subtracted `sum(-s * x)` cannot be negative on the path of event e"""
    if all(isinstance(x, ast.Constant) and isinstance(x.value, (int, float)) and x.value >= 0 for s, x in d if s < 0) \
            and all(s < 0 for s, _ in d):
        return True, 'zero (the clamped branch)'
    if len(d) == 1 and d[0][0] < 0:
        x = d[0][1]
        if isinstance(x, ast.Call) and canon(x.func) in ('max', 'np.maximum', 'numpy.maximum') and any(
                isinstance(a, ast.Constant) and a.value == 0 for a in x.args):
            return True, 'max(·, 0)'
        if isinstance(x, ast.Call) and canon(x.func) in ('np.clip', 'numpy.clip') and len(x.args) >= 2 \
                and isinstance(x.args[1], ast.Constant) and x.args[1].value == 0:
            return True, 'clip(·, 0, …)'
        xt = canon(x)
        # is the path still open to a negative amount?  evaluate its conditions with the amount at -1
        closed = False
        for cond, pol in e.pc:
            if xt not in canon(cond):
                continue

            def atom(n):
                if canon(n) == xt:
                    return -1.0
                return NotImplemented
            try:
                if bool(ceval(cond, {}, atom)) != pol:
                    closed = True
            except Exception:
                continue
        if closed:
            return True, 'the path is only taken when the amount is not negative (clamp test dominates the decrement)'
        return False, f'no non-negativity clamp on `{xt[:60]}` before it is subtracted: decelerating can add fuel'
    return None, 'decrement is not a single clamped amount'


# ----------------------------------------------------------------- R6 ---
# The altitude schedule of a mission, decided by evaluating the context constructor's own paths on explicit missions.
# Oracle (property statement + the builder's documented schedule): climb starts 3000 ft above the origin, at the origin's
# own elevation if that level would reach the ceiling; cruise 7000 ft below the ceiling, not below the climb start, not
# above the ceiling; descent starts at the cruise level and ends 3000 ft above the destination, at the ceiling if that
# level would reach it; a mission whose climb start lies above the cruise level, or whose descent would end above the
# cruise level, is refused.
def _reference_schedule(o, d, ceil, ft=0.3048):
    clm = o + 3000.0 * ft
    if clm >= ceil:
        clm = o
    crz = ceil - 7000.0 * ft
    if crz < clm:
        crz = clm
    if crz > ceil:
        crz = ceil
    des_end = d + 3000.0 * ft
    if des_end >= ceil:
        des_end = ceil
    if crz < clm or des_end > crz:
        return None
    return {'clm_start_altitude': clm, 'crz_start_altitude': crz, 'des_start_altitude': crz, 'des_end_altitude': des_end}


SCHEDULE_MISSIONS = [
    ('sea-level airports', 0.0, 0.0, 12500.0),
    ('origin 500 m, destination 1500 m', 500.0, 1500.0, 12500.0),
    ('origin within 3000 ft of the ceiling', 10000.0, 0.0, 10500.0),
    ('origin above the ceiling', 11000.0, 0.0, 10500.0),
    ('destination within 3000 ft of the ceiling', 0.0, 10000.0, 10500.0),
    ('destination + 3000 ft just below the cruise level', 0.0, 9000.0, 12500.0),
    ('destination + 3000 ft above the cruise level', 0.0, 9600.0, 12500.0),
    ('origin + 3000 ft above ceiling − 7000 ft', 9500.0, 0.0, 12500.0),
    ('both airports within 3000 ft of the ceiling', 10000.0, 10000.0, 10500.0),
    ('origin within 3000 ft of the ceiling, destination 3000 ft lower', 10000.0, 9000.0, 10500.0),
    ('origin at the ceiling, destination within 3000 ft of it', 10500.0, 10000.0, 10500.0),
]


def rule_schedule(ctx):
    from .c06 import Engine, Undecided, Unknown, canon, ceval, _name as nm
    prog = ctx.prog
    lm = prog.module(LEG)
    ini = lm.func('LegacyContext.__init__')
    eng = Engine(prog, inline=lambda fi: fi.file == ini.file)         # its own helpers, not the base constructor
    names = ['self', 'builder', 'ac_performance', 'mission', 'starting_mass']
    try:
        outs = eng.run(ini, self_cls=ini.cls, args={p: nm(n) for p, n in zip(ini.params, names)})
    except Undecided as ex:
        ctx.undecided('C02-R6', ini, '__init__', str(ex))
    from ..algebra import module_constants
    units = module_constants(prog.module('units.py'))
    consts = {k: float(v) for k, v in module_constants(lm, extra=units).items()}     # incl. named constants of the module
    fields = ('clm_start_altitude', 'crz_start_altitude', 'des_start_altitude', 'des_end_altitude')
    for what, o, d, ceil in SCHEDULE_MISSIONS:
        def atom(n, o=o, d=d, ceil=ceil):
            if isinstance(n, ast.Attribute):
                t = canon(n)
                if t == 'mission.origin_position.altitude':
                    return o
                if t == 'mission.destination_position.altitude':
                    return d
                if t == 'ac_performance.maximum_altitude':
                    return ceil
            if isinstance(n, ast.Name) and n.id in consts:
                return consts[n.id]
            return NotImplemented
        taken = []
        for kind, v, st in outs:
            ok = True
            for cond, pol in st.pc:
                try:
                    if bool(ceval(cond, {}, atom)) != pol:
                        ok = False
                        break
                except Unknown:
                    continue
                except Exception:
                    continue
            if ok:
                taken.append((kind, v, st))
        if not taken:
            ctx.undecided('C02-R6', ini, what, 'no path through the context constructor is taken for this mission')
        want = _reference_schedule(o, d, ceil, consts.get('FEET_TO_METERS', 0.3048))
        problems = []
        line = ini.node.lineno
        for kind, v, st in taken:
            completed = [e for e in st.events if e.kind == 'call' and e.name == '.__init__']
            if want is None:
                if kind != 'raise':
                    problems.append('the mission is accepted although its climb start lies above the cruise level or its descent '
                                    'would end above it')
                elif completed:
                    problems.append('the mission is refused only after the context has been completed')
                continue
            if kind == 'raise':
                problems.append(f'a flyable mission is refused: {canon(v)[:60]}')
                line = st.events[-1].line if st.events else line
                continue
            for f in fields:
                hv = st.heap.get(f'self.{f}')
                if hv is None:
                    problems.append(f'self.{f} is not set')
                    continue
                try:
                    got = float(ceval(hv, {}, atom))
                except Exception:
                    ctx.undecided('C02-R6', ini, canon(hv)[:80], f'cannot evaluate self.{f} for this mission')
                if abs(got - want[f]) > 1e-6:
                    problems.append(f'self.{f} = {canon(hv)[:50]} gives {got:.1f} m, the documented schedule gives {want[f]:.1f} m')
                    ev = [e for e in st.events if e.kind == 'store' and canon(e.target) == f'self.{f}']
                    line = ev[-1].line if ev else line
            if not completed:
                problems.append('the base context is not initialised')
            else:
                e = completed[-1]
                ia = e.kwargs.get('initial_altitude') or (e.args[4] if len(e.args) > 4 else None)
                try:
                    got = float(ceval(ia, {}, atom)) if ia is not None else None
                except Exception:
                    got = None
                if got is None or abs(got - want['clm_start_altitude']) > 1e-6:
                    problems.append('the trajectory does not start at the climb start altitude')
        sched = 'refused' if want is None else ', '.join(f'{k.split("_alt")[0]}={v:.0f}' for k, v in want.items())
        ctx.ob('C02-R6', ini, f'mission with {what} (origin {o:.0f} m, destination {d:.0f} m, ceiling {ceil:.0f} m): {sched}', not problems,
               'the constructor\'s own path for this mission gives the documented schedule' if not problems else problems[0], line=line)


def _view_of_field(e, key_ok=None):
    """K when e is the stored-points view `self._data[K][: self._size]` of field K (key_ok(K) may restrict K)"""
    if isinstance(e, ast.Subscript) and _is_view_slice(e) and isinstance(e.value, ast.Subscript) and _is_table(e.value.value):
        return e.value.slice
    return None


def rule_resample(ctx):
    """R9, decided on the values that flow (symbolic execution of Trajectory.interpolate_time, closures and helpers
    inlined): every value stored into the field table of the returned trajectory is, according to the dimensions of
    the field,  np.interp(x = the new times as given, xp = the stored-points view of this trajectory's own
    flight_time, fp = the stored-points view of the same field / the entry of the same species of the same field,
    NaN outside)  or a deep copy of the same field; the result is a Trajectory sized by the new time vector with the
    same field sets."""
    from .c06 import Engine, Sym, Undecided, canon, is_sym, _taken, _name as nm
    prog = ctx.prog
    fi = prog.func(TRAJ, 'Trajectory.interpolate_time')
    eng = Engine(prog)
    tparam = fi.params[1]
    try:
        outs = eng.run(fi, self_cls=fi.cls, args={tparam: nm('new_time')})
    except Undecided as ex:
        ctx.undecided('C02-R9', fi, fi.name, str(ex))
    rets = [(v, st) for k, v, st in outs if k == 'return']
    if not rets:
        ctx.undecided('C02-R9', fi, fi.name, 'no returning path')

    # ---- the result object
    news = {}
    for v, st in rets:
        news[canon(v)] = v
    ok = len(news) == 1 and isinstance(v, ast.Call) and isinstance(v.func, ast.Name) and v.func.id == fi.cls.name
    NEW = next(iter(news.values()))
    if not ok:
        ctx.ob('C02-R9', fi, f'returns {sorted(news)[0][:60]}', False, 'the resampled trajectory is not a new Trajectory built here')
        return
    n_arg = NEW.args[0] if NEW.args else next((k.value for k in NEW.keywords if k.arg in ('npoints', 'size', 'n')), None)
    fs = next((k.value for k in NEW.keywords if k.arg == 'fieldsets'), None)
    fs_core = fs
    while isinstance(fs_core, ast.Call) and canon(fs_core.func) in ('list', 'tuple', 'set', 'sorted', 'copy', 'deepcopy') and fs_core.args:
        fs_core = fs_core.args[0]
    ok = n_arg is not None and canon(n_arg) in ('len(new_time)', 'new_time.shape[0]', 'new_time.size', 'np.size(new_time)') \
        and fs_core is not None and canon(fs_core) == 'self._fieldsets'
    ctx.ob('C02-R9', fi, 'result sized by the new time vector, same field sets', ok, canon(NEW)[:80] if ok else
           f'result container changed: {canon(NEW)[:80]}')
    NEWT = canon(NEW)

    # ---- the stores into the result, per kind of field
    def describe(kind, V, K, st, line):
        """(ok, why) for a value V stored under key K of the result"""
        kt = canon(K)
        if kind == 'copy':
            core = V
            if isinstance(core, ast.Call) and canon(core.func) in ('deepcopy', 'copy.deepcopy') and len(core.args) == 1:
                src = core.args[0]
            elif isinstance(core, ast.Call) and isinstance(core.func, ast.Attribute) and core.func.attr in ('copy', '__deepcopy__'):
                src = core.func.value
            else:
                return False, f'a per-trajectory field is stored as `{canon(V)[:50]}`, not as a copy of the field'
            if isinstance(src, ast.Subscript) and _is_table(src.value) and canon(src.slice) == kt:
                return True, 'deep copy of the same field'
            return False, f'field {kt} receives a copy of `{canon(src)[:40]}`'
        # an interpolation
        return interp_ok(V, K, kind, st)

    def interp_ok(V, K, kind, st, sp=None):
        kt = canon(K)
        if not (isinstance(V, ast.Call) and canon(V.func) in ('np.interp', 'numpy.interp')):
            return False, f'a per-point field is stored as `{canon(V)[:60]}`, not as the linear interpolation of the field in time'
        a = {n: v for n, v in zip(('x', 'xp', 'fp', 'left', 'right', 'period'), V.args)}
        a.update({k.arg: k.value for k in V.keywords if k.arg})
        if canon(a.get('x')) != 'new_time':
            return False, f'interpolated at `{canon(a.get("x"))[:40]}`, not at the new times as given'
        xk = _view_of_field(a.get('xp'))
        if xk is None or canon(xk) != "'flight_time'":
            return False, (f'abscissa is `{canon(a.get("xp"))[:60]}`, not the stored-points view of this trajectory\'s own flight_time: '
                           'resampling at the trajectory\'s own times no longer gives back the stored values')
        fp = a.get('fp')
        if kind == 'point':
            fk = _view_of_field(fp)
            if fk is None or canon(fk) != kt:
                return False, (f'field {kt} is interpolated from `{canon(fp)[:60]}`, not from the stored-points view of the same field: '
                               'the values at the trajectory\'s own times change')
        else:
            okf = isinstance(fp, ast.Subscript) and isinstance(fp.value, ast.Subscript) and _is_table(fp.value.value) \
                and canon(fp.value.slice) == kt and (sp is None or canon(fp.slice) == canon(sp))
            if not okf:
                return False, f'species values of {kt} are interpolated from `{canon(fp)[:60]}`'
        for edge in ('left', 'right'):
            if a.get(edge) is None or canon(a.get(edge)) not in ('np.nan', 'numpy.nan', 'math.nan', "float('nan')"):
                return False, (f'{edge}={canon(a.get(edge)) if a.get(edge) is not None else "(default)"}: times outside the flown '
                               'interval are answered with the end value instead of NaN')
        if a.get('period') is not None:
            return False, 'periodic interpolation'
        return True, 'x = new times, xp = own times, fp = the same field, NaN outside'

    kinds = {'point': ({'POINT'}, 'per-point field'), 'species': ({'POINT', 'SPECIES'}, 'per-point species field'),
             'copy': (set(), 'per-trajectory field'), 'copy2': ({'SPECIES'}, 'per-trajectory species field')}
    stores = []
    for v, st in rets:
        for e in st.events:
            if e.kind == 'store' and isinstance(e.target, ast.Subscript) and isinstance(e.target.value, ast.Attribute) \
                    and e.target.value.attr == '_data' and canon(e.target.value.value) == NEWT:
                stores.append((e, st))
    seen = set()
    n_interp = 0
    for kname, (dims, what) in kinds.items():
        def atom(n, dims=dims):
            if isinstance(n, ast.Attribute) and n.attr == 'dimensions':
                return frozenset(Sym('Dimension.' + d) for d in dims)
            return NotImplemented
        taken = []
        for e, st in stores:
            tk = _taken(e.pc, atom, lambda n: isinstance(n, ast.Attribute) and n.attr == 'dimensions')
            if tk is False:
                continue
            taken.append((e, st, tk))
        kind = 'copy' if kname.startswith('copy') else kname
        if not taken:
            ctx.ob('C02-R9', fi, f'{what} carried over', False, f'a {what} present in the trajectory is not written to the result')
            continue
        for e, st, tk in taken:
            K, V = e.target.slice, e.value
            key = (kname, canon(K), canon(V))
            if key in seen:
                continue
            seen.add(key)
            if kind == 'species' and not (isinstance(V, ast.Call) and canon(V.func) in ('np.interp', 'numpy.interp')):
                # a container filled per species: by element stores, or built from a {species: value} comprehension
                parts = []          # (species key, iterated source, value)
                for x in st.events:
                    if x.kind == 'store' and isinstance(x.target, ast.Subscript) and canon(x.target.value) == canon(V):
                        sp = x.target.slice
                        src = sp.args[0] if is_sym(sp, '_each') else (sp.value.args[0] if isinstance(sp, ast.Subscript) and is_sym(sp.value, '_each') else None)
                        parts.append((sp, src, x.value))
                comp = next((a for a in (V.args if isinstance(V, ast.Call) else []) if isinstance(a, ast.DictComp)), None)
                if comp is not None and len(comp.generators) == 1 and not comp.generators[0].ifs:
                    g = comp.generators[0]
                    val = comp.value
                    if isinstance(g.target, (ast.Tuple, ast.List)) and len(g.target.elts) == 2 and isinstance(g.iter, ast.Call) \
                            and isinstance(g.iter.func, ast.Attribute) and g.iter.func.attr == 'items' and all(isinstance(z, ast.Name) for z in g.target.elts):
                        kn, vn = g.target.elts[0].id, g.target.elts[1].id
                        m = g.iter.func.value

                        class S(ast.NodeTransformer):
                            def visit_Name(self, n):
                                if n.id == vn:
                                    return ast.Subscript(value=m, slice=ast.Name(id=kn, ctx=ast.Load()), ctx=ast.Load())
                                return n
                        from .c06 import clone
                        val = S().visit(clone(val))
                    parts.append((comp.key, g.iter, val))
                if not parts:
                    ok, why = False, f'species field stored as `{canon(V)[:50]}` without per-species interpolation'
                else:
                    ok, why = True, ''
                    for sp, src, xval in parts:
                        base = f'self._data[{canon(K)}]'
                        src_ok = src is not None and canon(src) in (f'{base}.keys()', base, f'list({base}.keys())', f'{base}.items()',
                                                                    f'list({base})', f'sorted({base})', f'list({base}.items())')
                        o, w = interp_ok(xval, K, 'species', st, sp)
                        n_interp += 1
                        if not src_ok and o:
                            o, w = False, f'species loop runs over `{canon(sp)[:50]}`, not over the species of the same field'
                        if not o:
                            ok, why = o, w
                    why = why or 'every species of the same field interpolated against the own times'
            else:
                ok, why = describe(kind, V, K, st, e.line)
                n_interp += kind != 'copy'
            if tk is None and not ok:
                ctx.undecided('C02-R9', fi, canon(V)[:80], 'cannot relate the branch to the dimensions of the field')
            ctx.ob('C02-R9', fi, f'{what}: result[{canon(K)[:30]}] = {canon(V)[:60]}', ok, why, line=e.line,
                   nontrivial=(kind != 'copy'))
    ctx.floor('C02-R9', n_interp, 2, 'interpolations of per-point fields in interpolate_time')


def run(ctx):
    rule_resample(ctx)
    rule_buffers(ctx)
    rule_flight(ctx)
    rule_schedule(ctx)
    # R10: a state outside the performance envelope is refused (the no-extrapolation rule of C06)
    from .c06 import rule_no_extrapolation
    sub = type(ctx)(ctx.prop, ctx.prog, ctx.tier)
    try:
        rule_no_extrapolation(sub)
    finally:
        # what the rule established before an anchor went missing still stands
        for o in sub.obligations:
            o.rule = 'C02-R10'
            ctx.obligations.append(o)
        ctx.controls += sub.controls
    ctx.assumptions += ['a trajectory that fly() returns through a loop-carried local is one of the trajectories built on that path',
                        'monotonicity of time/distance and altitude values depend on table values (not decided)',
                        'np.resize keeps the leading elements of the resized buffer']
