"""C02 — simulated trajectories obey mass, time, distance and route bookkeeping.

R1  paired decrement: on the flight path a point's fuel_mass / aircraft_mass are
    written only by the first-point initialisation and by `-=` pairs in one
    block with the same right-hand side.
R2  clamp dominance: in the level-change phase the subtracted segment fuel is,
    on every path, last written by the non-negativity clamp or by a
    definition the clamp test dominates.
R3  buffer-view discipline of the growable container (dataflow): a value read
    from `self._data[k]` that may be a capacity-length per-point buffer may
    only be used through the `[: self._size]` view, as the append slot
    `[self._size] =`, as an argument of the whole-buffer operations, or indexed
    by an index a dominating raise-guard proves to be in [0, _size).
R4  position <-> distance pairing: positions written to a point come from
    ground_track.step(pt.ground_distance, d) and the same d is added to
    pt.ground_distance in that block; longitude<-longitude, latitude<-latitude.
    The forward-geodesic leg coherence rule of the ground track (C15-R5) is
    part of this clause.
R5  first point: starting mass / fuel come from the same context fields that
    fly() copies into the returned trajectory's metadata.
R6  infeasible schedules raise before the context is completed; the 3000 ft
    offsets and their ceiling fall-backs have the documented shape.
R7  accumulators: flight_time and ground_distance start at 0 and are only
    ever added to.
R10 out-of-envelope states are refused rather than extrapolated or filled with
    NaN: the evaluate path of the performance model interpolates only with
    bounds-checked scipy interpn (C06-R2).
R8  level-change altitude schedule ends exactly at the target altitude
    (algebraic: start + (n-1)·(end-start)/(n-1) ≡ end) and is called with the
    phase's own start/end altitudes.
"""

from __future__ import annotations

import ast

from ..algebra import normal_form, poly_equal
from ..astutil import first_stmt, last_stmt  # noqa: F401
from ..astutil import (ancestors, call_name, calls_in, guards_of, norm, single_def_value, stmt_of,
                       stores_to, walk_no_nested)
from ..cfg import CFG
from ..loader import dotted_name
from ..resolve import closure

LEG = 'trajectories/builders/legacy.py'
BASE = 'trajectories/builders/base.py'
CONT = 'storage/container.py'
TRAJ = 'trajectories/trajectory.py'

# methods whose raw-buffer use is outside C02's statement (reason given)
R3_OUT_OF_SCOPE = {
    'Trajectory.compare': 'verification helper, not part of the builder / resampling behaviour C02 states '
                          '(it does pass raw buffers to ComparisonMetrics.compute — noted, not claimed)',
}
WHOLE_BUFFER_OPS = {'np.resize', 'deepcopy', 'copy.deepcopy', 'isinstance', 'numpy.resize'}


# ----------------------------------------------------------------- R3 -----
def _is_view_slice(sub: ast.Subscript) -> bool:
    s = sub.slice
    return isinstance(s, ast.Slice) and s.lower is None and s.step is None and s.upper is not None \
        and norm(s.upper) == 'self._size'


def _index_guarded(fn: ast.AST, idx: ast.expr, use_line: int) -> bool:
    """copy_point idiom: `if idx < 0 or idx >= self._size: raise` earlier in fn."""
    t = norm(idx)
    for n in walk_no_nested(fn):
        if isinstance(n, ast.If) and isinstance(first_stmt(n.body), ast.Raise) and n.lineno < use_line:
            parts = {norm(v) for v in (n.test.values if isinstance(n.test, ast.BoolOp) and isinstance(n.test.op, ast.Or) else [n.test])}
            if f'{t} < 0' in parts and (f'{t} >= self._size' in parts or f'{t} > self._size - 1' in parts):
                return True
    return False


def _narrowing(node: ast.AST, subject: str):
    """'ndarray' | 'other' | None from enclosing isinstance / dimension tests."""
    for t, pol, owner in guards_of(node):
        for x in ast.walk(t):
            if isinstance(x, ast.Call) and call_name(x) == 'isinstance' and len(x.args) == 2 \
                    and norm(x.args[0]) == subject:
                is_nd = 'ndarray' in norm(x.args[1])
                # find the polarity of this atom: only handle the plain forms
                if norm(t) == norm(x):
                    if is_nd:
                        return 'ndarray' if pol else 'other'
                    return 'other' if pol else None
        if 'Dimension.SPECIES in' in norm(t) and pol:
            return 'other'
        # elif chains: we are in the orelse of an `if isinstance(subject, <scalars>)`
    # elif-chain narrowing: walk up If owners whose orelse contains us
    for a in ancestors(node):
        if isinstance(a, ast.If):
            for x in ast.walk(a.test):
                if isinstance(x, ast.Call) and call_name(x) == 'isinstance' and len(x.args) == 2 \
                        and norm(x.args[0]) == subject and norm(a.test) == norm(x):
                    in_body = any(node is s or _in(node, s) for s in a.body)
                    if in_body:
                        return 'ndarray' if 'ndarray' in norm(x.args[1]) else 'other'
    return None


def _in(n, anc):
    return any(a is anc for a in ancestors(n))


def _classify_use(fn: ast.AST, e: ast.AST, subject: str):
    """Classify how buffer-valued expression e (a `self._data[k]` or an alias
    Name) is consumed.  Returns (ok, how)."""
    p = getattr(e, '_parent', None)
    nar = _narrowing(e, subject)
    if nar == 'other':
        return True, 'narrowed to a non-array value'
    if isinstance(p, ast.Subscript) and p.value is e:
        if _is_view_slice(p):
            return True, 'view [: self._size]'
        if isinstance(p.ctx, ast.Store) and norm(p.slice) == 'self._size':
            return True, 'append slot [self._size] ='
        if isinstance(p.ctx, ast.Store) and _index_guarded(fn, p.slice, p.lineno):
            return True, f'element store at guarded index {norm(p.slice)}'
        if _index_guarded(fn, p.slice, p.lineno):
            return True, f'index {norm(p.slice)} proven in [0, _size) by a raise-guard'
        if isinstance(p.slice, ast.Slice):
            return False, f'sliced by {norm(p.slice)} instead of [: self._size]'
        return False, (f'indexed by `{norm(p.slice)}` on the capacity-length buffer: a negative or '
                       'unchecked index resolves against the allocated capacity, not the stored points')
    if isinstance(p, ast.Call):
        cn = call_name(p)
        if e in p.args or any(k.value is e for k in p.keywords):
            if cn in WHOLE_BUFFER_OPS:
                return True, f'whole-buffer operation {cn}'
            return False, (f'raw capacity-length buffer passed to {cn}(): the unused tail takes part in '
                           'the computation')
    if isinstance(p, ast.Attribute):
        if p.attr in ('keys', 'values', 'items', 'update'):
            return True, f'mapping API .{p.attr} (species-indexed value, not an array)'
        return False, f'attribute .{p.attr} of the raw buffer'
    if isinstance(p, ast.Compare) or isinstance(p, ast.Assert):
        return True, 'comparison / assertion'
    if isinstance(p, ast.AugAssign) and p.target is e:
        return True, 'whole-value update'
    if isinstance(p, ast.Return):
        return False, 'raw buffer returned to the caller'
    if isinstance(p, (ast.Assign, ast.AnnAssign)) and getattr(p, 'value', None) is e:
        return None, 'alias'
    return False, f'unrecognised use in `{norm(p)[:60]}`'


def rule_buffers(ctx):
    prog = ctx.prog
    classes = prog.subclasses_of('Container')
    n_acc = 0
    for cls in classes:
        for meth in cls.methods.values():
            if meth.qualname in R3_OUT_OF_SCOPE:
                ctx.note(f'C02-R3: {meth.qualname} out of scope — {R3_OUT_OF_SCOPE[meth.qualname]}')
                continue
            fn = meth.node
            for n in walk_no_nested(fn):
                if isinstance(n, ast.Subscript) and norm(n.value) == 'self._data' and isinstance(n.ctx, ast.Load):
                    # skip when it is the target of an augmented assignment of the whole value
                    subject = norm(n)
                    ok, how = _classify_use(fn, n, subject)
                    if ok is None:
                        # alias: follow every load of the alias name
                        st = stmt_of(n)
                        tgt = st.targets[0] if isinstance(st, ast.Assign) else st.target
                        if not isinstance(tgt, ast.Name):
                            ctx.ob('C02-R3', meth, f'{subject} bound to {norm(tgt)}', False,
                                   'raw buffer stored somewhere else', line=n.lineno)
                            n_acc += 1
                            continue
                        alias = tgt.id
                        for u in walk_no_nested(fn):
                            if isinstance(u, ast.Name) and u.id == alias and isinstance(u.ctx, ast.Load) \
                                    and u.lineno >= st.lineno:
                                ok2, how2 = _classify_use(fn, u, alias)
                                if ok2 is None:
                                    ok2, how2 = False, 're-aliased'
                                n_acc += 1
                                ctx.ob('C02-R3', meth, f'{alias} (= {subject}) used as {norm(u._parent)[:50]}',
                                       ok2, how2, line=u.lineno)
                        continue
                    n_acc += 1
                    ctx.ob('C02-R3', meth, f'{subject} used as {norm(n._parent)[:50]}', ok, how, line=n.lineno)
    ctx.floor('C02-R3', n_acc, 20, 'reads of the per-point buffers in Container and subclasses')
    # the view handed to users: __getattr__ returns the sliced view for arrays (covered above);
    # growth keeps the stored prefix: np.resize to the new capacity
    cm = prog.module(CONT)
    ex = cm.func('Container._expand_capacity')
    rs = [c for c in calls_in(ex.node) if call_name(c) in ('np.resize', 'numpy.resize')]
    ok = bool(rs) and all(norm(c.args[1]) in ('(self._capacity,)', 'self._capacity') for c in rs)
    cap = [st for t, st, how in stores_to(ex.node) if norm(t) == 'self._capacity']
    ok = ok and len(cap) == 1 and isinstance(cap[0], ast.AugAssign) and isinstance(cap[0].op, ast.Add) \
        and cap[0].lineno < rs[0].lineno
    ctx.ob('C02-R3', ex, 'growth enlarges every buffer to the new capacity', ok,
           'capacity raised first, every array resized to it' if ok else 'growth no longer resizes to the new capacity')
    ap = cm.func('Container._append_from_dict')
    g = CFG(ap.node)
    dom = g.dominators(edge_ok=lambda a, b, lab: lab != 'e')
    grow = [n for n in g.nodes if n.kind == 'test' and norm(n.stmt.test) in (
        'self._size == self._capacity', 'self._size >= self._capacity', 'self._capacity == self._size')]
    wr = [n for n in g.nodes if n.kind == 'stmt' and isinstance(n.stmt, ast.Assign)
          and norm(n.stmt.targets[0]).endswith('[self._size]')]
    inc = [n for n in g.nodes if n.kind == 'stmt' and isinstance(n.stmt, ast.AugAssign)
           and norm(n.stmt.target) == 'self._size']
    ok = bool(grow) and bool(wr) and all(grow[0].id in dom[w.id] for w in wr) and len(inc) == 1 \
        and all(g.reaches(w.id, inc[0].id) for w in wr) and not any(g.reaches(inc[0].id, w.id) for w in wr)
    ctx.ob('C02-R3', ap, 'append: grow when full, write slot _size, then count it', ok,
           'capacity check dominates the slot writes; _size += 1 follows them' if ok else
           'append ordering changed (write past capacity, or size counted before the write)')


# ----------------------------------------------------------------- R1/R2/R4/R7 ---
def flight_methods(prog):
    lm = prog.module(LEG)
    lb = lm.cls('LegacyBuilder')
    roots = [m for n, m in lb.methods.items() if n.startswith(('fly_', '_fly'))]
    roots.append(prog.func(BASE, 'Builder._start_point'))
    roots.append(prog.func(BASE, 'Builder._fly_iteration'))
    fns = [f for f in closure(prog, roots) if f.file.endswith((LEG, BASE))]
    return fns


def rule_bookkeeping(ctx):
    prog = ctx.prog
    fns = flight_methods(prog)
    mass_attrs = ('fuel_mass', 'aircraft_mass')
    pairs = 0
    for fi in fns:
        stores = [(t, st, how) for t, st, how in stores_to(fi.node)
                  if isinstance(t, ast.Attribute) and t.attr in mass_attrs + ('flight_time', 'ground_distance')
                  and norm(t.value) not in ('self', 'traj')]
        by_block = {}
        for t, st, how in stores:
            by_block.setdefault(id(getattr(st, '_parent', None)), []).append((t, st, how))
        for t, st, how in stores:
            a = t.attr
            if fi.qualname == 'Builder._start_point':
                if a in mass_attrs:
                    want = {'aircraft_mass': 'self.starting_mass', 'fuel_mass': 'self.total_fuel_mass'}[a]
                    ok = how == 'assign' and norm(st.value) == want
                    ctx.ob('C02-R5', fi, norm(st), ok,
                           'first point carries the context value fly() reports' if ok else
                           f'first point {a} is not initialised from {want}', line=st.lineno)
                else:
                    ok = how == 'assign' and isinstance(st.value, ast.Constant) and st.value.value == 0
                    ctx.ob('C02-R7', fi, norm(st), ok, 'accumulator starts at zero' if ok else
                           f'{a} does not start at zero', line=st.lineno)
                continue
            if a in mass_attrs:
                if not (how == 'aug' and isinstance(st.op, ast.Sub)):
                    ctx.ob('C02-R1', fi, norm(st), False,
                           f'{a} written other than by subtracting the segment fuel', line=st.lineno)
                    continue
                other = 'aircraft_mass' if a == 'fuel_mass' else 'fuel_mass'
                sib = [s for tt, s, h in by_block[id(getattr(st, '_parent', None))]
                       if tt.attr == other and norm(tt.value) == norm(t.value) and h == 'aug'
                       and isinstance(s.op, ast.Sub)]
                ok = len(sib) == 1 and norm(sib[0].value) == norm(st.value)
                if ok:
                    # no redefinition of the subtracted name between the two statements
                    lo, hi = sorted([st.lineno, sib[0].lineno])
                    names = {x.id for x in ast.walk(st.value) if isinstance(x, ast.Name)}
                    redef = [s for tt, s, h in stores_to(fi.node) if isinstance(tt, ast.Name) and tt.id in names
                             and lo < s.lineno < hi]
                    ok = not redef
                pairs += 1 if a == 'fuel_mass' else 0
                ctx.ob('C02-R1', fi, f'{norm(st)} paired with {other}', ok,
                       'same segment fuel subtracted from both in one block' if ok else
                       f'{a} and {other} are not decremented by the same amount in the same block: '
                       'aircraft mass minus fuel mass is no longer constant', line=st.lineno)
            else:
                ok = how == 'aug' and isinstance(st.op, ast.Add)
                ctx.ob('C02-R7', fi, norm(st), ok, 'accumulated by addition' if ok else
                       f'{a} is assigned or decreased on the flight path', line=st.lineno)
    ctx.floor('C02-R1', pairs, 2, 'fuel/aircraft mass decrement pairs')

    # R2 clamp dominance
    lm = prog.module(LEG)
    lc = lm.func('LegacyBuilder._fly_level_change')
    g = CFG(lc.node)
    dom = g.dominators(edge_ok=lambda a, b, lab: lab != 'e')
    uses = [n for n in g.nodes if n.kind == 'stmt' and isinstance(n.stmt, ast.AugAssign)
            and isinstance(n.stmt.target, ast.Attribute) and n.stmt.target.attr in mass_attrs]
    for u in uses:
        var = norm(u.stmt.value)
        clamp_tests = [n for n in g.nodes if n.kind == 'test' and isinstance(n.stmt, ast.If)
                       and norm(n.stmt.test) in (f'{var} < 0', f'{var} <= 0', f'0 > {var}')
                       and any(isinstance(s, ast.Assign) and norm(s.targets[0]) == var and
                               isinstance(s.value, ast.Constant) and s.value.value == 0 for s in n.stmt.body)]
        maxform = [n for n in g.nodes if n.kind == 'stmt' and isinstance(n.stmt, ast.Assign)
                   and norm(n.stmt.targets[0]) == var and isinstance(n.stmt.value, ast.Call)
                   and call_name(n.stmt.value) in ('max', 'np.maximum', 'np.clip')]
        gates = clamp_tests + maxform
        ok = False
        why = f'no non-negativity clamp on `{var}` before it is subtracted'
        for t in gates:
            if t.id in dom[u.id]:
                # no other def of var between the clamp test and the use
                clamp_body = set()
                if t.kind == 'test':
                    clamp_body = {x for s in t.stmt.body for x in g.nodes_of(s)}
                defs = [n for n in g.nodes if n.kind == 'stmt' and n.id not in clamp_body and n.id != t.id and any(
                    isinstance(tt, ast.Name) and tt.id == var for tt, s, h in stores_to(n.stmt))]
                between = [d for d in defs if g.reaches(t.id, d.id, edge_ok=lambda a, b, lab: lab != 'e' and b != u.id)
                           and g.reaches(d.id, u.id, edge_ok=lambda a, b, lab: lab != 'e')
                           and not _loop_back(g, d.id, t.id, u.id)]
                if not between:
                    ok, why = True, f'clamp at line {t.line} dominates the decrement and nothing redefines `{var}` after it'
                else:
                    why = f'`{var}` is redefined at line {between[0].line} after the clamp'
        ctx.ob('C02-R2', lc, f'{norm(u.stmt)} uses clamped {var}', ok, why, line=u.line)
    ctx.floor('C02-R2', len(uses), 2, 'mass decrements in _fly_level_change')

    # R4 position/distance pairing
    npos = 0
    for fi in fns:
        if fi.qualname == 'Builder._start_point':
            continue
        for t, st, how in stores_to(fi.node):
            if isinstance(t, ast.Attribute) and t.attr in ('longitude', 'latitude', 'azimuth') \
                    and norm(t.value) == 'pt':
                npos += 1
                v = st.value
                src_ok = isinstance(v, ast.Attribute) and v.attr == t.attr
                base = v
                while isinstance(base, ast.Attribute):
                    base = base.value
                step_call = single_def_value(fi.node, base.id) if isinstance(base, ast.Name) else None
                from_step = isinstance(step_call, ast.Call) and call_name(step_call) == 'self.ground_track.step'
                ok = src_ok and from_step
                why = f'{t.attr} taken from the stepped ground-track point'
                if not src_ok:
                    why = f'pt.{t.attr} receives `{norm(v)}`: a different component'
                elif not from_step:
                    why = 'position does not come from ground_track.step()'
                if ok:
                    a0, a1 = step_call.args[0], step_call.args[1]
                    ok = norm(a0) == 'pt.ground_distance'
                    if not ok:
                        why = f'step starts from `{norm(a0)}`, not from the point\'s accumulated ground distance'
                    else:
                        blk = getattr(st, '_parent', None)
                        adds = [s for tt, s, h in stores_to(fi.node) if norm(tt) == 'pt.ground_distance'
                                and getattr(s, '_parent', None) is blk]
                        ok = len(adds) == 1 and isinstance(adds[0], ast.AugAssign) and norm(adds[0].value) == norm(a1)
                        why = (f'the same `{norm(a1)}` is added to pt.ground_distance in that block' if ok else
                               f'the distance stepped (`{norm(a1)}`) is not the distance added to pt.ground_distance')
                        if ok:
                            sc = stmt_of(step_call)
                            lo, hi = sorted([sc.lineno, adds[0].lineno])
                            ok = adds[0].lineno > sc.lineno
                            if not ok:
                                why = 'ground distance is advanced before the step is taken from it'
                ctx.ob('C02-R4', fi, norm(st), ok, why, line=st.lineno)
    ctx.floor('C02-R4', npos, 6, 'position writes on the flight path')
    sp = prog.func(BASE, 'Builder._start_point')
    for t, st, how in stores_to(sp.node):
        if isinstance(t, ast.Attribute) and t.attr in ('longitude', 'latitude', 'azimuth'):
            ok = isinstance(st.value, ast.Attribute) and st.value.attr == t.attr and 'start' in norm(st.value)
            ctx.ob('C02-R4', sp, norm(st), ok, 'first point is the start of the ground track' if ok else
                   'first point position does not come from the track start', line=st.lineno, nontrivial=False)
    from .c15 import rule_track  # leg coherence of the forward geodesic
    sub = type(ctx)(ctx.prop, ctx.prog, ctx.tier)
    rule_track(sub)
    for o in sub.obligations:
        if o.rule == 'C15-R5':
            o.rule = 'C02-R4'
            ctx.obligations.append(o)

    # R5: fly() reports the same context fields
    fly = prog.func(BASE, 'Builder.fly')
    want = {'traj.starting_mass': 'self.starting_mass', 'traj.total_fuel_mass': 'self.total_fuel_mass'}
    for t, st, how in stores_to(fly.node):
        if norm(t) in want:
            ok = norm(st.value) == want[norm(t)]
            ctx.ob('C02-R5', fly, norm(st), ok, 'reported metadata is the context value' if ok else
                   'reported starting mass / fuel load differs from what the first point carries', line=st.lineno)


def _loop_back(g, d, t, u):
    return False


# ----------------------------------------------------------------- R6/R8 ---
def rule_schedule(ctx):
    prog = ctx.prog
    lm = prog.module(LEG)
    ini = lm.func('LegacyContext.__init__')
    g = CFG(ini.node)
    dom = g.dominators(edge_ok=lambda a, b, lab: lab != 'e')
    sup = [n for n in g.nodes if n.stmt is not None and n.kind == 'stmt' and
           any(call_name(c) == 'super().__init__' or (isinstance(c.func, ast.Attribute) and c.func.attr == '__init__'
               and isinstance(c.func.value, ast.Call) and call_name(c.func.value) == 'super') for c in calls_in(n.stmt))]
    raises = [n for n in g.nodes if n.kind == 'stmt' and isinstance(n.stmt, ast.Raise)]
    want = [
        ('cruise level below climb start', lambda t: 'crz_start_altitude < self.clm_start_altitude' in t),
        ('descent end above descent start', lambda t: 'des_end_altitude > self.des_start_altitude' in t),
        ('arrival above cruise level', lambda t: 'descent_dist_approx < 0' in t),
    ]
    for what, pred in want:
        hit = [r for r in raises if any(pred(norm(t)) and pol for t, pol, _ in guards_of(r.stmt))]
        ok = bool(hit) and bool(sup) and all(
            any(x in dom[sup[0].id] for _, _, o in guards_of(h.stmt) for x in g.nodes_of(o)) for h in hit)
        ctx.ob('C02-R6', ini, f'infeasible schedule refused: {what}', ok,
               'raise evaluated before the context is completed' if ok else
               f'a mission with {what} is no longer refused before flying', line=(hit[0].line if hit else ini.node.lineno))
    # offsets and fall-backs
    defs = {}
    for t, st, how in stores_to(ini.node):
        if isinstance(t, ast.Attribute) and norm(t.value) == 'self':
            defs.setdefault(t.attr, []).append(st)
    shape = [
        ('clm_start_altitude', 0, 'mission.origin_position.altitude + 3000.0 * FEET_TO_METERS', None),
        ('clm_start_altitude', 1, 'mission.origin_position.altitude', 'self.clm_start_altitude >= ac_performance.maximum_altitude'),
        ('des_end_altitude', 0, 'mission.destination_position.altitude + 3000.0 * FEET_TO_METERS', None),
        ('des_end_altitude', 1, 'ac_performance.maximum_altitude', 'self.des_end_altitude >= ac_performance.maximum_altitude'),
        ('des_start_altitude', 0, 'self.crz_start_altitude', None),
        ('crz_start_altitude', 1, 'self.clm_start_altitude', 'self.crz_start_altitude < self.clm_start_altitude'),
        ('crz_start_altitude', 2, 'ac_performance.maximum_altitude', 'self.crz_start_altitude > ac_performance.maximum_altitude'),
    ]
    for attr, i, val, guard in shape:
        sts = sorted(defs.get(attr, []), key=lambda s: s.lineno)
        if len(sts) <= i:
            ctx.ob('C02-R6', ini, f'{attr} definition #{i}', False, 'definition missing', line=ini.node.lineno)
            continue
        st = sts[i]
        v = norm(st.value).replace('3000 *', '3000.0 *')
        gs = [norm(t) for t, pol, _ in guards_of(st) if pol]
        ok = v == val and (guard is None and not gs or guard in gs)
        ctx.ob('C02-R6', ini, f'self.{attr} = {v}' + (f' if {gs}' if gs else ''), ok,
               'documented altitude schedule' if ok else f'expected `{val}`' + (f' under `{guard}`' if guard else ''),
               line=st.lineno)
    ia = [k for k in (sup[0].stmt.value.keywords if sup else []) if k.arg == 'initial_altitude']
    ok = bool(ia) and norm(ia[0].value) == 'self.clm_start_altitude'
    ctx.ob('C02-R6', ini, 'trajectory starts at the climb start altitude', ok,
           'initial_altitude=self.clm_start_altitude' if ok else 'initial altitude is not the climb start altitude',
           nontrivial=False)

    # R8
    lc = lm.func('LegacyBuilder._fly_level_change')
    da = single_def_value(lc.node, 'delta_altitude')
    alt = [st for t, st, how in stores_to(lc.node) if norm(t) == 'pt.altitude']
    loop = next((n for n in walk_no_nested(lc.node) if isinstance(n, ast.For) and any(a is n for s in alt for a in ancestors(s))), None)
    ok = False
    why = 'altitude schedule shape not recognised'
    if da is not None and len(alt) == 1 and loop is not None and isinstance(loop.iter, ast.Call) \
            and call_name(loop.iter) == 'range' and len(loop.iter.args) == 1:
        n_expr = loop.iter.args[0]
        ivar = norm(loop.target)
        last = ast.BinOp(left=n_expr, op=ast.Sub(), right=ast.Constant(1))
        env = {ivar: last, 'delta_altitude': da}
        try:
            lhs = normal_form(alt[0].value, env)
            rhs = normal_form(ast.Name('end_altitude', ast.Load()), {})
            ok = poly_equal(lhs, rhs)
            why = ('with i = n_points − 1: start + i·(end − start)/(n_points − 1) ≡ end_altitude' if ok else
                   f'last point altitude normalises to {lhs}, not end_altitude')
        except Exception as e:  # unknown operator: undecided
            ctx.undecided('C02-R8', lc, norm(alt[0]), f'cannot normalise: {e}')
        # the last iteration must append and stop
        brk = [n for n in walk_no_nested(loop) if isinstance(n, ast.If) and norm(n.test) in (
            f'{ivar} == {norm(n_expr)} - 1',) and any(isinstance(s, ast.Break) for s in n.body)
            and any('traj.append' in norm(s) for s in n.body)]
        ok = ok and bool(brk)
        if not brk and ok is False and 'normalises' not in why:
            why = 'last point is not appended before leaving the loop'
    ctx.ob('C02-R8', lc, 'altitude schedule ends exactly at the target level', ok, why,
           line=(alt[0].lineno if alt else lc.node.lineno))
    calls = {'LegacyBuilder.fly_climb': ('self.clm_start_altitude', 'self.crz_start_altitude', 'FlightPhase.CLIMB', 'SimpleFlightRules.CLIMB'),
             'LegacyBuilder.fly_descent': ('self.des_start_altitude', 'self.des_end_altitude', 'FlightPhase.DESCENT', 'SimpleFlightRules.DESCEND')}
    for qn, (s, e, ph, rl) in calls.items():
        fi = lm.func(qn)
        cs = [c for c in calls_in(fi.node) if call_name(c) == 'self._fly_level_change']
        ok = len(cs) == 1 and len(cs[0].args) == 6 and norm(cs[0].args[4]) == s and norm(cs[0].args[5]) == e \
            and norm(cs[0].args[1]) == ph and norm(cs[0].args[2]) == rl
        ctx.ob('C02-R8', fi, f'level change from {s} to {e} under {rl}', ok,
               'phase flown between its own altitudes with its own flight rule' if ok else
               'phase is flown between the wrong altitudes or with the wrong performance rule',
               line=(cs[0].lineno if cs else fi.node.lineno))
    cz = lm.func('LegacyBuilder.fly_cruise')
    a = [st for t, st, how in stores_to(cz.node) if norm(t) == 'pt.altitude']
    ok = len(a) == 1 and norm(a[0].value) == 'self.crz_start_altitude' and not any(isinstance(x, (ast.For, ast.While)) for x in ancestors(a[0]))
    ctx.ob('C02-R8', cz, 'cruise altitude constant at the cruise level', ok,
           'set once before the cruise loop' if ok else 'cruise altitude varies or is not the cruise level',
           line=(a[0].lineno if a else cz.node.lineno))


def rule_resample(ctx):
    """R9: time resampling interpolates each per-point field against the
    trajectory's own flight-time axis (np.interp(x=new times, xp=own times,
    fp=field view)), copies per-trajectory fields, and sizes the result by the
    new time vector."""
    prog = ctx.prog
    fi = prog.func(TRAJ, 'Trajectory.interpolate_time')
    ot = single_def_value(fi.node, 'orig_time')
    ok = ot is not None and norm(ot) == "self._data['flight_time'][:self._size]"
    ctx.ob('C02-R9', fi, f'abscissa = {norm(ot) if ot is not None else "?"}', ok,
           'the stored flight times' if ok else 'resampling abscissa is not the view of the flight_time field')
    calls = [c for c in calls_in(fi.node) if call_name(c) in ('np.interp', 'numpy.interp')]
    ctx.floor('C02-R9', len(calls), 2, 'np.interp calls in interpolate_time')
    for c in calls:
        a = [norm(x) for x in c.args[:3]]
        ok = len(a) == 3 and a[0] == fi.params[1] and a[1] == 'orig_time' and a[2].startswith('self._data[name]')
        ctx.ob('C02-R9', fi, f'np.interp({", ".join(a)})', ok, 'x = new times, xp = own times, fp = the field' if ok else
               'interpolation arguments are permuted or refer to another array', line=c.lineno)
        edge = {k.arg: norm(k.value) for k in c.keywords}
        ok = edge == {'left': 'np.nan', 'right': 'np.nan'}
        ctx.ob('C02-R9', fi, f'outside the flown interval: {edge}', ok, 'NaN, not an extrapolated value' if ok else
               'times outside the trajectory are extrapolated/clamped', line=c.lineno, nontrivial=False)
    nt = single_def_value(fi.node, 'new_traj')
    ok = nt is not None and norm(nt) == f'Trajectory(len({fi.params[1]}), fieldsets=list(self._fieldsets))'
    ctx.ob('C02-R9', fi, 'result sized by the new time vector, same field sets', ok, norm(nt) if ok else 'result container changed')
    cp = [st for t, st, how in stores_to(fi.node) if norm(t) == 'new_traj._data[name]' and isinstance(getattr(st, 'value', None), ast.Call)
          and call_name(st.value) == 'deepcopy']
    ok = len(cp) == 1 and norm(cp[0].value) == 'deepcopy(self._data[name])'
    ctx.ob('C02-R9', fi, 'per-trajectory fields copied unchanged', ok, 'deepcopy' if ok else 'per-trajectory fields are not carried over', nontrivial=False)


def run(ctx):
    rule_resample(ctx)
    rule_buffers(ctx)
    rule_bookkeeping(ctx)
    rule_schedule(ctx)
    # R10: a state outside the performance envelope is refused (the no-extrapolation rule of C06)
    from .c06 import rule_no_extrapolation
    sub = type(ctx)(ctx.prop, ctx.prog, ctx.tier)
    rule_no_extrapolation(sub)
    for o in sub.obligations:
        o.rule = 'C02-R10'
        ctx.obligations.append(o)
    ctx.controls += sub.controls
    ctx.assumptions += ['monotonicity of time/distance and altitude values depend on table values (not decided)',
                        'np.resize keeps the leading elements of the resized buffer']
